import sys, json, itertools, re, time
from functools import lru_cache
from refeval import *
from ev import evals

PROFILE=sys.argv[1] if len(sys.argv)>1 else "objects"
MAXN=int(sys.argv[2]) if len(sys.argv)>2 else 4

LEAVES=[('null',),('bool',True),('num',0),('num',1),('str','a'),('str','b')]
def parts(n,k):
    # compositions of n into k positive parts
    if k==1:
        yield (n,); return
    for i in range(1,n-k+2):
        for rest in parts(n-i,k-1): yield (i,)+rest

@lru_cache(maxsize=None)
def gen(n, vars_, inobj):
    out=[]
    V=list(vars_)
    if n==1:
        out+=LEAVES
        out+=[('var',v) for v in V]
        if inobj:
            out+=[('self',),('dollar',),('super_field','a')]
        return out
    def sub(m, vs=vars_, io=inobj): return gen(m, vs, io)
    fresh='x' if 'x' not in vars_ else ('y' if 'y' not in vars_ else 'x')
    nv=tuple(sorted(set(vars_)|{fresh}))
    # unary
    for c in sub(n-1):
        if PROFILE in("objects","mixed"):
            out.append(('field',c,'a')); out.append(('std','objectFields',[c])); out.append(('std','length',[c]))
        if PROFILE in("functions","mixed","objects"):
            out.append(('error',c))
        if PROFILE in ("mixed","functions"):
            out.append(('un','-',c)); out.append(('un','!',c)); out.append(('arr',[c]))
        if inobj and PROFILE in("objects","mixed"):
            out.append(('in_super',c)); out.append(('super_index',c))
    # object with one field (children in object ctx)
    if PROFILE in("objects","mixed"):
        for c in gen(n-1, vars_, True):
            for vis in (':','::',':::'):
                for plus in (False,True):
                    out.append(('obj',[('field',('fix','a'),vis,plus,c)]))
            out.append(('obj',[('field',('fix','b'),':',False,c)]))
        for c in gen(n-1, nv, False):
            pass
    # function of one param
    if PROFILE in("functions","mixed"):
        for c in gen(n-1, nv, inobj):
            out.append(('func',[(fresh,None)],c))
    if n>=3:
        for (i,j) in parts(n-1,2):
            for a in sub(i):
                for b in sub(j):
                    if PROFILE in("objects","mixed"):
                        out.append(('bin','+',a,b)); out.append(('bin','==',a,b)); out.append(('bin','in',a,b)); out.append(('index',a,b))
                    if PROFILE in("functions","mixed"):
                        out.append(('bin','+',a,b)); out.append(('bin','<',a,b)); out.append(('bin','&&',a,b)); out.append(('bin','==',a,b))
                        out.append(('call',a,[b],[])); out.append(('call',a,[],[('x',b)]))
                        out.append(('if',a,b,None)); out.append(('index',a,b)); out.append(('arr',[a,b]))
            # local
            for a in gen(i, nv, inobj) if False else []: pass
            for a in gen(i, nv, inobj):
                for b in gen(j, nv, inobj):
                    out.append(('local',[(fresh,a)],b))
            if PROFILE in("objects","mixed"):
                for a in gen(i, vars_, True):
                    for b in gen(j, vars_, True):
                        out.append(('obj',[('field',('fix','a'),':',False,a),('field',('fix','b'),':',False,b)]))
                        out.append(('obj',[('field',('fix','a'),'::',False,a),('field',('fix','b'),':',True,b)]))
                        out.append(('obj',[('assert',a,None),('field',('fix','a'),':',False,b)]))
                for a in gen(i, nv, True):
                    for b in gen(j, nv, True):
                        out.append(('obj',[('local',fresh,a),('field',('fix','a'),':',False,b)]))
                for a in sub(i):   # computed name in outer scope
                    for b in gen(j, vars_, True):
                        out.append(('obj',[('field',('dyn',a),':',False,b)]))
                # object comprehension {[x]: body for x in arr}
                for a in sub(i):
                    for b in gen(j, nv, True):
                        out.append(('ocomp',('var',fresh),False,b,[('for',fresh,a)]))
            if PROFILE in("functions","mixed"):
                for a in sub(i):
                    for b in gen(j, nv, inobj):
                        out.append(('acomp',b,[('for',fresh,a)]))
                # default param
                for a in gen(i, nv, inobj):
                    for b in gen(j, nv, inobj):
                        out.append(('func',[(fresh,a)],b))
    if n>=4 and PROFILE in("functions","mixed"):
        for (i,j,k) in parts(n-1,3):
            for a in sub(i):
                for b in sub(j):
                    for c in sub(k):
                        out.append(('if',a,b,c))
    return out

def norm_impl(r):
    if 'ok' in r: return ('ok', json.loads(r['ok']))
    if 'load' in r: return ('load', r['load'][:60])
    if 'panic' in r: return ('panic', r['panic'][:80])
    k=r['err']
    if k=='ExplicitError':
        m=re.search(r'message: "((?:[^"\\]|\\.)*)"', r['detail']); return ('err','explicit', json.loads('"'+m.group(1)+'"') if m else None)
    if k=='AssertFailed':
        m=re.search(r'message: Some\("((?:[^"\\]|\\.)*)"\)', r['detail']); return ('err','assert', json.loads('"'+m.group(1)+'"') if m else None)
    if k in('StackOverflow','InfiniteRecursion'): return ('err','rec',None)
    return ('err','other',None)
def norm_ref(r):
    if r[0]=='ok': return r
    if r[0]=='diverge': return ('err','rec',None)
    k=r[1]
    if k=='explicit': return ('err','explicit',r[2])
    if k=='assert': return ('err','assert',r[2])
    if k=='infrec': return ('err','rec',None)
    return ('err','other',None)

t0=time.time()
total=0; mism=0; shown=0
from collections import Counter
outc=Counter(); mk=Counter()
for n in range(1,MAXN+1):
    progs=gen(n,(),False)
    print("size",n,"programs",len(progs),file=sys.stderr)
    B=20000
    for i in range(0,len(progs),B):
        chunk=progs[i:i+B]
        srcs=[pr(p) for p in chunk]
        impl=evals(srcs, max_stack=16)
        for p,s,r in zip(chunk,srcs,impl):
            total+=1
            a=norm_impl(r); b=norm_ref(run_ref(p))
            outc[a[0] if a[0]!='err' else a[1]]+=1
            same = (a==b)
            if not same and a[0]=='ok' and b[0]=='ok':
                same = json.dumps(a[1],sort_keys=True)==json.dumps(b[1],sort_keys=True)
            if not same and b[0]=='err' and b[1]=='other' and a[0]=='err': same=True   # spec assigns no message: only failing is compared
            if not same:
                mism+=1; mk[(a[0] if a[0]!='err' else a[1], b[0] if b[0]!='err' else b[1])]+=1
                if shown<40:
                    shown+=1; print("MISMATCH",s,"\n    impl",a,"\n    ref ",b)
print("total",total,"mismatches",mism,"time",round(time.time()-t0,1))
print("outcomes",outc)
print("mismatch kinds",mk)
