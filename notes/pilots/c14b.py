import subprocess, json, itertools, re
def lex(srcs):
    inp="\n".join(json.dumps(list(s)) for s in srcs)+"\n"
    p=subprocess.run(["/tmp/scratch/target/debug/lex"],input=inp.encode(),capture_output=True)
    return [json.loads(l) for l in p.stdout.decode().split("\n")[:-1]]
alpha=[b"{",b"/",b"*",b"|",b"!",b"$",b":",b"+",b"-",b"=",b"<",b" ",b"\n",b"\r",b"#",b"0",b"1",b".",b"e",b"_",b"a",b"@",b"'",b'"',b"\\",b"u",b"\xc3",b"\xa9",b"\xe2",b"\x82",b"\xf0",b"\x9f",b"\xff",b"\x80",b"\xed",b"\xa0",b"\t"]
cases=[b"".join(p) for n in (1,2,3,4) for p in itertools.product(alpha,repeat=n) if n<4 or p[0] in (b"|",b"'",b'"',b"@",b"/",b"0",b"1")]
print(len(cases))
res=[]
B=200000
for i in range(0,len(cases),B): res+=lex(cases[i:i+B])
bad=0; errs=0
for c,r in zip(cases,res):
    n=len(c)
    if 'ok' in r:
        pos=0
        for t in r['ok']:
            m=re.search(r'@(\d+)\.\.(\d+)$',t); s,e=int(m.group(1)),int(m.group(2))
            if s!=pos or e<s or e>n: bad+=1; print("TILE",c,r['ok']); break
            pos=e
        else:
            if pos!=n or not r['ok'][-1].startswith("EOF@%d..%d"%(n,n)): bad+=1; print("END",c,r['ok'])
    else:
        errs+=1
        m=re.search(r'offset: (\d+), len: (\d+)',r['err'])
        s=int(m.group(1)); l=int(m.group(2))
        if s+l>n: bad+=1; print("SPAN",c,r['err'])
print("ok",len(cases)-errs,"errors",errs,"violations",bad)
