import sys, json, re
exec(open("c04.py").read().split("Z='zz9'")[0])
def inside_obj(path):
    io=False
    for p in path:
        if p[0] in('obj_f','obj_l','obj_a','ocomp_body'): io=True
    return io
tot=0;bad=0
from collections import Counter
cnt=Counter()
for prof,n in (("mixed",3),("objects",3)):
    PROFILE=prof; gen.cache_clear()
    progs=[p for k in range(1,n+1) for p in gen(k,(),False)]
    cases=[];meta=[]
    for p in progs:
        for path,sub in sites(p):
            for name,new in (('unbound',('var','zz9')),('self',('self',)),('dollar',('dollar',)),('super',('super_field','a')),('insuper',('in_super',('str','a')))):
                q=rebuild(p,path,lambda _e,new=new:new)
                cases.append(pr(q)); meta.append((name,inside_obj(path),path))
    res=evals(cases,max_stack=40)
    for (name,io,path),s,r in zip(meta,cases,res):
        tot+=1
        load=r.get('load','')
        if name=='unbound': ok = 'UnknownVariable' in load
        else:
            want={'self':'SelfOutsideObject','dollar':'DollarOutsideObject','super':'SuperOutsideObject','insuper':'SuperOutsideObject'}[name]
            ok = (want in load) if not io else ('Analyze' not in load)
        if 'panic' in r: ok=False
        cnt[(name,io,ok)]+=1
        if not ok:
            bad+=1
            if bad<=20: print("BAD",name,io,s,r)
    print(prof,len(progs),len(cases))
print("total",tot,"bad",bad)
for k,v in sorted(cnt.items()): print(k,v)
