import subprocess, os, shlex, sys
from concurrent.futures import ThreadPoolExecutor
J="/tmp/scratch/gctarget/debug/rsjsonnet"
root="/repo/ui-tests"
tests=[]
for d,_,fs in os.walk(root):
    for f in fs:
        if f.endswith(".jsonnet"): tests.append(os.path.join(d,f))
tests.sort()
def params(path):
    args=[]
    for line in open(path,"rb").read().decode("utf8","replace").splitlines():
        l=line.strip()
        if l.startswith("//@") or l.startswith("#@"):
            c=l.split("@",1)[1].strip()
            if c.startswith("args:"): args=shlex.split(c[5:])
        elif l.startswith("//") or l.startswith("#") or not l: continue
        else: break
    return args
def run(path):
    args=params(path)
    d=os.path.dirname(path); f=os.path.basename(path)
    out=[]
    for gc in (False,True):
        env={"NO_COLOR":"1","PATH":"/usr/bin:/bin"}
        if gc: env["GC_EVERY"]="1"
        try:
            p=subprocess.run([J,*args,f],cwd=d,capture_output=True,env=env,timeout=600)
            out.append((p.returncode,p.stdout,p.stderr))
        except subprocess.TimeoutExpired:
            out.append(("TIMEOUT",b"",b""))
    return path,out
diff=0; n=0
with ThreadPoolExecutor(16) as ex:
    for path,(a,b) in ex.map(run,tests):
        n+=1
        if a!=b:
            diff+=1
            print("DIFF",path, a[0], b[0], b[2][:300] if b[0]!=a[0] else "")
print(n,"tests; differing",diff)
