from ev import evals
import itertools, json
convs="diuoxXeEfF"
flagsets=[''.join(s) for n in range(6) for s in itertools.combinations("#0- +",n)]
widths=["","0","1","5","12"]
precs=["",".0",".1",".3",".10",".17",".20"]
vals=[("0",0),("1",1),("-1",-1),("255",255),("-255",-255),("0.5",0.5),("1.5",1.5),("2.5",2.5),("-0.5",-0.5),("0.125",0.125),("123456789",123456789),("1e-5",1e-5),("123.456",123.456),("9007199254740991",9007199254740991.0),("5e-324",5e-324), ("0.000123456",0.000123456),("99999.95",99999.95),("999999.5",999999.5),("1e15+0.5",1e15+0.5),("0.1",0.1),("-2.675",-2.675)]
cases=[(c,f,w,p,vs,v) for c in convs for f in flagsets for w in widths for p in precs for vs,v in vals if not (c=='o' and '#' in f)]
srcs=["'%%%s%s%s%s' %% [%s]"%(f,w,p,c,vs) for (c,f,w,p,vs,v) in cases]
print(len(srcs))
res=evals(srcs)
from collections import Counter
bad=Counter(); ex={}
for (c,f,w,p,vs,v),r in zip(cases,res):
    fmt="%"+f+w+p+c
    try:
        exp=fmt % (int(v) if c in "diuoxX" else v)
    except Exception as e:
        exp=("PYERR",str(e))
    got=json.loads(r['ok']) if 'ok' in r else ("ERR",r.get('err') or r.get('panic'))
    if got!=exp:
        bad[c]+=1; ex.setdefault(c,[]).append((fmt,vs,exp,got))
print(bad)
for c in ex:
    print("==",c,len(ex[c]))
    for e in ex[c][:8]: print("   ",e)
# c and s
srcs=["'%5c|' % 'é'","'%-5c|' % 'é'","'%c' % 233","'%c' % 128512","'%5s|' % 'a'","'%-5s|' % 'a'","'%.2s|' % 'abcdef'","'%5.2s|' % 'abcdef'", "'%s' % [[1,2]]", "'%s' % {a:1}", "'%s' % null", "'%s' % true", "'%s' % 1.5", "'%5%|' % []", "'%(a)s %(b)d' % {a:'x', b: 2}", "'%*d|' % [5, 3]", "'%-*d|' % [5, 3]", "'%.*f|' % [2, 3.14159]", "'%*.*f|' % [8, 2, 3.14159]", "'%d %d' % [1]", "'%d' % [1,2]", "'%d' % 'a'", "'%s %s' % 'a'", "'%' % 1", "'%z' % 1", "'%(a' % {a:1}", "'%(a)' % {a:1}", "'%ld %hd %Ld' % [1,2,3]", "'%5' % 1", "'%.f' % 1.5", "'%.' % 1"]
for s,r in zip(srcs,evals(srcs)): print(s,"=>",r.get('ok') or r.get('detail') or r)
