from ev import evals
import json, ast, tomllib, sys
import yaml
chars=[chr(c) for c in list(range(0,0x3000))+[0xd7ff,0xe000,0xfffd,0xfffe,0xffff,0x10000,0x1f600,0x10ffff,0x2028,0x2029,0xfeff]]
def lit(s): return json.dumps(s)   # ascii-escaped jsonnet string literal is valid jsonnet (uses \uXXXX and surrogate pairs)
srcs=[]
for ch in chars:
    s="a"+ch+"b"
    srcs.append("std.manifestJsonEx(%s,'')"%lit(s))
    srcs.append("std.manifestPython(%s)"%lit(s))
    srcs.append("std.manifestTomlEx({k:%s},'')"%lit(s))
    srcs.append("std.manifestYamlDoc(%s)"%lit(s))
    srcs.append("std.manifestYamlDoc({[%s]:1},quote_keys=false)"%lit(s))
    srcs.append("std.toString([%s])"%lit(s))
    srcs.append("std.parseYaml(std.manifestYamlDoc(%s))==%s"%(lit(s),lit(s)))
    srcs.append("std.parseJson(std.manifestJsonEx(%s,''))==%s"%(lit(s),lit(s)))
res=evals(srcs)
from collections import defaultdict
bad=defaultdict(list)
for i,ch in enumerate(chars):
    s="a"+ch+"b"
    r=[json.loads(x['ok'],strict=False) if 'ok' in x else None for x in res[8*i:8*i+8]]
    def tryf(name,f):
        try:
            v=f()
            if v!=s: bad[name].append((hex(ord(ch)),'wrong'))
        except Exception as e:
            bad[name].append((hex(ord(ch)),type(e).__name__))
    tryf("json",lambda: json.loads(r[0]))
    tryf("python",lambda: ast.literal_eval(r[1]))
    tryf("toml",lambda: tomllib.loads(r[2])['k'])
    if 0xd800>ord(ch) or ord(ch)>0xdfff:
        tryf("yaml",lambda: yaml.safe_load(r[3]))
        tryf("yamlkey",lambda: list(yaml.safe_load(r[4]).keys())[0])
    tryf("tostring",lambda: json.loads(r[5])[0])
    if r[6] is not True: bad["parseYaml-rt"].append(hex(ord(ch)))
    if r[7] is not True: bad["parseJson-rt"].append(hex(ord(ch)))
for k,v in bad.items(): print(k,len(v),v[:14])
