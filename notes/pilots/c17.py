from ev import evals
import itertools, json, random
def arr(keys): return "["+",".join("[%d,%d]"%(k,i) for i,k in enumerate(keys))+"]"
def check(name,cases,src,ref):
    srcs=[src(c) for c in cases]; res=evals(srcs); n=0
    for c,r in zip(cases,res):
        got=json.loads(r['ok']) if 'ok' in r else ("ERR",r.get('err') or r.get('panic'))
        e=ref(c)
        if got!=e:
            n+=1
            if n<=4: print("MISMATCH",name,c if len(str(c))<200 else str(c)[:200],"exp",str(e)[:150],"got",str(got)[:150])
    print(name,len(cases),"mismatches",n)
kf="function(p) p[0]"
small=[list(p) for n in range(0,7) for p in itertools.product([0,1,2],repeat=n)]
pairs=lambda ks:[[k,i] for i,k in enumerate(ks)]
check("sort-small",small,lambda ks:"std.sort(%s,%s)"%(arr(ks),kf),lambda ks:sorted(pairs(ks),key=lambda p:p[0]))
check("uniq-small",small,lambda ks:"std.uniq(%s,%s)"%(arr(ks),kf),lambda ks:[p for i,p in enumerate(pairs(ks)) if i==0 or ks[i]!=ks[i-1]])
def refset(ks):
    s=sorted(pairs(ks),key=lambda p:p[0]); return [p for i,p in enumerate(s) if i==0 or s[i][0]!=s[i-1][0]]
check("set-small",small,lambda ks:"std.set(%s,%s)"%(arr(ks),kf),refset)
def refmin(ks):
    ps=pairs(ks); 
    if not ps: return ("ERR","Other")
    m=min(k for k,_ in ps); return [p for p in ps if p[0]==m][0]
def refmax(ks):
    ps=pairs(ks); 
    if not ps: return ("ERR","Other")
    m=max(k for k,_ in ps); return [p for p in ps if p[0]==m][0]
check("min-small",small,lambda ks:"std.minArray(%s,%s)"%(arr(ks),kf),refmin)
check("max-small",small,lambda ks:"std.maxArray(%s,%s)"%(arr(ks),kf),refmax)
# long arrays: bases + single/double deviations
long=[]
for n in list(range(28,70))+[119,120,121,200]:
    bases=[[i*3//n for i in range(n)],[2-(i*3//n) for i in range(n)],[1]*n,[i%2 for i in range(n)],[i%3 for i in range(n)],[(i*7)%5 for i in range(n)]]
    for b in bases:
        long.append(b)
        for pos in range(n):
            for v in (0,3):
                d=list(b); d[pos]=v; long.append(d)
print(len(long))
check("sort-long",long,lambda ks:"std.sort(%s,%s)"%(arr(ks),kf),lambda ks:sorted(pairs(ks),key=lambda p:p[0]))
check("set-long",long[::7],lambda ks:"std.set(%s,%s)"%(arr(ks),kf),refset)
# sets algebra
U=range(5)
sets=[[x for x in U if m>>x&1] for m in range(32)]
sp=[(a,b) for a in sets for b in sets]
S=lambda a,tag: "["+",".join("[%d,'%s']"%(k,tag) for k in a)+"]"
check("union",sp,lambda ab:"std.setUnion(%s,%s,%s)"%(S(ab[0],'l'),S(ab[1],'r'),kf),lambda ab:[[k,'l' if k in ab[0] else 'r'] for k in sorted(set(ab[0])|set(ab[1]))])
check("inter",sp,lambda ab:"std.setInter(%s,%s,%s)"%(S(ab[0],'l'),S(ab[1],'r'),kf),lambda ab:[[k,'l'] for k in sorted(set(ab[0])&set(ab[1]))])
check("diff",sp,lambda ab:"std.setDiff(%s,%s,%s)"%(S(ab[0],'l'),S(ab[1],'r'),kf),lambda ab:[[k,'l'] for k in sorted(set(ab[0])-set(ab[1]))])
mem=[(x,a) for a in sets for x in range(-1,6)]
check("member",mem,lambda xa:"std.setMember([%d,'q'],%s,%s)"%(xa[0],S(xa[1],'l'),kf),lambda xa:xa[0] in xa[1])
big=[(x,list(range(0,2*n,2))) for n in (1,2,3,7,8,31,32,33,64) for x in range(-1,2*n+1)]
check("member-big",big,lambda xa:"std.setMember(%d,%s)"%(xa[0],json.dumps(xa[1])),lambda xa:xa[0] in xa[1])
