from ev import evals
import itertools, json, math
D=["0","-0","1","-1","0.5","-0.5","2","3","1e308","-1e308","1.7976931348623157e308","-1.7976931348623157e308","5e-324","-5e-324","2.2250738585072014e-308","9007199254740992","9007199254740993","1e16","1e-16","255","256","1024","-1024","0.1","709","710","1e300","-1e300","1e-300","3.141592653589793","1.5707963267948966","4503599627370496","0.49999999999999994","63","64","65","1074","-1074","1023","-1023"]
un=["std.abs","std.sign","std.round","std.floor","std.ceil","std.exp","std.log","std.log2","std.log10","std.sqrt","std.sin","std.cos","std.tan","std.asin","std.acos","std.atan","std.deg2rad","std.rad2deg","std.exponent","std.mantissa","-","+","~","std.isEven","std.isOdd","std.isInteger","std.isDecimal","std.toString","std.char"]
bi=["std.max","std.min","std.pow","std.atan2","std.hypot","std.mod","std.modulo","std.range","std.repeat"]
ops=["+","-","*","/","%","<<",">>","&","|","^"]
srcs=[];meta=[]
for f in un:
    for a in D:
        srcs.append("%s(%s)"%(f,a)); meta.append((f,a))
for f in bi:
    if f in("std.range","std.repeat"): continue
    for a in D:
        for b in D:
            srcs.append("%s(%s,%s)"%(f,a,b)); meta.append((f,a,b))
for o in ops:
    for a in D:
        for b in D:
            srcs.append("(%s) %s (%s)"%(a,o,b)); meta.append((o,a,b))
B=["1e308","-1e308","1.7976931348623157e308","0","1","5e-324","-5e-324","0.1","9007199254740993"]
for f in ["std.sum","std.avg","std.minArray","std.maxArray"]:
    for n in (1,2,3):
        for p in itertools.product(B,repeat=n):
            srcs.append("%s([%s])"%(f,",".join(p))); meta.append((f,)+p)
for p in itertools.product(B,repeat=3):
    srcs.append("std.foldl(function(a,b) a+b,[%s],0)"%",".join(p)); meta.append(("foldl+",)+p)
    srcs.append("std.clamp(%s)"%",".join(p)); meta.append(("clamp",)+p)
print(len(srcs))
res=evals(srcs)
from collections import Counter
bad=Counter()
for m,r in zip(meta,res):
    if 'panic' in r: bad[(m[0],'panic')]+=1; print("PANIC",m,r['panic'][:100]); continue
    if 'ok' in r:
        t=r['ok']
        if 'inf' in t or 'NaN' in t or 'nan' in t:
            bad[(m[0],'nonfinite')]+=1
            if bad[(m[0],'nonfinite')]<=2: print("NONFINITE",m,t[:60])
print(bad)
