from ev import evals
import itertools, json
alpha=["a","b","é","€","😀","́",","]
strs=[""]+["".join(p) for n in (1,2,3) for p in itertools.product(alpha,repeat=n)]
print(len(strs))
J=json.dumps
def lit(s): return json.dumps(s, ensure_ascii=False)
bad=[]
def check(name, srcs, exps):
    res=evals(srcs)
    n=0
    for s,r,e in zip(srcs,res,exps):
        got=json.loads(r['ok']) if 'ok' in r else ("ERR", r.get('err') or r.get('panic'))
        if got!=e:
            n+=1
            if n<=5: print("MISMATCH",name,s,"exp",e,"got",got)
    print(name,len(srcs),"mismatches",n)
# length, chars, reverse
check("length",["std.length(%s)"%lit(s) for s in strs],[len(s) for s in strs])
check("stringChars",["std.stringChars(%s)"%lit(s) for s in strs],[list(s) for s in strs])
check("reverse",["std.reverse(%s)"%lit(s) for s in strs],[list(reversed(s)) for s in strs])
# index
idx=[-1,0,1,2,3,4]
cs=[(s,i) for s in strs for i in idx]
check("index",["%s[%d]"%(lit(s),i) for s,i in cs],[s[i] if 0<=i<len(s) else ("ERR","NumericIndexOutOfRange" if i>=0 else "NumericIndexIsNotValid") for s,i in cs])
# slices
sl=[None,-2,-1,0,1,2,5]
st=[None,1,2]
cs=[(s,a,b,c) for s in strs[:120] for a in sl for b in sl for c in st]
def pyslice(s,a,b,c):
    return s[a:b:c]
def fmt(x): return "" if x is None else str(x)
check("slice",["%s[%s:%s:%s]"%(lit(s),fmt(a),fmt(b),fmt(c)) for s,a,b,c in cs],[pyslice(s,a,b,c) for s,a,b,c in cs])
# substr
cs=[(s,f,l) for s in strs[:200] for f in range(0,5) for l in range(0,5)]
check("substr",["std.substr(%s,%d,%d)"%(lit(s),f,l) for s,f,l in cs],[s[f:f+l] for s,f,l in cs])
# findSubstr
pats=[p for p in strs if 1<=len(p)<=2]
cs=[(p,s) for p in pats for s in strs if len(s)<=3][:60000]
def find_all(p,s): return [i for i in range(len(s)-len(p)+1) if s[i:i+len(p)]==p]
check("findSubstr",["std.findSubstr(%s,%s)"%(lit(p),lit(s)) for p,s in cs],[find_all(p,s) for p,s in cs])
# split / join identity
cs=[(s,c) for s in strs for c in pats[:20]]
check("split",["std.split(%s,%s)"%(lit(s),lit(c)) for s,c in cs],[s.split(c) for s,c in cs])
check("joinsplit",["std.join(%s, std.split(%s,%s))"%(lit(c),lit(s),lit(c)) for s,c in cs],[s for s,c in cs])
cs=[(s,c,n) for s in strs[:150] for c in pats[:10] for n in (-1,0,1,2,3)]
check("splitLimit",["std.splitLimit(%s,%s,%d)"%(lit(s),lit(c),n) for s,c,n in cs],[s.split(c,n) for s,c,n in cs])
check("splitLimitR",["std.splitLimitR(%s,%s,%d)"%(lit(s),lit(c),n) for s,c,n in cs],[s.rsplit(c,n) for s,c,n in cs])
# strip
cs=[(s,c) for s in strs for c in ["","a","ab","é","😀,","́a"]]
check("stripChars",["std.stripChars(%s,%s)"%(lit(s),lit(c)) for s,c in cs],[s.strip(c) if c else s for s,c in cs])
check("lstripChars",["std.lstripChars(%s,%s)"%(lit(s),lit(c)) for s,c in cs],[s.lstrip(c) if c else s for s,c in cs])
check("rstripChars",["std.rstripChars(%s,%s)"%(lit(s),lit(c)) for s,c in cs],[s.rstrip(c) if c else s for s,c in cs])
cs=[(s,f,t) for s in strs[:200] for f in pats[:12] for t in ["","x","éé"]]
check("strReplace",["std.strReplace(%s,%s,%s)"%(lit(s),lit(f),lit(t)) for s,f,t in cs],[s.replace(f,t) for s,f,t in cs])
# format width
cs=[(s,w) for s in strs[:200] for w in range(0,6)]
check("fmtwidth",["'%%%ds' %% [%s]"%(w,lit(s)) for s,w in cs],[("%%%ds"%w) % s for s,w in cs])
check("fmtwidthL",["'%%-%ds' %% [%s]"%(w,lit(s)) for s,w in cs],[("%%-%ds"%w) % s for s,w in cs])
check("map",["std.map(function(c) c+'x', %s)"%lit(s) for s in strs[:100]],[[c+'x' for c in s] for s in strs[:100]])
check("flatMap",["std.flatMap(function(c) c+c, %s)"%lit(s) for s in strs[:100]],["".join(c+c for c in s) for s in strs[:100]])
check("codepoint",["std.codepoint(%s)"%lit(s) for s in strs if len(s)==1],[ord(s) for s in strs if len(s)==1])
