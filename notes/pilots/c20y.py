from ev import evals
import itertools, json
from collections import Counter
toks=["- ","-",": ",":","? ","a","1","0x1F","0o7","~","&x ","*x","!t ","!!str ","[","]","{","}",",","|","|-",">","\"","'","#","---","...","%YAML 1.2","\n","  "," ","\t","é","&x","*y","<<: ","0x1234567890123456789012345678901é","null","1e999","-.inf",".nan","0x","0o8","1_000","\\","\u2028","\ufeff","\x00","\x7f","\r"]
print(len(toks))
def run(n, first=None):
    docs=[]
    for p in itertools.product(toks,repeat=n):
        docs.append("".join(p))
    return docs
cnt=Counter(); pan=Counter(); ex={}
total=0
for n in (1,2,3):
    docs=run(n)
    for i in range(0,len(docs),50000):
        chunk=docs[i:i+50000]
        res=evals(["std.parseYaml(%s)"%json.dumps(d) for d in chunk])
        for d,r in zip(chunk,res):
            total+=1
            if 'panic' in r:
                k=r['panic'][:70]; pan[k]+=1; ex.setdefault(k,d)
            elif 'ok' in r: cnt['ok']+=1
            else: cnt[r.get('err')]+=1
print(total,cnt)
for k,c in pan.items(): print("PANIC",c,k,"e.g.",repr(ex[k]))
