from ev import evals
import json
shapes={
 "frec": lambda d:"local f(n) = if n == 0 then 0 else 1 + f(n-1); f(%d)"%d,
 "mutual": lambda d:"local f(n) = if n == 0 then 0 else g(n-1), g(n) = if n==0 then 1 else f(n-1); f(%d)"%d,
 "objrec": lambda d:"local o = {f(n): if n == 0 then 0 else 1 + self.f(n-1)}; o.f(%d)"%d,
 "nestarr-manifest": lambda d:"std.foldl(function(a,i) [a], std.range(1,%d), 0)"%d,
 "nestobj-manifest": lambda d:"std.foldl(function(a,i) {a:a}, std.range(1,%d), 0)"%d,
 "nestarr-eq": lambda d:"local x=std.foldl(function(a,i) [a], std.range(1,%d), 0); x == x"%d,
 "nestarr-lt": lambda d:"local x=std.foldl(function(a,i) [a], std.range(1,%d), 0); x < x"%d,
 "nestarr-tostring": lambda d:"std.length(std.toString(std.foldl(function(a,i) [a], std.range(1,%d), 0)))"%d,
 "nestarr-concat": lambda d:"std.length('' + std.foldl(function(a,i) [a], std.range(1,%d), 0))"%d,
 "nestarr-yaml": lambda d:"std.length(std.manifestYamlDoc(std.foldl(function(a,i) [a], std.range(1,%d), 0)))"%d,
 "nestobj-toml": lambda d:"std.length(std.manifestTomlEx(std.foldl(function(a,i) {a:a}, std.range(1,%d), {x:1}),''))"%d,
 "nestarr-python": lambda d:"std.length(std.manifestPython(std.foldl(function(a,i) [a], std.range(1,%d), 0)))"%d,
 "nestarr-jsonex": lambda d:"std.length(std.manifestJsonEx(std.foldl(function(a,i) [a], std.range(1,%d), 0),' '))"%d,
 "prune": lambda d:"std.prune(std.foldl(function(a,i) [a], std.range(1,%d), 1))"%d,
 "flattendeep": lambda d:"std.flattenDeepArray(std.foldl(function(a,i) [a], std.range(1,%d), 1))"%d,
 "mergepatch": lambda d:"local x=std.foldl(function(a,i) {a:a}, std.range(1,%d), {x:1}); std.mergePatch(x,x)"%d,
 "thunkchain": lambda d:"local a = std.foldl(function(a,i) a + 1, std.range(1,%d), 0); a"%d,
 "lazychain": lambda d:"std.foldl(function(a,i) [a[0] + 1], std.range(1,%d), [0])[0]"%d,
 "selfloc": lambda d:"local x = x; x",
 "selffield": lambda d:"{a: self.a}.a",
 "mutfield": lambda d:"{a: self.b, b: self.a}",
 "selfdefault": lambda d:"(function(a=a) a)()",
 "inf": lambda d:"local f(x) = f(x); f(1)",
 "inf2": lambda d:"local f(x) = 1 + f(x); f(1)",
 "sort": lambda d:"std.length(std.sort(std.range(1,%d)))"%d,
 "filter": lambda d:"std.length(std.filter(function(x) true, std.range(1,%d)))"%d,
 "mapforce": lambda d:"std.length(std.toString(std.map(function(x) x, std.range(1,%d))))"%d,
 "join": lambda d:"std.length(std.join(',', std.map(function(x) 'a', std.range(1,%d))))"%d,
 "deepjoin": lambda d:"std.length(std.deepJoin(std.foldl(function(a,i) [a], std.range(1,%d), 'x')))"%d,
 "assertchain": lambda d:"local f(n) = assert n >= 0; if n == 0 then 0 else f(n-1); f(%d)"%d,
 "comp": lambda d:"std.length([x for x in std.range(1,%d)])"%d,
 "objcomp": lambda d:"std.length({['k'+x]: x for x in std.range(1,%d)})"%d,
 "superchain": lambda d:"std.foldl(function(a,i) a + {a+: 1}, std.range(1,%d), {a: 0}).a"%d,
}
S=list(range(0,40))+[60,100,200,500,501]
Dd=[0,1,2,3,5,8,13,20,30,40,60]
viol=0
for name,f in shapes.items():
    table={}
    for s in S:
        res=evals([f(d) for d in Dd], max_stack=s)
        for d,r in zip(Dd,res):
            if 'panic' in r: print("PANIC",name,s,d,r); viol+=1
            table[(s,d)]=('ok',r['ok']) if 'ok' in r else ('err',r.get('err'))
    for d in Dd:
        seen_ok=None
        kinds=set()
        for s in S:
            t=table[(s,d)]
            if t[0]=='ok':
                if seen_ok is None: seen_ok=(s,t[1])
                elif t[1]!=seen_ok[1]: print("VALUE CHANGED",name,d,s); viol+=1
            else:
                kinds.add(t[1])
                if seen_ok is not None: print("NON-MONOTONE",name,"d=",d,"ok at s=",seen_ok[0],"but",t,"at s=",s); viol+=1
        bad=kinds-{'StackOverflow','InfiniteRecursion'}
        if bad: print("OTHER ERR",name,d,bad)
    thr={d: next((s for s in S if table[(s,d)][0]=='ok'),None) for d in Dd}
    print(name,"threshold by depth",thr)
print("violations",viol)
