from ev import evals
import itertools, json
toks=['{','}','[',']',',',':','"a"','"b"','"\\u00e9"','"\\ud83d\\ude00"','"\\ud800"','"\\x"','"\x01"','1','-1','0','01','1.','.5','1.5e1','1e400','-','true','null','nul',' ','\t','\n','-0','1E+2','"\\/"','2e-400','NaN','Infinity', '"\x7f"', '\ufeff', '\u00a0', '0x1', '+1', '1e', "'a'"]
def dup_hook(pairs):
    keys=[k for k,_ in pairs]
    if len(set(keys))!=len(keys): raise ValueError("dup")
    return dict(pairs)
def bad_const(c): raise ValueError("const")
def pyparse(s):
    try:
        v=json.loads(s, object_pairs_hook=dup_hook, parse_constant=bad_const)
    except (ValueError, RecursionError) as e:
        return ("ERR",)
    # floats inf?
    def chk(v):
        if isinstance(v,float) and (v!=v or v in (float('inf'),float('-inf'))): raise OverflowError
        if isinstance(v,list): [chk(x) for x in v]
        if isinstance(v,dict): [chk(x) for x in v.values()]
    try: chk(v)
    except OverflowError: return ("ERR",)
    return ("OK",v)
docs=[]
for n in (1,2,3,4):
    for p in itertools.product(range(len(toks)),repeat=n):
        if n==4 and (p[0]>24 or p[3]>24): continue
        docs.append("".join(toks[i] for i in p))
print(len(docs))
srcs=["std.parseJson(%s)"%json.dumps(d) for d in docs]
res=evals(srcs)
n=0
from collections import Counter
cnt=Counter()
for d,r in zip(docs,res):
    e=pyparse(d)
    if 'ok' in r:
        got=("OK",json.loads(r['ok']))
    else: got=("ERR",)
    if 'panic' in r: print("PANIC",repr(d),r)
    if got!=e:
        # python int vs float
        if got[0]=="OK" and e[0]=="OK" and json.dumps(got[1])==json.dumps(json.loads(json.dumps(e[1]))): continue
        n+=1
        key=(got[0],e[0])
        cnt[key]+=1
        if cnt[key]<=25: print("MISMATCH",repr(d),"impl",got,"py",e)
print("mismatches",n,cnt)
