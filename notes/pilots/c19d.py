from ev import evals
import itertools, json
from collections import Counter
alpha=["%","(",")","a","d","s",".","*","0","-","5","h","f"," ","#","+","x","c","e","g","l"]
fmts=["".join(p) for n in (1,2,3,4) for p in itertools.product(alpha,repeat=n) if "%" in p]
argsets=[(),(3,),(3,4),(3,4,5)]
cases=[(f,a) for f in fmts for a in argsets]
print(len(cases))
srcs=["std.format(%s, %s)"%(json.dumps(f),json.dumps(list(a))) for f,a in cases]
res=evals(srcs)
cnt=Counter(); ex={}
for (f,a),r in zip(cases,res):
    try: exp=("OK", f % a)
    except Exception as e: exp=("ERR",type(e).__name__+":"+str(e)[:40])
    got=("OK",json.loads(r['ok'])) if 'ok' in r else (("PANIC",r['panic']) if 'panic' in r else ("ERR",r['detail'][:80]))
    if got[0]=="PANIC": print("PANIC",f,got)
    if got[0]!=exp[0] or (got[0]=="OK" and got[1]!=exp[1]):
        key=(got[0],exp[0], exp[1].split(":")[0] if exp[0]=="ERR" else "")
        cnt[key]+=1; ex.setdefault(key,[]).append((f,a,got,exp))
print(cnt)
for k,v in ex.items():
    print("==",k)
    for e in v[:25]: print("    ",e)
