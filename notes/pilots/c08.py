from ev import evals
import itertools, json
V=["null","true","false","0","-0","1","-1","0.5","9007199254740992","9007199254740993","1e308","5e-324","''","'a'","'b'","'ab'","'a\\u0000'","'é'","'\\uffff'","'\\U0001F600'".replace("\\U0001F600","😀"),
   "[]","[1]","[1,2]","[1,[2]]","[[1],2]","['a']","[1,error 'x']","[2,error 'y']","[null]","[0]","[-0]",
   "{}","{a:1}","{a:1,b::2}","{a:1}+{b::3}","{a::1}","{b:1}","{a:1,b:2}","{a:[1]}","{a:{b:1}}","{a:1,c:error 'z'}",
   "function(x) x","std.length"]
n=len(V)
ops=["==","!=","<","<=",">",">="]
srcs=[]
pairs=list(itertools.product(range(n),repeat=2))
for i,j in pairs:
    for op in ops: srcs.append("(%s) %s (%s)"%(V[i],op,V[j]))
    srcs.append("std.equals(%s,%s)"%(V[i],V[j]))
    srcs.append("std.__compare(%s,%s)"%(V[i],V[j]))
res=evals(srcs)
def val(r): return json.loads(r['ok']) if 'ok' in r else ('E',r.get('err') or r.get('panic') or r.get('load'))
R={}
k=0
for i,j in pairs:
    R[(i,j)]=[val(res[k+t]) for t in range(8)]; k+=8
man=evals(V)
bad=[]
for i,j in pairs:
    eq,ne,lt,le,gt,ge,seq,cmp=R[(i,j)]
    if isinstance(eq,bool):
        if ne!=(not eq): bad.append(("ne",V[i],V[j],eq,ne))
        if seq!=eq: bad.append(("equals",V[i],V[j],eq,seq))
        if R[(j,i)][0]!=eq: bad.append(("sym",V[i],V[j]))
        if 'ok' in man[i] and 'ok' in man[j]:
            a=json.loads(man[i]['ok']); b=json.loads(man[j]['ok'])
            if (a==b)!=eq: bad.append(("json",V[i],V[j],eq))
    else:
        if isinstance(ne,bool) or isinstance(seq,bool): bad.append(("eq-err-mismatch",V[i],V[j],eq,ne,seq))
    if i==j and eq is not True and isinstance(eq,bool): bad.append(("refl",V[i]))
    if all(isinstance(x,bool) for x in (lt,le,gt,ge)):
        if [lt, eq is True, gt].count(True)!=1: bad.append(("tricho",V[i],V[j],lt,eq,gt))
        if le!=(lt or eq) or ge!=(gt or eq): bad.append(("le/ge",V[i],V[j]))
        if cmp!=(-1 if lt else (1 if gt else 0)): bad.append(("cmp",V[i],V[j],cmp))
    elif any(isinstance(x,bool) for x in (lt,le,gt,ge)):
        bad.append(("partial-order-results",V[i],V[j],lt,le,gt,ge))
# transitivity of eq and lt
for i,j,k2 in itertools.product(range(n),repeat=3):
    if R[(i,j)][0] is True and R[(j,k2)][0] is True and R[(i,k2)][0] is not True: bad.append(("trans-eq",V[i],V[j],V[k2]))
    if R[(i,j)][2] is True and R[(j,k2)][2] is True and R[(i,k2)][2] is not True: bad.append(("trans-lt",V[i],V[j],V[k2],R[(i,k2)][2]))
print(len(bad))
for b in bad[:40]: print(b)
# which pairs are ordered
print(sum(1 for p in pairs if isinstance(R[p][2],bool)),"ordered pairs of",len(pairs))
