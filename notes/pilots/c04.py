import sys, json, re
sys.argv=["x","mixed","3"]
src=open("pilot_c02.py").read().split("t0=time.time()")[0]
exec(src)
from ev import evals
def children(e):
    """yield (path, child) for expression children that are plain expressions in same syntactic scope class"""
    k=e[0]
    if k in('local',):
        for i,(x,b) in enumerate(e[1]): yield (('local_b',i),b)
        yield (('local_body',),e[2])
    elif k=='func':
        yield (('func_body',),e[2])
        for i,(p,d) in enumerate(e[1]):
            if d is not None: yield (('func_def',i),d)
    elif k=='call':
        yield (('call_f',),e[1])
        for i,a in enumerate(e[2]): yield (('call_p',i),a)
        for i,(n,a) in enumerate(e[3]): yield (('call_n',i),a)
    elif k=='if':
        yield (('if',1),e[1]); yield (('if',2),e[2])
        if e[3] is not None: yield (('if',3),e[3])
    elif k=='bin': yield (('bin',2),e[2]); yield (('bin',3),e[3])
    elif k=='un': yield (('un',),e[2])
    elif k=='arr':
        for i,a in enumerate(e[1]): yield (('arr',i),a)
    elif k=='acomp':
        yield (('acomp_body',),e[1])
        for i,s in enumerate(e[2]): yield (('acomp_spec',i),s[2] if s[0]=='for' else s[1])
    elif k=='index': yield (('index',1),e[1]); yield (('index',2),e[2])
    elif k=='field': yield (('field',),e[1])
    elif k=='obj':
        for i,m in enumerate(e[1]):
            if m[0]=='field':
                yield (('obj_f',i),m[4])
                if m[1][0]=='dyn': yield (('obj_n',i),m[1][1])
            elif m[0]=='local': yield (('obj_l',i),m[2])
            elif m[0]=='assert': yield (('obj_a',i),m[1])
    elif k=='ocomp':
        yield (('ocomp_name',),e[1]); yield (('ocomp_body',),e[3]); yield (('ocomp_spec',0),e[4][0][2])
    elif k in('error','in_super','super_index'): yield ((k,),e[1])
    elif k=='std':
        for i,a in enumerate(e[2]): yield (('std',i),a)
def replace(e,path,new):
    k=e[0]; t=path[0]
    if t=='local_b': bs=list(e[1]); bs[path[1]]=(bs[path[1]][0],new); return ('local',bs,e[2])
    if t=='local_body': return ('local',e[1],new)
    if t=='func_body': return ('func',e[1],new)
    if t=='func_def': ps=list(e[1]); ps[path[1]]=(ps[path[1]][0],new); return ('func',ps,e[2])
    if t=='call_f': return ('call',new,e[2],e[3])
    if t=='call_p': a=list(e[2]); a[path[1]]=new; return ('call',e[1],a,e[3])
    if t=='call_n': a=list(e[3]); a[path[1]]=(a[path[1]][0],new); return ('call',e[1],e[2],a)
    if t=='if': l=list(e); l[path[1]]=new; return tuple(l)
    if t=='bin': l=list(e); l[path[1]]=new; return tuple(l)
    if t=='un': return ('un',e[1],new)
    if t=='arr': a=list(e[1]); a[path[1]]=new; return ('arr',a)
    if t=='acomp_body': return ('acomp',new,e[2])
    if t=='acomp_spec':
        s=list(e[2]); sp=s[path[1]]; s[path[1]]=('for',sp[1],new) if sp[0]=='for' else ('if',new); return ('acomp',e[1],s)
    if t=='index': l=list(e); l[path[1]]=new; return tuple(l)
    if t=='field': return ('field',new,e[2])
    if t=='obj_f': ms=list(e[1]); m=ms[path[1]]; ms[path[1]]=(m[0],m[1],m[2],m[3],new); return ('obj',ms)
    if t=='obj_n': ms=list(e[1]); m=ms[path[1]]; ms[path[1]]=(m[0],('dyn',new),m[2],m[3],m[4]); return ('obj',ms)
    if t=='obj_l': ms=list(e[1]); m=ms[path[1]]; ms[path[1]]=('local',m[1],new); return ('obj',ms)
    if t=='obj_a': ms=list(e[1]); m=ms[path[1]]; ms[path[1]]=('assert',new,m[2]); return ('obj',ms)
    if t=='ocomp_name': return ('ocomp',new,e[2],e[3],e[4])
    if t=='ocomp_body': return ('ocomp',e[1],e[2],new,e[4])
    if t=='ocomp_spec': return ('ocomp',e[1],e[2],e[3],[('for',e[4][0][1],new)])
    if t in('error','in_super','super_index'): return (k,new)
    if t=='std': a=list(e[2]); a[path[1]]=new; return ('std',e[1],a)
    raise Exception(path)
def sites(e, prefix=()):
    yield prefix, e
    for p,c in children(e):
        yield from sites(c, prefix+(p,))
def rebuild(e, fullpath, f):
    if not fullpath: return f(e)
    p=fullpath[0]
    child=dict(children(e))[p]
    return replace(e,p,rebuild(child,fullpath[1:],f))
def mentions_obj(e):
    if e[0] in('self','dollar','super_field','super_index','in_super'): return True
    return any(mentions_obj(c) for _,c in children(e))
Z='zz9'
rewrites={
 'local': lambda e: ('local',[(Z,e)],('var',Z)),
 'idfn': lambda e: ('call',('func',[(Z,None)],('var',Z)),[e],[]),
 'arr0': lambda e: ('index',('arr',[e]),('num',0)),
 'objf': lambda e: None if mentions_obj(e) else ('field',('obj',[('field',('fix','q'),':',False,e)]),'q'),
 'deadlocal': lambda e: ('local',[(Z,('error',('str','DEAD')))],e),
 'deadarg': lambda e: ('call',('func',[('w9',None),(Z,('error',('str','DEADARG')))],('var','w9')),[e],[]),
}
def norm(r):
    if 'ok' in r: return ('ok',r['ok'],tuple(r['trace']))
    if 'load' in r: return ('load',)
    if 'panic' in r: return ('panic',r['panic'][:50])
    k=r['err']; d=r['detail']
    msg=None
    if k in('ExplicitError','AssertFailed'):
        m=re.search(r'message: (Some\()?"((?:[^"\\]|\\.)*)"',d); msg=m.group(2) if m else None
    return ('err',k if k in('ExplicitError','AssertFailed') else 'fail',msg,tuple(r['trace']))
tot=0;bad=0
from collections import Counter
cnt=Counter()
for prof,n in (("mixed",3),("objects",3)):
    PROFILE=prof; gen.cache_clear()
    progs=[p for k in range(1,n+1) for p in gen(k,(),False)]
    base=[norm(r) for r in evals([pr(p) for p in progs],max_stack=60)]
    cases=[];meta=[]
    for p,b in zip(progs,base):
        for path,sub in sites(p):
            for name,f in rewrites.items():
                new=f(sub)
                if new is None: continue
                q=rebuild(p,path,lambda _e,new=new:new)
                cases.append(pr(q)); meta.append((p,b,name,path))
    res=evals(cases,max_stack=60)
    for (p,b,name,path),s,r in zip(meta,cases,res):
        tot+=1; a=norm(r)
        same = a==b
        if not same and a[0]=='err' and b[0]=='err' and a[1]==b[1]=='fail' and a[3]==b[3]: same=True
        cnt[(name,same)]+=1
        if not same:
            bad+=1
            if bad<=25: print("DIFF",name,pr(p),"=>",s,"\n    base",b,"\n    new ",a)
    print(prof,"programs",len(progs),"rewrites",len(cases))
print("total",tot,"differences",bad,cnt)
