from ev import evals
import itertools, json
from collections import Counter
toks=["assert","else","error","false","for","function","if","import","importstr","importbin","in","local","null","tailstrict","then","self","super","true","!","!=","$","%","&","&&","(",")","*","+","+:","+::","+:::",",","-",".","/",":","::",":::",";","<","<<","<=","=","==",">",">=",">>","[","]","^","{","|","||","}","~","x","1","'s'","|||\n a\n|||","<<=","x="]
print(len(toks))
cnt=Counter(); pan=Counter(); ex={}
total=0
for n in (1,2,3):
    docs=[" ".join(p) for p in itertools.product(toks,repeat=n)]
    for i in range(0,len(docs),40000):
        chunk=docs[i:i+40000]
        for d,r in zip(chunk,evals(chunk)):
            total+=1
            if 'panic' in r:
                k=r['panic'][:70]; pan[k]+=1; ex.setdefault(k,d)
            elif 'load' in r: cnt[r['load'].split('(')[0]+":"+r['load'].split('(')[1].split(' ')[0].split('{')[0]]+=1
            elif 'ok' in r: cnt['ok']+=1
            else: cnt['eval:'+r['err']]+=1
print(total)
for k,c in sorted(cnt.items(), key=lambda x:-x[1]): print("  ",k,c)
for k,c in pan.items(): print("PANIC",c,k,"e.g.",repr(ex[k]))
