from ev import evals
import itertools, json
from collections import Counter
toks=["- ",": ","? ","a","1","~","&x ","*x","!t ","[","]","{","}",",","|",">","\"","'","#","---","...","\n","  ","\t","<<: "]
cnt=Counter(); pan=Counter(); ex={}
total=0
docs=("".join(p) for p in itertools.product(toks,repeat=5) if p[0] in ("- ","a","&x ","[","{","? ","---","|") and p[1] in (": ","\n","a","&x ","*x","- ","[","{","  ","!t ",","))
buf=[]
def flush():
    global total
    res=evals(["std.parseYaml(%s)"%json.dumps(d) for d in buf])
    for d,r in zip(buf,res):
        total+=1
        if 'panic' in r:
            k=r['panic'][:70]; pan[k]+=1; ex.setdefault(k,d)
        elif 'ok' in r: cnt['ok']+=1
        else: cnt[r.get('err')]+=1
    buf.clear()
for d in docs:
    buf.append(d)
    if len(buf)>=50000: flush()
flush()
print(total,cnt)
for k,c in pan.items(): print("PANIC",c,k,"e.g.",repr(ex[k]))
