from ev import evals
import json, itertools
from collections import Counter
names=json.loads(evals(["std.objectFieldsAll(std)"])[0]['ok'])
ar=json.loads(evals(["[if std.isFunction(std[f]) then std.length(std[f]) else -1 for f in std.objectFieldsAll(std)]"])[0]['ok'])
funcs=[(n,a) for n,a in zip(names,ar) if a>=0]
print(len(names),"members",len(funcs),"functions", Counter(a for _,a in funcs))
hexs="'1234567890123456789012345678901é'"
pool=["null","true","0","-0","1","-1","0.5","1e308","5e-324","65536","70000","2147483648","9007199254740993","''","'a'","'é'","'😀'",hexs,"'%.70000f'","'%'","'0x1'","[]","[1]","['a']","[[1]]","[null]","[1e308,1e308]","{}","{a:1}","{a::1}","function(x) x","function(x,y) x","std.sum([1e308,1e308])"]
small=["null","true","0","-1","0.5","1e308","70000","''","'é'",hexs,"[]","[1]","['a']","{}","{a:1}","function(x) x","function(x,y) x"]
srcs=[];meta=[]
for n,a in funcs:
    if n in ("trace","native","extVar") : continue
    P = pool if a<=2 else small if a==3 else small[:9]
    # skip resource hogs: repeat/range/makeArray with huge counts handled by memory cap later
    for args in itertools.product(P,repeat=a):
        if n in ("repeat","range","makeArray") and any(x in ("2147483648","1e308","9007199254740993","70000","65536") for x in args): continue
        srcs.append("std.%s(%s)"%(n,",".join(args))); meta.append((n,args))
print(len(srcs))
res=[]
B=20000
for i in range(0,len(srcs),B):
    res+=evals(srcs[i:i+B])
pan=Counter(); ex={}
nonfin=Counter()
for (n,args),r in zip(meta,res):
    if 'panic' in r:
        key=(n,r['panic'][:60]); pan[key]+=1; ex.setdefault(key,(n,args))
    elif 'ok' in r and (r['ok'] in ('inf','-inf','NaN') ): nonfin[n]+=1
print("panics:")
for k,c in pan.items(): print("  ",k,c,"e.g.",ex[k])
print("nonfinite:",nonfin)
