from ev import evals
import itertools, json
from collections import Counter
alpha=["%","(",")","a","d","s",".","*","0","-","5","h","f"," ","#","+"]
fmts=["".join(p) for n in (1,2,3,4) for p in itertools.product(alpha,repeat=n) if "%" in p]
print(len(fmts))
# args: array [3, 4, 5] for array mode
srcs=["std.format(%s, [3,4,5])"%json.dumps(f) for f in fmts]
res=evals(srcs)
cnt=Counter(); ex={}
for f,r in zip(fmts,res):
    try: exp=("OK", f % (3,4,5))
    except Exception as e: exp=("ERR",type(e).__name__+":"+str(e)[:40])
    got=("OK",json.loads(r['ok'])) if 'ok' in r else (("PANIC",r['panic']) if 'panic' in r else ("ERR",))
    if got[0]=="PANIC": print("PANIC",f,got)
    if got[0]!=exp[0] or (got[0]=="OK" and got[1]!=exp[1]):
        key=(got[0],exp[0], exp[1].split(":")[0] if exp[0]=="ERR" else "")
        cnt[key]+=1; ex.setdefault(key,[]).append((f,got,exp))
print(cnt)
for k,v in ex.items():
    print("==",k)
    for e in v[:14]: print("    ",e)
