from ev import evals
import itertools, json
vis=[":","::",":::"]
bodies=["1","2","self.a","self.b","super.a","'a' in super","super['a']+1","$.b","self.a+1"]
pool=["{}"]
for f in ["a","b"]:
  for v in vis:
    for plus in ["","+"]:
      for b in bodies:
        if plus and b in ("'a' in super",): continue
        pool.append("{%s%s%s %s}"%(f,plus,v,b))
# two-field objects
for (v1,b1),(v2,b2) in itertools.product([(":", "1"),("::","self.b"),(":::","super.a")],[(":", "2"),("::","self.a"),(":", "super.b")]):
    pool.append("{a%s %s, b%s %s}"%(v1,b1,v2,b2))
pool += ["{local v=5, a: v}", "{assert self.a==1, b:1}", "{assert true, a: 3}", "{['a']: 7}", "{[k]: 1 for k in ['a','b']}", "{[k]+: [2] for k in ['a']}",
  "std.objectRemoveKey({a:1,b:self.a}, 'a')", "std.objectRemoveKey({a::1,b:2}, 'b')", "std.objectRemoveKey({a:1}+{a+:2,b:super.a}, 'a')", "std.objectRemoveKey({a:1,b:2}, 'zz')",
  "std.mergePatch({a:1,b:2},{a:null})","std.prune({a:null,b:[1]})","std.mapWithKey(function(k,v) v, {a:1,b::2})", "{a+: [1]}", "{a: [0]}", "{a+:: 1}", "{a+::: 1}"]
print("pool",len(pool))
def obs(e):
    return "local o=%s; [std.objectFields(o), std.objectFieldsAll(o), std.length(o), ['a' in o,'b' in o], [std.objectHas(o,'a'),std.objectHas(o,'b')], [std.objectHasAll(o,'a'),std.objectHasAll(o,'b')]]"%e
def man(e): return e
import random
random.seed(1)
sub=pool if len(pool)<=45 else random.sample(pool,45)
triples=list(itertools.product(sub,repeat=3))
print("triples",len(triples))
srcs=[]
for A,B,C in triples:
    l="((%s)+(%s))+(%s)"%(A,B,C); r="(%s)+((%s)+(%s))"%(A,B,C)
    srcs += [man(l),man(r),obs(l),obs(r)]
res=evals(srcs)
def key(r):
    if 'ok' in r: return ('ok',r['ok'])
    if 'err' in r: return ('err',r['err'], r['detail'] if r['err'] in('ExplicitError','AssertFailed') else '')
    return ('other',json.dumps(r))
bad=0
for i,(A,B,C) in enumerate(triples):
    ml,mr,ol,orr=[key(x) for x in res[4*i:4*i+4]]
    # spans differ in detail; strip spans
    import re
    strip=lambda k: tuple(re.sub(r'span: [A-Za-z]+ \{[^}]*\}','',str(x)) for x in k)
    if strip(ml)!=strip(mr) or strip(ol)!=strip(orr):
        bad+=1
        if bad<=10: print("ASSOC FAIL",A,"|",B,"|",C,"\n  ",ml,"\n  ",mr,"\n  ",ol,"\n  ",orr)
print("bad",bad,"of",len(triples))
# identity
srcs=[]
for A in pool:
    srcs += [man(A), man("{}+(%s)"%A), man("(%s)+{}"%A), obs(A), obs("{}+(%s)"%A), obs("(%s)+{}"%A)]
res=evals(srcs)
for i,A in enumerate(pool):
    k=[strip(key(x)) for x in res[6*i:6*i+6]]
    if not(k[0]==k[1]==k[2] and k[3]==k[4]==k[5]): print("IDENTITY FAIL",A,k)
# consistency of observation vector
for i,A in enumerate(pool):
    r=res[6*i+3]; m=res[6*i]
    if 'ok' in r:
        f,fa,ln,inn,has,hasall=json.loads(r['ok'])
        ok = ln==len(f) and inn==hasall and [x in f for x in 'ab']==has and [x in fa for x in 'ab']==hasall and set(f)<=set(fa)
        if 'ok' in m: ok = ok and sorted(json.loads(m['ok']).keys())==f
        if not ok: print("CONSIST FAIL",A,r,m)
print("done")
