import sys, json, subprocess
sys.argv=["x","mixed","4"]
src=open("pilot_c02.py").read().split("t0=time.time()")[0]
exec(src)
def evals_bin(srcs, gc):
    env={"PATH":"/usr/bin:/bin","MAX_STACK":"16"}
    if gc: env["GC_EVERY"]="1"
    inp="\n".join(json.dumps(s) for s in srcs)+"\n"
    p=subprocess.run(["/tmp/scratch/target/debug/probegc"],input=inp.encode(),capture_output=True,env=env)
    lines=p.stdout.decode().split("\n")[:-1]
    assert len(lines)==len(srcs),(len(lines),len(srcs),p.returncode,p.stderr[-300:])
    return lines
tot=0;diff=0
for prof,n in (("objects",4),("mixed",4)):
    PROFILE=prof; gen.cache_clear()
    for k in range(1,n+1):
        progs=gen(k,(),False)
        srcs=[pr(p) for p in progs]
        for i in range(0,len(srcs),20000):
            ch=srcs[i:i+20000]
            a=evals_bin(ch,False); b=evals_bin(ch,True)
            for s,x,y in zip(ch,a,b):
                tot+=1
                if x!=y:
                    diff+=1
                    if diff<10: print("DIFF",s,x[:150],y[:150])
    print(prof,"done",tot,diff)
print("total",tot,"differences",diff)
