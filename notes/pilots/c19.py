from ev import evals
import itertools, json
convs="diuoxXeEfFgGcs"
flags=["","#","0","-"," ","+","#0","0-","-+"," +","#0- +","0+","0 "]
widths=["","0","1","5","12"]
precs=["",".0",".1",".3",".10"]
vals=[("0",0),("1",1),("-1",-1),("255",255),("-255",-255),("0.5",0.5),("1.5",1.5),("2.5",2.5),("-0.5",-0.5),("0.125",0.125),("1e21",1e21),("123456789",123456789),("1e-5",1e-5),("123.456",123.456),("-0.0",-0.0),("9007199254740993",9007199254740993.0),("1e100",1e100),("5e-324",5e-324), ("0.000123456",0.000123456),("99999.95",99999.95),("999999.5",999999.5)]
cases=[]
for c in convs:
    for f in flags:
        for w in widths:
            for p in precs:
                for vs,v in vals:
                    if c in "cs": continue
                    cases.append((c,f,w,p,vs,v))
srcs=["'%%%s%s%s%s' %% [%s]"%(f,w,p,c,vs) for (c,f,w,p,vs,v) in cases]
res=evals(srcs)
from collections import Counter
bad=Counter(); ex={}
tot=0
for (c,f,w,p,vs,v),r in zip(cases,res):
    fmt="%"+f+w+p+c
    try:
        if c in "diuoxX": exp=fmt % int(v)
        else: exp=fmt % v
    except Exception as e:
        exp=("PYERR",str(e))
    got=json.loads(r['ok']) if 'ok' in r else ("ERR",r.get('err') or r.get('panic'))
    tot+=1
    if got!=exp:
        key=(c, 'g' if c in 'gG' else '', )
        bad[c]+=1
        ex.setdefault(c,[]).append((fmt,vs,exp,got))
print(tot,bad)
for c in ex:
    print("==",c,len(ex[c]))
    for e in ex[c][:12]: print("   ",e)
