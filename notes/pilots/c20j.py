from ev import evals
import itertools, json
toks=['{','}','[',']',',',':','"a"','"b"','"\\u00e9"','"\\n"','"\\/"','""','" "','"#"','": "','"- "','1','-1','0','1.5e1','-0','1E+2','0.5','1e-2','true','false','null',' ','\n','"a: b"','"[","]"','12','1e400']
docs=[]
for n in (1,2,3,4,5):
    for p in itertools.product(range(len(toks)),repeat=n):
        if n>=4 and (toks[p[0]] not in ('{','[',' ') ): continue
        if n==5 and toks[p[-1]] not in ('}',']',' ','\n'): continue
        d="".join(toks[i] for i in p)
        try: json.loads(d)
        except Exception: continue
        docs.append(d)
print(len(docs))
res=evals(["[std.parseJson(%s)]"%json.dumps(d) for d in docs])
res2=evals(["[std.parseYaml(%s)]"%json.dumps(d) for d in docs])
bad=0
from collections import Counter
c=Counter()
for d,a,b in zip(docs,res,res2):
    ka=a.get('ok') or ('ERR',a.get('err')); kb=b.get('ok') or ('ERR',b.get('err') or b.get('panic'))
    c[(type(ka)==str, type(kb)==str)]+=1
    if ka!=kb:
        if isinstance(ka,tuple): continue  # parseJson rejects (dups etc): no claim
        bad+=1
        if bad<=25: print("DISAGREE",repr(d),"json",ka,"yaml",kb, b.get('detail','')[:100])
print("disagreements",bad,c)
