use rsjsonnet_lang::arena::Arena;
use rsjsonnet_lang::ast::*;
use rsjsonnet_lang::interner::StrInterner;
use rsjsonnet_lang::lexer::Lexer;
use rsjsonnet_lang::parser::Parser;
use rsjsonnet_lang::span::SpanManager;
use std::io::BufRead;
fn sp(sm:&SpanManager, s: rsjsonnet_lang::span::SpanId)->String{ let (_,a,b)=sm.get_span(s); format!("{a}:{b}") }
fn dump(e:&Expr<'_,'_>, sm:&SpanManager, spans: bool)->String{
    let k=match e.kind{
        ExprKind::Null=>"null".into(), ExprKind::Bool(b)=>format!("{b}"), ExprKind::SelfObj=>"self".into(), ExprKind::Dollar=>"$".into(),
        ExprKind::String(s)=>format!("{s:?}"), ExprKind::TextBlock(s)=>format!("blk{s:?}"), ExprKind::Number(n)=>format!("{}e{}",n.digits,n.exp),
        ExprKind::Paren(i)=>format!("(paren {})",dump(i,sm,spans)),
        ExprKind::Object(_)=>"{obj}".into(), ExprKind::Array(items)=>format!("[{}]",items.iter().map(|i|dump(i,sm,spans)).collect::<Vec<_>>().join(" ")),
        ExprKind::ArrayComp(b,_)=>format!("(acomp {})",dump(b,sm,spans)),
        ExprKind::Field(o,f)=>format!("(. {} {})",dump(o,sm,spans),f.value.value()),
        ExprKind::Index(o,i)=>format!("(idx {} {})",dump(o,sm,spans),dump(i,sm,spans)),
        ExprKind::Slice(o,a,b,c)=>format!("(slice {} {} {} {})",dump(o,sm,spans),a.map(|x|dump(x,sm,spans)).unwrap_or("_".into()),b.map(|x|dump(x,sm,spans)).unwrap_or("_".into()),c.map(|x|dump(x,sm,spans)).unwrap_or("_".into())),
        ExprKind::SuperField(_,f)=>format!("(super. {})",f.value.value()), ExprKind::SuperIndex(_,i)=>format!("(super[] {})",dump(i,sm,spans)),
        ExprKind::Call(f,args,ts)=>format!("(call{} {} {})",if ts {"!"} else {""},dump(f,sm,spans),args.iter().map(|a| match a{Arg::Positional(e)=>dump(e,sm,spans),Arg::Named(n,e)=>format!("{}={}",n.value.value(),dump(e,sm,spans))}).collect::<Vec<_>>().join(" ")),
        ExprKind::Ident(i)=>i.value.value().to_string(),
        ExprKind::Local(_,b)=>format!("(local {})",dump(b,sm,spans)),
        ExprKind::If(c,t,e2)=>format!("(if {} {} {})",dump(c,sm,spans),dump(t,sm,spans),e2.map(|x|dump(x,sm,spans)).unwrap_or("_".into())),
        ExprKind::Binary(l,op,r)=>format!("({op:?} {} {})",dump(l,sm,spans),dump(r,sm,spans)),
        ExprKind::Unary(op,r)=>format!("({op:?} {})",dump(r,sm,spans)),
        ExprKind::ObjExt(l,_,_)=>format!("(ext {})",dump(l,sm,spans)),
        ExprKind::Func(_,b)=>format!("(fn {})",dump(b,sm,spans)),
        ExprKind::Assert(a,b)=>format!("(assert {} {})",dump(&a.cond,sm,spans),dump(b,sm,spans)),
        ExprKind::Import(p)=>format!("(import {})",dump(p,sm,spans)), ExprKind::ImportStr(p)=>format!("(importstr {})",dump(p,sm,spans)), ExprKind::ImportBin(p)=>format!("(importbin {})",dump(p,sm,spans)),
        ExprKind::Error(m)=>format!("(error {})",dump(m,sm,spans)),
        ExprKind::InSuper(l,_)=>format!("(insuper {})",dump(l,sm,spans)),
    };
    if spans { format!("{k}@{}",sp(sm,e.span)) } else { k }
}
fn main(){
    let spans=std::env::var("SPANS").is_ok();
    for line in std::io::stdin().lock().lines(){
        let line=line.unwrap(); if line.is_empty(){continue;}
        let src: String = serde_json::from_str(&line).unwrap();
        let arena=Arena::new(); let ast=Arena::new(); let si=StrInterner::new(); let mut sm=SpanManager::new();
        let (ctx,_)=sm.insert_source_context(src.len());
        let toks=match Lexer::new(&arena,&ast,&si,&mut sm,ctx,src.as_bytes()).lex_to_eof(false){Ok(t)=>t,Err(e)=>{println!("{}",serde_json::json!({"lexerr":format!("{e:?}")}));continue;}};
        match Parser::new(&arena,&ast,&si,&mut sm,toks).parse_root_expr(){
            Ok(e)=>println!("{}",serde_json::json!({"ok":dump(&e,&sm,spans)})),
            Err(e)=>{ let rsjsonnet_lang::parser::ParseError::Expected{span,instead,..}=&e; println!("{}",serde_json::json!({"err":format!("{instead:?}"),"span":sp(&sm,*span)})); }
        }
    }
}
