use rsjsonnet_lang::arena::Arena;
use rsjsonnet_lang::interner::InternedStr;
use rsjsonnet_lang::program::*;
use rsjsonnet_lang::span::SpanId;
struct Cb;
impl<'p> Callbacks<'p> for Cb {
    fn import(&mut self,_:&mut Program<'p>,_:SpanId,_:&str)->Result<Thunk<'p>,ImportError>{Err(ImportError)}
    fn import_str(&mut self,_:&mut Program<'p>,_:SpanId,_:&str)->Result<String,ImportError>{Err(ImportError)}
    fn import_bin(&mut self,_:&mut Program<'p>,_:SpanId,_:&str)->Result<Vec<u8>,ImportError>{Err(ImportError)}
    fn trace(&mut self,_:&mut Program<'p>,_:&str,_:&[EvalStackTraceItem]){}
    fn native_call(&mut self,_:&mut Program<'p>,_:InternedStr<'p>,_:&[Value<'p>])->Result<Value<'p>,NativeError>{Err(NativeError)}
}
fn load<'p>(p:&mut Program<'p>, src:&str)->Thunk<'p>{ let (ctx,_)=p.span_manager_mut().insert_source_context(src.len()); p.load_source(ctx,src.as_bytes(),true,"t").unwrap() }
fn ev<'p>(p:&mut Program<'p>, src:&str)->String{ let t=load(p,src); match p.eval_value(&t,&mut Cb){Ok(v)=>p.manifest_json(&v,false).unwrap_or_else(|e|format!("MERR {:?}",e.kind)),Err(e)=>format!("ERR {:?}",e.kind).chars().take(90).collect()} }
fn main(){
    let arena=Arena::new();
    let mut p=Program::new(&arena);
    let o=load(&mut p,"{assert self.a > 0 : 'neg', a: -1, b: 2}");
    let name=p.intern_str("o"); p.add_ext_var(name,&o);
    let lib=load(&mut p,"{ v: std.foldl(function(a,i) a+i, std.range(1,5), 0), deep(n): if n==0 then self.v else self.deep(n-1) }");
    let name=p.intern_str("lib"); p.add_ext_var(name,&lib);
    for (i,src) in ["std.extVar('o').b","std.extVar('o').b","std.extVar('o')","std.extVar('o').a"].iter().enumerate(){ println!("req{} {} => {}",i,src,ev(&mut p,src)); }
    p.set_max_stack(20);
    println!("deep overflow => {}", ev(&mut p,"std.extVar('lib').deep(30)"));
    p.set_max_stack(500);
    println!("after => {}", ev(&mut p,"std.extVar('lib').v"));
    println!("after deep(3) => {}", ev(&mut p,"std.extVar('lib').deep(3)"));
    // fresh
    let arena2=Arena::new(); let mut q=Program::new(&arena2);
    let lib=load(&mut q,"{ v: std.foldl(function(a,i) a+i, std.range(1,5), 0), deep(n): if n==0 then self.v else self.deep(n-1) }");
    let name=q.intern_str("lib"); q.add_ext_var(name,&lib);
    println!("fresh v => {}", ev(&mut q,"std.extVar('lib').v"));
    // same thunk twice after failure
    let t=load(&mut q,"error 'boom'");
    let r1=q.eval_value(&t,&mut Cb).err().map(|e| format!("{:?}",e.kind)); let r2=q.eval_value(&t,&mut Cb).err().map(|e| format!("{:?}",e.kind));
    println!("twice: {:?} | {:?}", r1, r2);
    let t=load(&mut q,"local a = [1, error 'x']; std.length(a) + a[1]");
    let r1=q.eval_value(&t,&mut Cb).err().map(|e| format!("{:?}",e.kind)); q.gc(); let r2=q.eval_value(&t,&mut Cb).err().map(|e| format!("{:?}",e.kind));
    println!("twice2: {:?} | {:?}", r1, r2);
    let t=load(&mut q,"local x = x; x");
    let r1=q.eval_value(&t,&mut Cb).err().map(|e| format!("{:?}",e.kind)); let r2=q.eval_value(&t,&mut Cb).err().map(|e| format!("{:?}",e.kind));
    println!("selfdep: {:?} | {:?}", r1, r2);
    // manifest twice, gc between
    let v=load(&mut q,"{a:[1,2,{b:3}]}"); let val=q.eval_value(&v,&mut Cb).unwrap(); q.gc(); println!("{}",q.manifest_json(&val,false).unwrap()); q.gc(); println!("{}",q.manifest_json(&val,false).unwrap());
    let val2=q.eval_value(&v,&mut Cb).unwrap(); println!("{}",q.manifest_json(&val2,false).unwrap());
}
