// scratch probe: reads JSON-encoded jsonnet sources (one per line) on stdin,
// prints one JSON result per line.
use rsjsonnet_lang::arena::Arena;
use rsjsonnet_lang::interner::InternedStr;
use rsjsonnet_lang::program::*;
use rsjsonnet_lang::span::SpanId;
use std::io::{BufRead, Write};
struct Cb(Vec<String>);
impl<'p> Callbacks<'p> for Cb {
    fn import(&mut self,_:&mut Program<'p>,_:SpanId,_:&str)->Result<Thunk<'p>,ImportError>{Err(ImportError)}
    fn import_str(&mut self,_:&mut Program<'p>,_:SpanId,_:&str)->Result<String,ImportError>{Err(ImportError)}
    fn import_bin(&mut self,_:&mut Program<'p>,_:SpanId,_:&str)->Result<Vec<u8>,ImportError>{Err(ImportError)}
    fn trace(&mut self,_:&mut Program<'p>,m:&str,_:&[EvalStackTraceItem]){self.0.push(m.into());}
    fn native_call(&mut self,_:&mut Program<'p>,_:InternedStr<'p>,_:&[Value<'p>])->Result<Value<'p>,NativeError>{Err(NativeError)}
}
fn kind_name(k:&EvalErrorKind)->String{ let s=format!("{k:?}"); s.split(|c:char| !c.is_alphanumeric()).next().unwrap().to_string() }
fn run(src:&[u8], max_stack: Option<usize>)->serde_json::Value{
    let arena=Arena::new();
    let mut p=Program::new(&arena);
    if let Some(s)=max_stack { p.set_max_stack(s); }
    let (ctx,_)=p.span_manager_mut().insert_source_context(src.len());
    let t=match p.load_source(ctx,src,true,"t.jsonnet"){Ok(t)=>t,Err(e)=>{
        let s=format!("{e:?}"); return serde_json::json!({"load": s});}};
    let mut cb=Cb(vec![]);
    match p.eval_value(&t,&mut cb){
        Ok(v)=>match p.manifest_json(&v,false){
            Ok(s)=>serde_json::json!({"ok": s, "trace": cb.0}),
            Err(e)=>serde_json::json!({"err": kind_name(&e.kind), "detail": format!("{:?}",e.kind), "trace": cb.0})},
        Err(e)=>serde_json::json!({"err": kind_name(&e.kind), "detail": format!("{:?}",e.kind), "trace": cb.0, "tlen": e.stack_trace.len()})}
}
fn main(){
    std::panic::set_hook(Box::new(|_|{}));
    let max_stack = std::env::var("MAX_STACK").ok().and_then(|s| s.parse().ok());
    let stdin=std::io::stdin(); let out=std::io::stdout(); let mut out=std::io::BufWriter::new(out.lock());
    for line in stdin.lock().lines(){
        let line=line.unwrap(); if line.is_empty(){continue;}
        let v: serde_json::Value = serde_json::from_str(&line).unwrap();
        let src: Vec<u8> = match &v { serde_json::Value::String(s)=>s.clone().into_bytes(), serde_json::Value::Array(a)=>a.iter().map(|x| x.as_u64().unwrap() as u8).collect(), _=>panic!() };
        let r=std::panic::catch_unwind(||run(&src, max_stack));
        let r=match r{Ok(r)=>r,Err(e)=>{ let m = e.downcast_ref::<String>().cloned().or_else(|| e.downcast_ref::<&str>().map(|s| s.to_string())).unwrap_or_default(); serde_json::json!({"panic": m})}};
        writeln!(out,"{}",r).unwrap();
    }
}
