use rsjsonnet_lang::arena::Arena;
use rsjsonnet_lang::interner::StrInterner;
use rsjsonnet_lang::lexer::Lexer;
use rsjsonnet_lang::span::SpanManager;
use rsjsonnet_lang::token::TokenKind;
use std::io::BufRead;
fn main(){
    for line in std::io::stdin().lock().lines(){
        let line=line.unwrap(); if line.is_empty(){continue;}
        let v: serde_json::Value = serde_json::from_str(&line).unwrap();
        let src: Vec<u8> = match &v { serde_json::Value::String(s)=>s.clone().into_bytes(), serde_json::Value::Array(a)=>a.iter().map(|x| x.as_u64().unwrap() as u8).collect(), _=>panic!() };
        let arena=Arena::new(); let ast=Arena::new(); let si=StrInterner::new(); let mut sm=SpanManager::new();
        let (ctx,_)=sm.insert_source_context(src.len());
        let lx=Lexer::new(&arena,&ast,&si,&mut sm,ctx,&src);
        match lx.lex_to_eof(true){
            Ok(toks)=>{
                let mut out=vec![];
                for t in toks.iter(){ let (_,s,e)=sm.get_span(t.span); let k=match t.kind{TokenKind::Simple(k)=>format!("{k:?}"),TokenKind::OtherOp(o)=>format!("Op({o})"),TokenKind::Ident(i)=>format!("Id({})",i.value()),TokenKind::Number(n)=>format!("Num({}e{})",n.digits,n.exp),TokenKind::String(s)=>format!("Str({s:?})"),TokenKind::TextBlock(s)=>format!("Blk({s:?})"),TokenKind::Whitespace=>"WS".into(),TokenKind::Comment=>"C".into(),TokenKind::EndOfFile=>"EOF".into()}; out.push(format!("{k}@{s}..{e}")); }
                println!("{}", serde_json::json!({"ok": out}));
            }
            Err(e)=>{ println!("{}", serde_json::json!({"err": format!("{e:?}")})); }
        }
    }
}
