use rsjsonnet_lang::verif::gc::Heap;
// external state per node: 0 none, 1 one weak, 2 two weak, 3 view, 4 view+weak
fn build(n: usize, ext: &[u8], mult: &[u8]) -> Heap {
    let mut h = Heap::new();
    // allocate all with a weak handle first (so edges can be added), views where needed
    for i in 0..n {
        if ext[i] >= 3 { h.alloc_view(); } else { h.alloc(); }
    }
    for i in 0..n { for j in 0..n { for _ in 0..mult[i*n+j] { assert!(h.add_edge(i,j)); } } }
    for i in 0..n {
        match ext[i] {
            0 => { assert!(h.drop_handle(i)); }
            1 => {}
            2 => { assert!(h.clone_handle(i)); }
            3 => {}
            4 => { assert!(h.clone_handle(i)); }
            _ => unreachable!(),
        }
    }
    h
}
fn reach(n: usize, ext: &[u8], mult: &[u8]) -> Vec<bool> {
    let mut live = vec![false; n];
    let mut stack: Vec<usize> = (0..n).filter(|&i| ext[i] != 0).collect();
    for &r in &stack { live[r] = true; }
    while let Some(i) = stack.pop() { for j in 0..n { if mult[i*n+j] > 0 && !live[j] { live[j] = true; stack.push(j); } } }
    live
}
fn main() {
    let maxm: u8 = std::env::args().nth(2).map(|s| s.parse().unwrap()).unwrap_or(2);
    let nmax: usize = std::env::args().nth(1).map(|s| s.parse().unwrap()).unwrap_or(3);
    let mut shapes = 0u64; let mut bad = 0u64; let mut with_garbage_cycle = 0u64;
    for n in 0..=nmax {
        let ne = n*n;
        let mut ext = vec![0u8; n];
        loop {
            let mut mult = vec![0u8; ne];
            loop {
                shapes += 1;
                let expect = reach(n, &ext, &mult);
                let mut h = build(n, &ext, &mult);
                h.gc();
                let live: Vec<bool> = (0..n).map(|i| h.is_live(i)).collect();
                let nlive = expect.iter().filter(|&&b| b).count();
                let flags_ok = h.box_flags().iter().all(|&(v,m)| v==0 && !m);
                if expect.iter().any(|&b| !b) { with_garbage_cycle += 1; }
                let mut ok = live == expect && h.num_objects() == nlive && flags_ok;
                if ok {
                    // second gc idempotent; edges intact
                    h.gc();
                    let live2: Vec<bool> = (0..n).map(|i| h.is_live(i)).collect();
                    ok = live2 == expect && h.num_objects() == nlive;
                    for i in 0..n { if ext[i] != 0 { let e = h.edges_of(i).unwrap(); let want: usize = (0..n).map(|j| mult[i*n+j] as usize).sum(); if e.len() != want { ok = false; } } }
                }
                if !ok { bad += 1; if bad < 10 { println!("BAD n={n} ext={ext:?} mult={mult:?} live={live:?} expect={expect:?} flags={:?}", h.box_flags()); } }
                // next mult
                let mut k = 0; loop { if k == ne { break; } if mult[k] < maxm { mult[k] += 1; break; } mult[k] = 0; k += 1; }
                if k == ne { break; }
            }
            let mut k = 0; loop { if k == n { break; } if ext[k] < 4 { ext[k] += 1; break; } ext[k] = 0; k += 1; }
            if k == n { break; }
        }
    }
    println!("shapes {shapes} with-garbage {with_garbage_cycle} bad {bad}");
}
