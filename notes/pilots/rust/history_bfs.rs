use rsjsonnet_lang::arena::Arena;
use rsjsonnet_lang::interner::InternedStr;
use rsjsonnet_lang::program::*;
use rsjsonnet_lang::span::SpanId;
struct Cb;
impl<'p> Callbacks<'p> for Cb {
    fn import(&mut self,_:&mut Program<'p>,_:SpanId,_:&str)->Result<Thunk<'p>,ImportError>{Err(ImportError)}
    fn import_str(&mut self,_:&mut Program<'p>,_:SpanId,_:&str)->Result<String,ImportError>{Err(ImportError)}
    fn import_bin(&mut self,_:&mut Program<'p>,_:SpanId,_:&str)->Result<Vec<u8>,ImportError>{Err(ImportError)}
    fn trace(&mut self,_:&mut Program<'p>,_:&str,_:&[EvalStackTraceItem]){}
    fn native_call(&mut self,_:&mut Program<'p>,_:InternedStr<'p>,_:&[Value<'p>])->Result<Value<'p>,NativeError>{Err(NativeError)}
}
fn load<'p>(p:&mut Program<'p>, src:&str)->Thunk<'p>{ let (ctx,_)=p.span_manager_mut().insert_source_context(src.len()); p.load_source(ctx,src.as_bytes(),true,"t").unwrap() }
fn kind(e:&EvalError)->String{ let s=format!("{:?}",e.kind); let k=s.split(|c:char| !c.is_alphanumeric()).next().unwrap().to_string(); match &e.kind { EvalErrorKind::ExplicitError{message,..}=>format!("{k}:{message}"), EvalErrorKind::AssertFailed{message,..}=>format!("{k}:{message:?}"), _=>k } }
fn ev<'p>(p:&mut Program<'p>, src:&str)->String{ let t=load(p,src); match p.eval_value(&t,&mut Cb){Ok(v)=>p.manifest_json(&v,false).unwrap_or_else(|e|format!("MERR {}",kind(&e))),Err(e)=>format!("ERR {}",kind(&e))} }
fn setup<'p>(p:&mut Program<'p>){
    for (n,src) in [("o","{assert self.a > 0 : 'neg', a: -1, b: 2}"),("p","{assert self.a > 0, a: 1, b: std.foldl(function(x,y) x+y, [1,2,3], 0), c: error 'c-bad', d: self.c}"),("lib","{ v: std.foldl(function(a,i) a+i, std.range(1,5), 0), deep(n): if n==0 then self.v else 1 + self.deep(n-1), arr: [self.v, error 'el', 3] }"),("f","function(x, y=std.extVar('lib').v) x + y")] {
        let t=load(p,src); let name=p.intern_str(n); p.add_ext_var(name,&t);
    }
}
const REQS:&[&str]=&["std.extVar('o').b","std.extVar('p').b","std.extVar('p').d","@deep","std.extVar('lib').v","std.extVar('lib').deep(3)","@gc","std.extVar('f')(2)","[std.extVar('p').b, std.extVar('nope')]","std.extVar('lib').arr[2] + std.length(std.extVar('lib').arr)","std.extVar('lib').arr","std.extVar('p')", "std.extVar('o').neverInterned_q"];
fn do_req<'p>(p:&mut Program<'p>, r:&str)->String{
    match r { "@gc"=>{p.gc(); "gc".into()} "@deep"=>{p.set_max_stack(20); let x=ev(p,"std.extVar('lib').deep(30)"); p.set_max_stack(500); x} _=>ev(p,r) }
}
fn main(){
    let depth:usize=std::env::args().nth(1).map(|s|s.parse().unwrap()).unwrap_or(3);
    let base:Vec<String>=REQS.iter().map(|r|{ let a=Arena::new(); let mut p=Program::new(&a); setup(&mut p); do_req(&mut p,r)}).collect();
    for (r,b) in REQS.iter().zip(&base){ println!("fresh {r} => {b}"); }
    let n=REQS.len(); let mut idx=vec![0usize;depth]; let mut hist=0u64; let mut bad=0u64; let mut sig=std::collections::BTreeMap::new();
    'outer: loop {
        let a=Arena::new(); let mut p=Program::new(&a); setup(&mut p);
        hist+=1;
        for (pos,&i) in idx.iter().enumerate(){ let out=do_req(&mut p,REQS[i]); if out!=base[i]{ bad+=1; let e=sig.entry((REQS[i],out.clone())).or_insert((0u64,idx[..=pos].to_vec())); e.0+=1; break; } }
        let mut k=0; loop{ if k==depth {break 'outer;} idx[k]+=1; if idx[k]<n {break;} idx[k]=0; k+=1; }
    }
    println!("histories {hist} order-dependent {bad}");
    for ((r,o),(c,h)) in sig { println!("  {c:6} x  {r} gave {o} after {:?}", h.iter().map(|&i|REQS[i]).collect::<Vec<_>>()); }
}
