use rsjsonnet_lang::span::SpanManager;
fn main(){
    let lens: Vec<usize>=vec![0,1,2,(1<<25)-1,1<<25,(1<<25)+1,(1<<38)-3,(1<<38)-2,(1<<38)-1,1<<38,(1<<38)+1,1<<40];
    let mut checked=0u64; let mut bad=0u64;
    for &a in &lens { for &b in &lens { for &c in &lens {
        let mut m=SpanManager::new();
        let ctxs=[m.insert_source_context(a).0,m.insert_source_context(b).0,m.insert_source_context(c).0];
        let ls=[a,b,c];
        let mut regs=vec![];
        for (ci,&ctx) in ctxs.iter().enumerate(){
            let l=ls[ci];
            let mut pts=vec![0usize,1,2,(1<<25)-2,(1<<25)-1,1<<25,(1<<25)+1];
            for d in 0..3 { if l>=d { pts.push(l-d); } }
            pts.retain(|&p| p<=l); pts.sort(); pts.dedup();
            for &s in &pts { for &e in &pts { if s<=e {
                let id=m.intern_span(ctx,s,e);
                regs.push((id,ctx,s,e));
            }}}
        }
        for (id,ctx,s,e) in regs.iter(){
            checked+=1;
            let got=m.get_span(*id);
            if got!=(*ctx,*s,*e){ bad+=1; if bad<10 { println!("BAD lens={ls:?} want=({ctx:?},{s},{e}) got={got:?}"); } }
            let id2=m.intern_span(*ctx,*s,*e);
            if id2!=*id { bad+=1; if bad<10 { println!("UNSTABLE id {ls:?} {s} {e}"); } }
        }
    }}}
    println!("checked {checked} bad {bad}");
}
