use rsjsonnet_lang::arena::Arena;
use rsjsonnet_lang::interner::InternedStr;
use rsjsonnet_lang::program::*;
use rsjsonnet_lang::span::SpanId;
struct Cb;
impl<'p> Callbacks<'p> for Cb {
    fn import(&mut self,_:&mut Program<'p>,_:SpanId,_:&str)->Result<Thunk<'p>,ImportError>{Err(ImportError)}
    fn import_str(&mut self,_:&mut Program<'p>,_:SpanId,_:&str)->Result<String,ImportError>{Err(ImportError)}
    fn import_bin(&mut self,_:&mut Program<'p>,_:SpanId,_:&str)->Result<Vec<u8>,ImportError>{Err(ImportError)}
    fn trace(&mut self,_:&mut Program<'p>,_:&str,_:&[EvalStackTraceItem]){}
    fn native_call(&mut self,_:&mut Program<'p>,_:InternedStr<'p>,_:&[Value<'p>])->Result<Value<'p>,NativeError>{Err(NativeError)}
}
fn main(){
    let progs=["1","[1,2,[3]]","{a:1,b:self.a}","local o={a:1,b:self}; o.b.b.a","local f(x)=if x==0 then 0 else f(x-1); f(10)","{a:{b:$}}.a.b.a.b == null || true",
      "local a=[b[0]], b=[a[0]]; 1","local o = {x: self, y: [self.x], f(z): self}; o.f(1).y[0].x.f(2) == null || true","{[k]: self for k in ['a','b']}.a.b == 1 || true",
      "std.map(function(x) x, [1,2])","error 'boom'","{a: error 'x', b: self.a}","local x = x; x","[x for x in [1,2] if x > 1]","std.sort([3,1,2])","{a:1} + {a+: 2, b: super.a}","std.foldl(function(a,i) [a], std.range(1,50), 0)",
      "local f = function(a, b=a) [a,b]; f(1)", "std.objectRemoveKey({a:1,b:self.a},'a')", "std.mergePatch({a:{b:1}},{a:{c:2}})", "std.makeArray(3, function(i) {i: i, s: self})[1].s.i", "'%s' % [[1,{a:2}]]", "std.manifestYamlDoc({a:[1,{b:2}]})", "std.prune({a:null,b:[{}]})", "std.set([3,1,3])", "{assert self.a == 1, a: 1}", "{assert self.a == 2, a: 1}"];
    let arena=Arena::new();
    let mut p=Program::new(&arena);
    p.gc();
    let base=p.verif_num_objects();
    println!("baseline {base}");
    for src in progs {
        let (ctx,_)=p.span_manager_mut().insert_source_context(src.len());
        let before={p.gc(); p.verif_num_objects()};
        {
            let t=p.load_source(ctx,src.as_bytes(),true,"t").unwrap();
            let mut cb=Cb;
            let r=p.eval_value(&t,&mut cb);
            let peak=p.verif_num_objects();
            if let Ok(v)=&r { let _=p.manifest_json(v,true); }
            drop(r); drop(t);
            p.gc();
            let after=p.verif_num_objects();
            println!("{:3} -> peak {:5} -> after one gc {:3} {}   {}", before, peak, after, if after==base {"OK"} else {"LEAK?"}, src);
        }
    }
}
