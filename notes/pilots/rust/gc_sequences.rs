use rsjsonnet_lang::verif::gc::Heap;
#[derive(Clone, Copy, Debug, PartialEq)]
enum Op { A, V, E(usize,usize), D(usize), C(usize), H(usize), W(usize), X(usize), G }
#[derive(Clone, Default)]
struct Model { edges: Vec<Vec<usize>>, weak: Vec<usize>, views: Vec<usize>, live: Vec<bool> }
impl Model {
    fn ext(&self,i:usize)->bool{ self.live[i] && (self.weak[i]>0 || self.views[i]>0) }
    fn apply(&mut self, op: Op) -> bool { // returns whether op is enabled (and applies)
        let n=self.live.len();
        match op {
            Op::A => { if n>=3 {return false;} self.edges.push(vec![]); self.weak.push(1); self.views.push(0); self.live.push(true); true }
            Op::V => { if n>=3 {return false;} self.edges.push(vec![]); self.weak.push(0); self.views.push(1); self.live.push(true); true }
            Op::E(i,j) => { if i>=n||j>=n||!self.ext(i)||!self.ext(j)||self.edges[i].len()>=3 {return false;} self.edges[i].push(j); true }
            Op::D(i) => { if i>=n||!self.ext(i)||self.edges[i].is_empty() {return false;} self.edges[i].remove(0); true }
            Op::C(i) => { if i>=n||!self.ext(i)||self.weak[i]>=2 {return false;} self.weak[i]+=1; true }
            Op::H(i) => { if i>=n||!self.live[i]||self.weak[i]==0 {return false;} self.weak[i]-=1; true }
            Op::W(i) => { if i>=n||!self.live[i]||self.weak[i]==0||self.views[i]>=1 {return false;} self.views[i]+=1; true }
            Op::X(i) => { if i>=n||!self.live[i]||self.views[i]==0 {return false;} self.views[i]-=1; true }
            Op::G => { // reachability
                let mut mark=vec![false;n]; let mut st:Vec<usize>=(0..n).filter(|&i| self.ext(i)).collect(); for &r in &st {mark[r]=true;}
                while let Some(i)=st.pop(){ for &j in &self.edges[i]{ if self.live[j] && !mark[j]{mark[j]=true;st.push(j);} } }
                for i in 0..n { if self.live[i] && !mark[i] { self.live[i]=false; } }
                true }
        }
    }
}
fn exec(h:&mut Heap, op:Op){ match op { Op::A=>{h.alloc();} Op::V=>{h.alloc_view();} Op::E(i,j)=>{assert!(h.add_edge(i,j));} Op::D(i)=>{assert!(h.del_edge(i,0));} Op::C(i)=>{assert!(h.clone_handle(i));} Op::H(i)=>{assert!(h.drop_handle(i));} Op::W(i)=>{assert!(h.view_from_handle(i));} Op::X(i)=>{assert!(h.drop_view(i));} Op::G=>h.gc() } }
fn all_ops()->Vec<Op>{ let mut v=vec![Op::A,Op::V,Op::G]; for i in 0..3 { v.push(Op::D(i)); v.push(Op::C(i)); v.push(Op::H(i)); v.push(Op::W(i)); v.push(Op::X(i)); for j in 0..3 { v.push(Op::E(i,j)); } } v }
fn main(){
    let depth: usize = std::env::args().nth(1).map(|s| s.parse().unwrap()).unwrap_or(5);
    let ops=all_ops();
    let mut seqs=0u64; let mut trans=0u64; let mut bad=0u64; let mut gcs_with_garbage=0u64;
    // iterative DFS over sequences; replay prefix each time
    let mut stack: Vec<(Vec<Op>, Model)> = vec![(vec![], Model::default())];
    while let Some((hist, model)) = stack.pop() {
        if hist.len()==depth { continue; }
        for &op in &ops {
            let mut m2=model.clone();
            if !m2.apply(op) { continue; }
            // a run only ends usefully in G; always allow
            let mut h=Heap::new();
            for &o in &hist { exec(&mut h,o); }
            exec(&mut h,op);
            trans+=1;
            if op==Op::G {
                let n=m2.live.len();
                // unreachable-but-not-yet-collected nodes are 'live' in impl until gc; compare only after G
                let live:Vec<bool>=(0..n).map(|i|h.is_live(i)).collect();
                if m2.live!=live || h.num_objects()!=live.iter().filter(|&&b|b).count() || !h.box_flags().iter().all(|&(v,mk)| v==0&&!mk) {
                    bad+=1; if bad<10 { println!("BAD hist={hist:?} op={op:?} model={:?} impl={live:?}", m2.live); }
                }
                if model.live!=m2.live { gcs_with_garbage+=1; }
            }
            let mut h2=hist.clone(); h2.push(op);
            seqs+=1;
            stack.push((h2,m2));
        }
    }
    println!("depth {depth}: sequences {seqs} transitions {trans} gcs-that-freed {gcs_with_garbage} bad {bad}");
}
