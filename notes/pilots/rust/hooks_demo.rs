use rsjsonnet_lang::program::VerifGcSchedule;
fn main(){
    let arena=rsjsonnet_lang::arena::Arena::new();
    let mut s=rsjsonnet_front::Session::new(&arena);
    s.set_max_trace(1);
    for colored in [false,true] {
        s.set_colored_output(colored);
        rsjsonnet_front::verif::start_capture();
        let t=s.load_virt_file("<x>", b"local f(n) = if n == 0 then error 'b\xc3\xa9' else f(n-1);\r\n\tf(3)".to_vec()).unwrap();
        let r=s.eval_value(&t);
        let parts=rsjsonnet_front::verif::take_capture();
        let text: String=parts.iter().map(|p| p.0.as_str()).collect();
        println!("colored={colored} ok={} parts={} ---\n{text}---", r.is_some(), parts.len());
    }
    let src=b"local o={a:1,b:self}; std.length(std.foldl(function(a,i) a+[o.b.b.a+i], std.range(1,5), []))";
    let mut outs=vec![];
    for sched in [VerifGcSchedule::Never, VerifGcSchedule::Default, VerifGcSchedule::Every(1), VerifGcSchedule::AtSteps(vec![3,17])] {
        let t=s.load_virt_file("<y>", src.to_vec()).unwrap();
        s.program_mut().verif_set_gc_schedule(sched.clone());
        let v=s.eval_value(&t).unwrap();
        outs.push((format!("{sched:?}"), v.as_number(), s.program().verif_steps(), s.program().verif_gc_runs(), s.program().verif_num_objects()));
    }
    for o in outs { println!("{o:?}"); }
}
