import subprocess, json
def evals(srcs, max_stack=None):
    env={"PATH":"/usr/bin:/bin"}
    if max_stack is not None: env["MAX_STACK"]=str(max_stack)
    inp="\n".join(json.dumps(s if isinstance(s,str) else list(s)) for s in srcs)+"\n"
    p=subprocess.run(["/tmp/scratch/target/debug/probe"],input=inp.encode(),capture_output=True,env=env)
    lines=p.stdout.decode().split("\n")[:-1]
    if len(lines)!=len(srcs): raise RuntimeError(f"probe died after {len(lines)} of {len(srcs)}: {srcs[len(lines)]!r} rc={p.returncode} {p.stderr[-300:]}")
    return [json.loads(l) for l in lines]
