import subprocess, json, itertools
def parse(srcs, spans=False):
    import os
    env=dict(os.environ); 
    if spans: env["SPANS"]="1"
    inp="\n".join(json.dumps(s) for s in srcs)+"\n"
    p=subprocess.run(["/tmp/scratch/target/debug/parse"],input=inp.encode(),capture_output=True,env=env)
    return [json.loads(l) for l in p.stdout.decode().split("\n")[:-1]]
ops={"*":("Mul",10),"/":("Div",10),"%":("Rem",10),"+":("Add",9),"-":("Sub",9),"<<":("Shl",8),">>":("Shr",8),"<":("Lt",7),">":("Gt",7),"<=":("Le",7),">=":("Ge",7),"in":("In",7),"==":("Eq",6),"!=":("Ne",6),"&":("BitwiseAnd",5),"^":("BitwiseXor",4),"|":("BitwiseOr",3),"&&":("LogicAnd",2),"||":("LogicOr",1)}
un={"-":"Minus","+":"Plus","!":"LogicNot","~":"BitwiseNot"}
def ref(operands, opseq):
    # precedence climbing reference, left assoc
    pos=[0]
    def atom(): 
        a=operands[pos[0]]; return a
    def climb(minp):
        lhs=operands[pos[0]]
        while pos[0]<len(opseq) and ops[opseq[pos[0]]][1]>=minp:
            op=opseq[pos[0]]; p=ops[op][1]; pos[0]+=1
            rhs=climb(p+1)
            lhs="(%s %s %s)"%(ops[op][0],lhs,rhs)
        return lhs
    return climb(0)
names=list(ops)
cases=[];srcs=[]
for n in (1,2,3):
    for seq in itertools.product(names,repeat=n):
        operands=["a","b","c","d"][:n+1]
        src=" ".join(x for pair in zip(operands,list(seq)+[""]) for x in pair).strip()
        cases.append((operands,seq)); srcs.append(src)
res=parse(srcs)
bad=0
for (operands,seq),s,r in zip(cases,srcs,res):
    e=ref(operands,list(seq))
    if r.get('ok')!=e:
        bad+=1
        if bad<6: print("MISMATCH",s,"exp",e,"got",r)
print(len(cases),"binary sequences; mismatches",bad)
# unary + postfix decoration
dec=["-a","!a","~a","+a","- -a","-a.f","-a[1]","-a(1)","!a.f(1)[2]","a.f","a[1:2]","a[::]","a[1::2]","a[:2:]","a[::3]","a[1:]","a[:]","a[1:2:3]","a[:2:3]","a[1::]","a[:2]","a[1::3]","a{ }","a{ }.b","-a{ }","a(x=1)","a(1) tailstrict","a(1)tailstrict.f"]
r2=parse(["%s * %s + %s"%(d,d,d) for d in dec]+dec)
for d,r in zip(dec,r2[len(dec):]): print(d.ljust(20),r.get('ok') or r)
# keyword-prefix forms extend right
misc=["1 + if a then b else c + d","if a then b else c + d","local x = 1; x + 1 * 2","error 'a' + 'b'","function(x) x + 1","assert a : 'm'; b + c","a in super", "a in super.b","a in super['b'] + 1","'a' in super == true","-a in b","a < b in c","import 'a' + 'b'","a + b { c: 1 }","a.b.c(d)[e]","a == b == c","a || b && c | d ^ e & f == g < h << i + j * k","[a for a in b if c for d in e]","{[a]: b for a in c}","{[a]+: b for a in c}", "a[b:c:d:e]","a[]","a[1,2]","f(a,)","f(,)","[1,]","[,]","{a:1,}","{,}","f(a=1,b)","x tailstrict","if a then b else","local x; 1","local x = 1 1","{a}","{a:}","{a::::1}","{local}","{assert}","{[a]}"]
for s,r in zip(misc,parse(misc,spans=False)): print(s.ljust(48),r.get('ok') or r)
