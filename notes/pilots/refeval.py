# Scratch pilot of a reference interpreter for the Jsonnet core (NOT framework code).
import json, math, sys
sys.setrecursionlimit(20000)

class JErr(Exception):
    def __init__(self, kind, msg=None): self.kind=kind; self.msg=msg
class Diverge(Exception): pass

class Thunk:
    __slots__=("f","state","val")
    def __init__(self,f): self.f=f; self.state=0
    def get(self):
        if self.state==2: return self.val
        if self.state==1: raise JErr("infrec")
        self.state=1
        try:
            v=self.f()
        except BaseException:
            self.state=0   # reference semantics: no poisoning
            raise
        self.val=v; self.state=2; self.f=None
        return v
def done(v):
    t=Thunk(None); t.state=2; t.val=v; return t

class Layer:
    def __init__(self, fields, asserts, mkenv):
        self.fields=fields      # name -> (vis, plus, expr, extra_env or None)
        self.asserts=asserts    # list of (cond, msg)
        self.mkenv=mkenv        # function(obj, idx) -> env  (binds self/super/locals)
class Obj:
    def __init__(self, layers):
        self.layers=layers; self.cache={}; self.asserts_state=0
        self.envs={}
    def env(self, idx):
        if idx not in self.envs: self.envs[idx]=self.layers[idx].mkenv(self, idx)
        return self.envs[idx]
    def find(self, name, top):
        for i in range(top,-1,-1):
            if name in self.layers[i].fields: return i
        return None
    def all_fields(self):
        # name -> visibility ('hidden'/'visible'), per spec merging
        res={}
        for i,l in enumerate(self.layers):
            for n,(vis,plus,e,x) in l.fields.items():
                if vis=='::': res[n]='h'
                elif vis==':::': res[n]='v'
                else: res.setdefault(n,'v') if n not in res else None
        return res
    def visible(self): return sorted(n for n,v in self.all_fields().items() if v=='v')
    def allnames(self): return sorted(self.all_fields())

class Fn:
    def __init__(self, params, body, env, builtin=None): self.params=params; self.body=body; self.env=env; self.builtin=builtin

DEPTH=[0]
class Interp:
    def __init__(self): self.trace=[]
    # env: dict with 'vars': dict name->Thunk, 'self': (obj, idx) or None, 'top': obj or None
    def ev(self, e, env):
        DEPTH[0]+=1
        if DEPTH[0]>1500: raise Diverge()
        try: return self._ev(e, env)
        finally: DEPTH[0]-=1
    def _ev(self, e, env):
        k=e[0]
        if k=='null': return None
        if k=='bool': return e[1]
        if k=='num': return float(e[1])
        if k=='str': return e[1]
        if k=='var': return env['vars'][e[1]].get()
        if k=='local':
            new=dict(env); new['vars']=dict(env['vars'])
            for x,b in e[1]: new['vars'][x]=Thunk((lambda b=b: self.ev(b,new)))
            return self.ev(e[2], new)
        if k=='func': return Fn(e[1], e[2], env)
        if k=='call':
            f=self.ev(e[1],env)
            if not isinstance(f,Fn): raise JErr("type")
            return self.call(f,[Thunk((lambda a=a: self.ev(a,env))) for a in e[2]],[(n,Thunk((lambda a=a: self.ev(a,env)))) for n,a in e[3]])
        if k=='if':
            c=self.ev(e[1],env)
            if not isinstance(c,bool): raise JErr("type")
            if c: return self.ev(e[2],env)
            return self.ev(e[3],env) if e[3] is not None else None
        if k=='bin': return self.binop(e[1],e[2],e[3],env)
        if k=='un':
            v=self.ev(e[2],env); op=e[1]
            if op=='!':
                if not isinstance(v,bool): raise JErr("type")
                return not v
            if isinstance(v,bool) or not isinstance(v,float): raise JErr("type")
            if op=='-': return -v
            if op=='+': return v
            if op=='~': return float(~int(v))
        if k=='arr': return ('arr',[Thunk((lambda a=a: self.ev(a,env))) for a in e[1]])
        if k=='acomp':
            envs=self.comp_envs(e[2],env)
            return ('arr',[Thunk((lambda en=en: self.ev(e[1],en))) for en in envs])
        if k=='index':
            o=self.ev(e[1],env); i=self.ev(e[2],env)
            return self.index(o,i)
        if k=='field':
            o=self.ev(e[1],env)
            if not(isinstance(o,tuple) and o[0]=='obj'): raise JErr("type")
            return self.obj_get(o[1], e[2])
        if k=='obj': return ('obj', self.mkobj(e[1], env))
        if k=='ocomp': return ('obj', self.mkocomp(e, env))
        if k=='self': return ('obj', env['self'][0])
        if k=='dollar': return ('obj', env['top'])
        if k=='super_field':
            o,idx=env['self']
            if idx==0: raise JErr("nosuper")
            return self.obj_field_from(o, e[1], idx-1)
        if k=='super_index':
            o,idx=env['self']
            n=self.ev(e[1],env)
            if not isinstance(n,str): raise JErr("type")
            if idx==0: raise JErr("nosuper")
            return self.obj_field_from(o, n, idx-1)
        if k=='in_super':
            n=self.ev(e[1],env)
            if not isinstance(n,str): raise JErr("type")
            o,idx=env['self']
            return idx>0 and o.find(n, idx-1) is not None
        if k=='error':
            m=self.ev(e[1],env)
            raise JErr("explicit", m if isinstance(m,str) else self.tostring(m))
        if k=='assert':
            c=self.ev(e[1],env)
            if not isinstance(c,bool): raise JErr("type")
            if not c:
                if e[2] is None: raise JErr("assert", None)
                m=self.ev(e[2],env); raise JErr("assert", m if isinstance(m,str) else self.tostring(m))
            return self.ev(e[3],env)
        if k=='std':   # ('std', name, args)
            return self.std(e[1],[Thunk((lambda a=a: self.ev(a,env))) for a in e[2]])
        raise Exception("unknown "+k)
    def comp_envs(self, specs, env):
        envs=[env]
        for s in specs:
            if s[0]=='for':
                new=[]
                for en in envs:
                    a=self.ev(s[2],en)
                    if not(isinstance(a,tuple) and a[0]=='arr'): raise JErr("type")
                    for t in a[1]:
                        e2=dict(en); e2['vars']=dict(en['vars']); e2['vars'][s[1]]=t; new.append(e2)
                envs=new
            else:
                new=[]
                for en in envs:
                    c=self.ev(s[1],en)
                    if not isinstance(c,bool): raise JErr("type")
                    if c: new.append(en)
                envs=new
        return envs
    def call(self, f, pos, named):
        params=f.params
        if len(pos)>len(params): raise JErr("args")
        bound={}
        for (p,_),t in zip(params,pos): bound[p]=t
        names=[p for p,_ in params]
        for n,t in named:
            if n not in names: raise JErr("args")
            if n in bound: raise JErr("args")
            bound[n]=t
        new=dict(f.env); new['vars']=dict(f.env['vars'])
        for p,d in params:
            if p in bound: new['vars'][p]=bound[p]
            elif d is None: raise JErr("args")
            else: new['vars'][p]=Thunk((lambda d=d: self.ev(d,new)))
        return self.ev(f.body,new)
    def mkobj(self, members, env):
        fields={}; asserts=[]; locs=[]
        for m in members:
            if m[0]=='field':
                _,name,vis,plus,body=m
                if name[0]=='fix': n=name[1]
                else:
                    n=self.ev(name[1],env)
                    if n is None: continue
                    if not isinstance(n,str): raise JErr("type")
                if n in fields: raise JErr("dupfield")
                fields[n]=(vis,plus,body,None)
            elif m[0]=='local': locs.append((m[1],m[2]))
            elif m[0]=='assert': asserts.append((m[1],m[2]))
        is_top = env['self'] is None
        def mkenv(obj, idx, env=env, locs=locs, is_top=is_top):
            new=dict(env); new['vars']=dict(env['vars']); new['self']=(obj,idx)
            if is_top: new['top']=obj
            for x,b in locs: new['vars'][x]=Thunk((lambda b=b: self.ev(b,new)))
            return new
        return Obj([Layer(fields,asserts,mkenv)])
    def mkocomp(self, e, env):
        _,nameE,plus,body,specs=e
        envs=self.comp_envs(specs,env)
        fields={}
        is_top = env['self'] is None
        for en in envs:
            n=self.ev(nameE,en)
            if n is None: continue
            if not isinstance(n,str): raise JErr("type")
            if n in fields: raise JErr("dupfield")
            fields[n]=(':',plus,body,en)
        def mkenv(obj, idx): return None
        return Obj([Layer(fields,[],None)]) if False else self._ocomp_obj(fields,is_top)
    def _ocomp_obj(self, fields, is_top):
        o=Obj([Layer(fields,[],None)])
        o.layers[0].is_top=is_top
        return o
    def field_env(self, obj, idx, name):
        l=obj.layers[idx]; vis,plus,body,extra=l.fields[name]
        if extra is not None:
            new=dict(extra); new['vars']=dict(extra['vars']); new['self']=(obj,idx)
            if getattr(l,'is_top',False): new['top']=obj
            return new
        return obj.env(idx)
    def obj_field_from(self, obj, name, top):
        idx=obj.find(name, top)
        if idx is None: raise JErr("nofield")
        key=(idx,name)
        if key not in obj.cache:
            vis,plus,body,extra=obj.layers[idx].fields[name]
            en=self.field_env(obj,idx,name)
            if plus:
                def f(en=en,body=body,idx=idx):
                    if idx>0 and obj.find(name, idx-1) is not None:
                        l=self.obj_field_from(obj,name,idx-1)
                        r=self.ev(body,en)
                        return self.add(l,r)
                    return self.ev(body,en)
                obj.cache[key]=Thunk(f)
            else:
                obj.cache[key]=Thunk((lambda: self.ev(body,en)))
        return obj.cache[key].get()
    def check_asserts(self, obj):
        if obj.asserts_state!=0: return
        obj.asserts_state=1
        try:
            for idx,l in enumerate(obj.layers):
                for c,m in l.asserts:
                    en=obj.env(idx)
                    v=self.ev(c,en)
                    if not isinstance(v,bool): raise JErr("type")
                    if not v:
                        if m is None: raise JErr("assert",None)
                        mv=self.ev(m,en); raise JErr("assert", mv if isinstance(mv,str) else self.tostring(mv))
        except BaseException:
            obj.asserts_state=0
            raise
        obj.asserts_state=2
    def obj_get(self, obj, name):
        if obj.find(name,len(obj.layers)-1) is None: raise JErr("nofield")
        self.check_asserts(obj)
        return self.obj_field_from(obj,name,len(obj.layers)-1)
    def index(self,o,i):
        if isinstance(o,tuple) and o[0]=='obj':
            if not isinstance(i,str): raise JErr("type")
            return self.obj_get(o[1],i)
        if isinstance(o,tuple) and o[0]=='arr':
            if isinstance(i,bool) or not isinstance(i,float): raise JErr("type")
            if i!=int(i) or i<0 or i>=len(o[1]): raise JErr("index")
            return o[1][int(i)].get()
        if isinstance(o,str):
            if isinstance(i,bool) or not isinstance(i,float): raise JErr("type")
            if i!=int(i) or i<0 or i>=len(o): raise JErr("index")
            return o[int(i)]
        raise JErr("type")
    def extend(self,a,b):
        layers=[]
        for src in (a,b):
            for l in src.layers:
                nl=Layer(l.fields,l.asserts,l.mkenv)
                if hasattr(l,'is_top'): nl.is_top=l.is_top
                layers.append(nl)
        if len(layers)>4096: raise Diverge()
        return Obj(layers)
    def add(self,l,r):
        isnum=lambda v: isinstance(v,float) and not isinstance(v,bool)
        if isnum(l) and isnum(r):
            v=l+r
            if math.isinf(v) or math.isnan(v): raise JErr("overflow")
            return v
        if isinstance(l,str) and isinstance(r,str): return l+r
        if isinstance(l,str): return l+self.tostring(r)
        if isinstance(r,str): return self.tostring(l)+r
        if isinstance(l,tuple) and isinstance(r,tuple) and l[0]==r[0]=='arr': return ('arr',l[1]+r[1])
        if isinstance(l,tuple) and isinstance(r,tuple) and l[0]==r[0]=='obj': return ('obj',self.extend(l[1],r[1]))
        raise JErr("type")
    def binop(self,op,le,re,env):
        if op=='&&':
            l=self.ev(le,env)
            if not isinstance(l,bool): raise JErr("type")
            if not l: return False
            r=self.ev(re,env)
            if not isinstance(r,bool): raise JErr("type")
            return r
        if op=='||':
            l=self.ev(le,env)
            if not isinstance(l,bool): raise JErr("type")
            if l: return True
            r=self.ev(re,env)
            if not isinstance(r,bool): raise JErr("type")
            return r
        l=self.ev(le,env); r=self.ev(re,env)
        isnum=lambda v: isinstance(v,float) and not isinstance(v,bool)
        if op=='+': return self.add(l,r)
        if op=='==': return self.equals(l,r)
        if op=='!=': return not self.equals(l,r)
        if op in ('<','<=','>','>='):
            c=self.compare(l,r)
            return {'<':c<0,'<=':c<=0,'>':c>0,'>=':c>=0}[op]
        if op=='in':
            if not isinstance(l,str) or not(isinstance(r,tuple) and r[0]=='obj'): raise JErr("type")
            return r[1].find(l,len(r[1].layers)-1) is not None
        if op=='%' and isinstance(l,str): raise JErr("format-unsupported")
        if not(isnum(l) and isnum(r)): raise JErr("type")
        if op=='-': v=l-r
        elif op=='*': v=l*r
        elif op=='/':
            if r==0: raise JErr("div0")
            v=l/r
        elif op=='%':
            if r==0: raise JErr("div0")
            v=math.fmod(l,r)
        elif op in ('&','|','^'):
            a=int(l);b=int(r); v=float({'&':a&b,'|':a|b,'^':a^b}[op])
        elif op=='<<':
            if r<0: raise JErr("shift")
            v=float(int(l)<<(int(r)&63))
        elif op=='>>':
            if r<0: raise JErr("shift")
            v=float(int(l)>>(int(r)&63))
        else: raise Exception(op)
        if math.isinf(v) or math.isnan(v): raise JErr("overflow")
        return v
    def typ(self,v):
        if v is None: return 'null'
        if isinstance(v,bool): return 'boolean'
        if isinstance(v,float): return 'number'
        if isinstance(v,str): return 'string'
        if isinstance(v,Fn): return 'function'
        return {'arr':'array','obj':'object'}[v[0]]
    def equals(self,l,r):
        tl,tr=self.typ(l),self.typ(r)
        if tl!=tr: return False
        if tl=='function': raise JErr("cmpfn")
        if tl=='array':
            if len(l[1])!=len(r[1]): return False
            for a,b in zip(l[1],r[1]):
                if not self.equals(a.get(),b.get()): return False
            return True
        if tl=='object':
            fa,fb=l[1].visible(),r[1].visible()
            if fa!=fb: return False
            if fa:
                self.check_asserts(l[1]); self.check_asserts(r[1])
            for n in fa:
                if not self.equals(self.obj_field_from(l[1],n,len(l[1].layers)-1),self.obj_field_from(r[1],n,len(r[1].layers)-1)): return False
            return True
        return l==r
    def compare(self,l,r):
        tl,tr=self.typ(l),self.typ(r)
        if tl!=tr or tl in ('null','boolean','object','function'): raise JErr("type")
        if tl=='array':
            for a,b in zip(l[1],r[1]):
                c=self.compare(a.get(),b.get())
                if c!=0: return c
            return (len(l[1])>len(r[1]))-(len(l[1])<len(r[1]))
        if tl=='string':
            a=[ord(c) for c in l]; b=[ord(c) for c in r]
            return (a>b)-(a<b)
        return (l>r)-(l<r)
    def numstr(self,v):
        if v==int(v) and abs(v)<1e17: return ("-0" if (v==0 and math.copysign(1,v)<0) else str(int(v)))
        return repr(v)
    def tostring(self,v):
        if isinstance(v,str): return v
        return self.manifest_str(v)
    def manifest_str(self,v):
        t=self.typ(v)
        if t=='null': return 'null'
        if t=='boolean': return 'true' if v else 'false'
        if t=='number': return self.numstr(v)
        if t=='string': return json.dumps(v,ensure_ascii=False)
        if t=='function': raise JErr("manifestfn")
        if t=='array':
            if not v[1]: return '[ ]'
            return '['+', '.join(self.manifest_str(x.get()) for x in v[1])+']'
        o=v[1]; vis=o.visible()
        self.check_asserts(o)
        if not vis: return '{ }'
        return '{'+', '.join(json.dumps(n,ensure_ascii=False)+': '+self.manifest_str(self.obj_field_from(o,n,len(o.layers)-1)) for n in vis)+'}'
    def to_json(self,v):
        t=self.typ(v)
        if t in('null','boolean','string'): return v
        if t=='number': return v
        if t=='function': raise JErr("manifestfn")
        if t=='array': return [self.to_json(x.get()) for x in v[1]]
        o=v[1]; self.check_asserts(o)
        return {n:self.to_json(self.obj_field_from(o,n,len(o.layers)-1)) for n in o.visible()}
    def std(self,name,args):
        if name=='length':
            v=args[0].get(); t=self.typ(v)
            if t=='string': return float(len(v))
            if t=='array': return float(len(v[1]))
            if t=='object': return float(len(v[1].visible()))
            if t=='function': return float(len(v.params))
            raise JErr("type")
        if name=='type': return self.typ(args[0].get())
        if name in('objectFields','objectFieldsAll'):
            v=args[0].get()
            if self.typ(v)!='object': raise JErr("type")
            ns=v[1].visible() if name=='objectFields' else v[1].allnames()
            return ('arr',[done(n) for n in ns])
        if name in('objectHas','objectHasAll'):
            v=args[0].get(); n=args[1].get()
            if self.typ(v)!='object' or not isinstance(n,str): raise JErr("type")
            return n in (v[1].visible() if name=='objectHas' else v[1].allnames())
        raise Exception(name)

def run_ref(e):
    DEPTH[0]=0
    it=Interp()
    env={'vars':{},'self':None,'top':None}
    try:
        v=it.ev(e,env)
        return ('ok', it.to_json(v))
    except JErr as x:
        return ('err', x.kind, x.msg)
    except (Diverge, RecursionError):
        return ('diverge',)

# ---------- printer
def esc(s): return json.dumps(s)
def pr(e):
    k=e[0]
    if k=='null': return 'null'
    if k=='bool': return 'true' if e[1] else 'false'
    if k=='num': return str(e[1])
    if k=='str': return esc(e[1])
    if k=='var': return e[1]
    if k=='local': return '(local '+', '.join('%s = %s'%(x,pr(b)) for x,b in e[1])+'; '+pr(e[2])+')'
    if k=='func': return '(function('+', '.join(p if d is None else '%s=%s'%(p,pr(d)) for p,d in e[1])+') '+pr(e[2])+')'
    if k=='call': return pr(e[1])+'('+', '.join([pr(a) for a in e[2]]+['%s=%s'%(n,pr(a)) for n,a in e[3]])+')'
    if k=='if': return '(if '+pr(e[1])+' then '+pr(e[2])+(' else '+pr(e[3]) if e[3] is not None else '')+')'
    if k=='bin': return '('+pr(e[2])+' '+e[1]+' '+pr(e[3])+')'
    if k=='un': return '('+e[1]+pr(e[2])+')'
    if k=='arr': return '['+', '.join(pr(a) for a in e[1])+']'
    if k=='acomp': return '['+pr(e[1])+' '+' '.join(('for %s in %s'%(s[1],pr(s[2])) if s[0]=='for' else 'if '+pr(s[1])) for s in e[2])+']'
    if k=='index': return pr(e[1])+'['+pr(e[2])+']'
    if k=='field': return ('('+pr(e[1])+')' if e[1][0]=='num' else pr(e[1]))+'.'+e[2]
    if k=='obj':
        ms=[]
        for m in e[1]:
            if m[0]=='field':
                n=m[1][1] if m[1][0]=='fix' else '['+pr(m[1][1])+']'
                ms.append(n+('+' if m[3] else '')+m[2]+' '+pr(m[4]))
            elif m[0]=='local': ms.append('local %s = %s'%(m[1],pr(m[2])))
            else: ms.append('assert '+pr(m[1])+(' : '+pr(m[2]) if m[2] is not None else ''))
        return '{'+', '.join(ms)+'}'
    if k=='ocomp': return '{['+pr(e[1])+']'+('+' if e[2] else '')+': '+pr(e[3])+' '+' '.join(('for %s in %s'%(s[1],pr(s[2])) if s[0]=='for' else 'if '+pr(s[1])) for s in e[4])+'}'
    if k=='self': return 'self'
    if k=='dollar': return '$'
    if k=='super_field': return 'super.'+e[1]
    if k=='super_index': return 'super['+pr(e[1])+']'
    if k=='in_super': return '('+pr(e[1])+' in super)'
    if k=='error': return '(error '+pr(e[1])+')'
    if k=='assert': return '(assert '+pr(e[1])+(' : '+pr(e[2]) if e[2] is not None else '')+'; '+pr(e[3])+')'
    if k=='std': return 'std.'+e[1]+'('+', '.join(pr(a) for a in e[2])+')'
    raise Exception(k)
