/* Batch snprintf oracle. Each input line: <fmt>\t<kind>\t<value>
 * kind: i = long long (decimal text), f = double (hex bits), s = string (rest of line, \xHH escapes
 * for tab/newline/backslash), c = int code point (only < 128 is passed), n = no argument.
 * The format's length modifier is inserted here (ll for integer conversions).
 * Output: a JSON string per line, or null when the line is not usable. */
#include <stdio.h>
#include <stdlib.h>
#include <string.h>
#include <stdint.h>

static void put_json(const char *s) {
    putchar('"');
    for (const unsigned char *p = (const unsigned char *)s; *p; p++) {
        if (*p == '"' || *p == '\\') { putchar('\\'); putchar(*p); }
        else if (*p < 0x20) printf("\\u%04x", *p);
        else putchar(*p);
    }
    putchar('"');
    putchar('\n');
}

static void unescape(char *s) {
    char *o = s;
    while (*s) {
        if (s[0] == '\\' && s[1] == 'x' && s[2] && s[3]) {
            char h[3] = { s[2], s[3], 0 };
            *o++ = (char)strtol(h, NULL, 16);
            s += 4;
        } else *o++ = *s++;
    }
    *o = 0;
}

int main(void) {
    static char line[1 << 16], out[1 << 20], fmt2[1 << 12];
    while (fgets(line, sizeof line, stdin)) {
        size_t n = strlen(line);
        if (n && line[n - 1] == '\n') line[--n] = 0;
        char *fmt = line;
        char *kind = strchr(line, '\t');
        if (!kind) { puts("null"); continue; }
        *kind++ = 0;
        char *val = strchr(kind, '\t');
        if (!val) { puts("null"); continue; }
        *val++ = 0;
        unescape(fmt);
        size_t fl = strlen(fmt);
        if (fl == 0 || fl > 2000) { puts("null"); continue; }
        int r = -1;
        if (*kind == 'i') {
            /* insert ll before the conversion character (last char of the directive) */
            char conv = fmt[fl - 1];
            memcpy(fmt2, fmt, fl - 1);
            fmt2[fl - 1] = 'l'; fmt2[fl] = 'l'; fmt2[fl + 1] = conv; fmt2[fl + 2] = 0;
            long long v = strtoll(val, NULL, 10);
            r = snprintf(out, sizeof out, fmt2, v);
        } else if (*kind == 'f') {
            uint64_t bits = strtoull(val, NULL, 10);
            double d; memcpy(&d, &bits, 8);
            r = snprintf(out, sizeof out, fmt, d);
        } else if (*kind == 's') {
            unescape(val);
            r = snprintf(out, sizeof out, fmt, val);
        } else if (*kind == 'c') {
            r = snprintf(out, sizeof out, fmt, (int)strtol(val, NULL, 10));
        } else if (*kind == 'n') {
            r = snprintf(out, sizeof out, fmt, 0);
        }
        if (r < 0 || (size_t)r >= sizeof out) { puts("null"); continue; }
        put_json(out);
    }
    return 0;
}
