#!/usr/bin/python3
"""Batch oracle: one JSON request per input line, one JSON answer per output line.
Standard-library implementations only (int/float, base64, hashlib, ast, json, tomllib, %,
codecs); PyYAML as a second YAML opinion."""
import sys, json, base64, hashlib, ast, re, struct, math
try:
    import tomllib
except Exception:
    tomllib = None
try:
    import yaml
except Exception:
    yaml = None

def fbits(x):
    return struct.unpack('<Q', struct.pack('<d', x))[0]

def norm(v):
    """python value -> json-able tree with floats as {"f": bits}"""
    if isinstance(v, bool) or v is None or isinstance(v, str):
        return v
    if isinstance(v, int):
        try:
            return {"f": fbits(float(v))}
        except OverflowError:
            return {"big": str(v)}
    if isinstance(v, float):
        return {"f": fbits(v)}
    if isinstance(v, (list, tuple)):
        return [norm(x) for x in v]
    if isinstance(v, dict):
        return {"o": [[str(k) if not isinstance(k, str) else k, norm(x)] for k, x in v.items()], "nonstr_keys": any(not isinstance(k, str) for k in v)}
    return {"other": repr(v)}

def handle(r):
    op = r["op"]
    if op == "int":
        s, base = r["s"], r["base"]
        pat = {10: r"-?[0-9]+", 8: r"[0-7]+", 16: r"[0-9a-fA-F]+"}[base]
        if not re.fullmatch(pat, s):
            return "invalid"
        try:
            return {"f": fbits(float(int(s, base)))}
        except OverflowError:
            return "overflow"
    if op == "float":
        try:
            v = float(r["s"])
        except Exception:
            return "invalid"
        if math.isinf(v) or math.isnan(v):
            return "overflow"
        return {"f": fbits(v), "repr": repr(v)}
    if op == "repr":
        v = struct.unpack('<d', struct.pack('<Q', r["bits"]))[0]
        return repr(v)
    if op == "b64enc":
        return base64.b64encode(bytes(r["bytes"])).decode("ascii")
    if op == "b64dec":
        # RFC 4648: alphabet only, length a multiple of 4, padding only at the end (CPython's
        # validate=True tolerates excess padding, which is not part of the standard)
        t = r["s"]
        if len(t) % 4 != 0 or not re.fullmatch(r"[A-Za-z0-9+/]*={0,2}", t):
            return "invalid"
        try:
            raw = base64.b64decode(t.encode("ascii"), validate=True)
        except Exception:
            return "invalid"
        if base64.b64encode(raw).decode("ascii") != t:
            return "noncanonical"
        return list(raw)
    if op == "hash":
        h = {"md5": hashlib.md5, "sha1": hashlib.sha1, "sha256": hashlib.sha256, "sha512": hashlib.sha512, "sha3": hashlib.sha3_512}[r["alg"]]
        return h(bytes(r["bytes"])).hexdigest()
    if op == "pyliteral":
        try:
            return {"v": norm(ast.literal_eval(r["s"]))}
        except Exception as e:
            return {"err": type(e).__name__}
    if op == "json":
        try:
            return {"v": norm(json.loads(r["s"]))}
        except Exception as e:
            return {"err": type(e).__name__}
    if op == "toml":
        try:
            return {"v": norm(tomllib.loads(r["s"]))}
        except Exception as e:
            return {"err": type(e).__name__ + ": " + str(e)[:80]}
    if op == "yaml":
        try:
            docs = list(yaml.safe_load_all(r["s"])) if r.get("all") else yaml.safe_load(r["s"])
            return {"v": norm(docs)}
        except Exception as e:
            return {"err": type(e).__name__}
    if op == "fmt":
        # python % formatting; args: list of [kind, value]
        def arg(a):
            k, v = a
            if k == "i":
                return int(v)
            if k == "f":
                return struct.unpack('<d', struct.pack('<Q', v))[0]
            return v
        try:
            args = tuple(arg(a) for a in r["args"])
            if r.get("mapping"):
                args = {k: arg(v) for k, v in r["mapping"]}
            elif len(args) == 1 and r.get("single"):
                args = args[0]
            return {"v": r["fmt"] % args}
        except Exception as e:
            return {"err": type(e).__name__}
    return {"err": "unknown op"}

def main():
    out = sys.stdout
    for line in sys.stdin:
        line = line.strip()
        if not line:
            continue
        try:
            ans = handle(json.loads(line))
        except Exception as e:
            ans = {"err": "oracle:" + type(e).__name__}
        out.write(json.dumps(ans))
        out.write("\n")
main()
