//! ref_json: strict RFC 8259 recogniser/decoder with duplicate-key detection.
use crate::refeval::JT;

pub struct P<'a> {
    s: &'a [u8],
    i: usize,
    depth: usize,
}

pub type R<T> = Result<T, String>;

impl<'a> P<'a> {
    fn ws(&mut self) {
        while matches!(self.s.get(self.i), Some(b' ' | b'\t' | b'\n' | b'\r')) {
            self.i += 1;
        }
    }
    fn lit(&mut self, t: &str) -> bool {
        if self.s[self.i..].starts_with(t.as_bytes()) {
            self.i += t.len();
            true
        } else {
            false
        }
    }
    fn value(&mut self) -> R<JT> {
        self.depth += 1;
        if self.depth > 5000 {
            return Err("too-deep".into());
        }
        let r = self.value_inner();
        self.depth -= 1;
        r
    }
    fn value_inner(&mut self) -> R<JT> {
        self.ws();
        match self.s.get(self.i) {
            None => Err("eof".into()),
            Some(b'n') => if self.lit("null") { Ok(JT::Null) } else { Err("literal".into()) },
            Some(b't') => if self.lit("true") { Ok(JT::Bool(true)) } else { Err("literal".into()) },
            Some(b'f') => if self.lit("false") { Ok(JT::Bool(false)) } else { Err("literal".into()) },
            Some(b'"') => Ok(JT::Str(self.string()?)),
            Some(b'[') => {
                self.i += 1;
                let mut v = Vec::new();
                self.ws();
                if self.s.get(self.i) == Some(&b']') {
                    self.i += 1;
                    return Ok(JT::Arr(v));
                }
                loop {
                    v.push(self.value()?);
                    self.ws();
                    match self.s.get(self.i) {
                        Some(b',') => self.i += 1,
                        Some(b']') => {
                            self.i += 1;
                            return Ok(JT::Arr(v));
                        }
                        _ => return Err("array".into()),
                    }
                }
            }
            Some(b'{') => {
                self.i += 1;
                let mut v: Vec<(String, JT)> = Vec::new();
                self.ws();
                if self.s.get(self.i) == Some(&b'}') {
                    self.i += 1;
                    return Ok(JT::Obj(v));
                }
                loop {
                    self.ws();
                    if self.s.get(self.i) != Some(&b'"') {
                        return Err("object-key".into());
                    }
                    let k = self.string()?;
                    self.ws();
                    if self.s.get(self.i) != Some(&b':') {
                        return Err("object-colon".into());
                    }
                    self.i += 1;
                    let val = self.value()?;
                    if v.iter().any(|(kk, _)| *kk == k) {
                        return Err("duplicate-key".into());
                    }
                    v.push((k, val));
                    self.ws();
                    match self.s.get(self.i) {
                        Some(b',') => self.i += 1,
                        Some(b'}') => {
                            self.i += 1;
                            v.sort_by(|a, b| a.0.cmp(&b.0));
                            return Ok(JT::Obj(v));
                        }
                        _ => return Err("object".into()),
                    }
                }
            }
            Some(b'-' | b'0'..=b'9') => self.number(),
            _ => Err("value".into()),
        }
    }
    fn number(&mut self) -> R<JT> {
        let st = self.i;
        if self.s.get(self.i) == Some(&b'-') {
            self.i += 1;
        }
        match self.s.get(self.i) {
            Some(b'0') => self.i += 1,
            Some(b'1'..=b'9') => {
                while matches!(self.s.get(self.i), Some(b'0'..=b'9')) {
                    self.i += 1;
                }
            }
            _ => return Err("number".into()),
        }
        if self.s.get(self.i) == Some(&b'.') {
            self.i += 1;
            if !matches!(self.s.get(self.i), Some(b'0'..=b'9')) {
                return Err("number-frac".into());
            }
            while matches!(self.s.get(self.i), Some(b'0'..=b'9')) {
                self.i += 1;
            }
        }
        if matches!(self.s.get(self.i), Some(b'e' | b'E')) {
            self.i += 1;
            if matches!(self.s.get(self.i), Some(b'+' | b'-')) {
                self.i += 1;
            }
            if !matches!(self.s.get(self.i), Some(b'0'..=b'9')) {
                return Err("number-exp".into());
            }
            while matches!(self.s.get(self.i), Some(b'0'..=b'9')) {
                self.i += 1;
            }
        }
        let t = std::str::from_utf8(&self.s[st..self.i]).unwrap();
        let v: f64 = t.parse().map_err(|_| "number".to_string())?;
        if !v.is_finite() {
            return Err("number-overflow".into());
        }
        Ok(JT::Num(v))
    }
    fn hex4(&mut self) -> R<u16> {
        let h = self.s.get(self.i..self.i + 4).ok_or("escape")?;
        let t = std::str::from_utf8(h).map_err(|_| "escape")?;
        if !t.bytes().all(|b| b.is_ascii_hexdigit()) {
            return Err("escape".into());
        }
        self.i += 4;
        Ok(u16::from_str_radix(t, 16).unwrap())
    }
    fn string(&mut self) -> R<String> {
        self.i += 1;
        let mut out = String::new();
        let text = std::str::from_utf8(self.s).map_err(|_| "utf8")?;
        loop {
            let Some(c) = text[self.i..].chars().next() else {
                return Err("unterminated".into());
            };
            self.i += c.len_utf8();
            match c {
                '"' => return Ok(out),
                '\\' => {
                    let e = *self.s.get(self.i).ok_or("escape")?;
                    self.i += 1;
                    match e {
                        b'"' => out.push('"'),
                        b'\\' => out.push('\\'),
                        b'/' => out.push('/'),
                        b'b' => out.push('\u{8}'),
                        b'f' => out.push('\u{c}'),
                        b'n' => out.push('\n'),
                        b'r' => out.push('\r'),
                        b't' => out.push('\t'),
                        b'u' => {
                            let cu = self.hex4()?;
                            if (0xD800..0xDC00).contains(&cu) {
                                if self.s[self.i..].starts_with(b"\\u") {
                                    let save = self.i;
                                    self.i += 2;
                                    let lo = self.hex4()?;
                                    if (0xDC00..0xE000).contains(&lo) {
                                        out.push(char::decode_utf16([cu, lo]).next().unwrap().unwrap());
                                    } else {
                                        let _ = save;
                                        return Err("lone-surrogate".into());
                                    }
                                } else {
                                    return Err("lone-surrogate".into());
                                }
                            } else if (0xDC00..0xE000).contains(&cu) {
                                return Err("lone-surrogate".into());
                            } else {
                                out.push(char::from_u32(cu as u32).unwrap());
                            }
                        }
                        _ => return Err("escape".into()),
                    }
                }
                c if (c as u32) < 0x20 => return Err("control-char".into()),
                c => out.push(c),
            }
        }
    }
}

/// Decodes a complete JSON text. Errors "lone-surrogate" mark don't-care documents.
pub fn parse(text: &str) -> R<JT> {
    let mut p = P { s: text.as_bytes(), i: 0, depth: 0 };
    let v = p.value()?;
    p.ws();
    if p.i != text.len() {
        return Err("trailing".into());
    }
    Ok(v)
}
