//! C14 — lexing tiles the input and decodes literals exactly.
//! ref_lex is written from the Jsonnet lexical grammar; every enumerated input is lexed by the
//! model and by the implementation and the token streams (kind, value, span) must agree.
use crate::util::{self, Ctx, LevelInfo, Report};
use rsjsonnet_lang::arena::Arena;
use rsjsonnet_lang::interner::StrInterner;
use rsjsonnet_lang::lexer::Lexer;
use rsjsonnet_lang::span::SpanManager;
use rsjsonnet_lang::token::TokenKind;
use serde_json::json;

#[derive(Clone, Debug, PartialEq, Eq, Hash)]
pub enum K {
    Eof,
    Ws,
    Comment,
    /// keyword or punctuation, by its text
    Simple(String),
    OtherOp(String),
    Ident(String),
    /// normalised (digits, exponent)
    Number(String, i64),
    Str(String),
    TextBlock(String),
}

pub type Tok = (K, usize, usize);

const KEYWORDS: &[&str] = &[
    "assert", "else", "error", "false", "for", "function", "if", "import", "importstr", "importbin", "in", "local", "null",
    "tailstrict", "then", "self", "super", "true",
];
const SIMPLE_OPS: &[&str] = &[
    ":", "::", ":::", "+:", "+::", "+:::", "=", "$", "*", "/", "%", "+", "-", "<<", ">>", "<", "<=", ">", ">=", "==", "!=", "&", "^",
    "|", "&&", "||", "!", "~",
];
const OPCH: &[u8] = b"!$:~+-&|^=<>*/%";

fn norm_number(digits: &str, exp: i64) -> (String, i64) {
    let d = digits.trim_start_matches('0');
    if d.is_empty() {
        return ("0".into(), 0);
    }
    let t = d.trim_end_matches('0');
    // exponents beyond +-10^15 all denote 0 / overflow: compared as one class
    (t.to_string(), exp.saturating_add((d.len() - t.len()) as i64).clamp(-1_000_000_000_000_000, 1_000_000_000_000_000))
}

// ------------------------------------------------------------------ the model

struct Unit {
    /// decoded character (U+FFFD for an invalid sequence)
    ch: char,
    valid: bool,
    start: usize,
    len: usize,
}

fn units(input: &[u8]) -> Vec<Unit> {
    let mut v = Vec::new();
    let mut pos = 0;
    for chunk in input.utf8_chunks() {
        for c in chunk.valid().chars() {
            v.push(Unit { ch: c, valid: true, start: pos, len: c.len_utf8() });
            pos += c.len_utf8();
        }
        let inv = chunk.invalid();
        if !inv.is_empty() {
            v.push(Unit { ch: '\u{FFFD}', valid: false, start: pos, len: inv.len() });
            pos += inv.len();
        }
    }
    v
}

pub struct RefLex<'a> {
    input: &'a [u8],
    u: Vec<Unit>,
    i: usize,
}

pub type LexRes = Result<Vec<Tok>, String>;

impl<'a> RefLex<'a> {
    pub fn new(input: &'a [u8]) -> Self {
        RefLex { input, u: units(input), i: 0 }
    }
    fn peek(&self, k: usize) -> Option<char> {
        self.u.get(self.i + k).filter(|u| u.valid).map(|u| u.ch)
    }
    fn pos(&self) -> usize {
        self.u.get(self.i).map(|u| u.start).unwrap_or(self.input.len())
    }
    fn is_op(c: char) -> bool {
        c.is_ascii() && OPCH.contains(&(c as u8))
    }
    fn starts_with(&self, k: usize, s: &str) -> bool {
        s.chars().enumerate().all(|(j, c)| self.peek(k + j) == Some(c))
    }

    pub fn lex(mut self) -> LexRes {
        let mut out = Vec::new();
        loop {
            let start = self.pos();
            let Some(u) = self.u.get(self.i) else {
                out.push((K::Eof, start, start));
                return Ok(out);
            };
            if !u.valid {
                return Err("invalid utf-8 outside string/comment".into());
            }
            let c = u.ch;
            let kind = match c {
                ' ' | '\t' | '\n' | '\r' => {
                    while matches!(self.peek(0), Some(' ' | '\t' | '\n' | '\r')) {
                        self.i += 1;
                    }
                    K::Ws
                }
                '#' => self.line_comment(),
                '/' if self.peek(1) == Some('/') => self.line_comment(),
                '/' if self.peek(1) == Some('*') => {
                    self.i += 2;
                    loop {
                        if self.i >= self.u.len() {
                            return Err("unfinished comment".into());
                        }
                        if self.starts_with(0, "*/") {
                            self.i += 2;
                            break;
                        }
                        self.i += 1;
                    }
                    K::Comment
                }
                '{' | '}' | '[' | ']' | ',' | '.' | '(' | ')' | ';' => {
                    self.i += 1;
                    K::Simple(c.to_string())
                }
                '|' if self.starts_with(0, "|||") => self.text_block()?,
                c if Self::is_op(c) => self.operator(),
                '0'..='9' => self.number()?,
                '_' | 'a'..='z' | 'A'..='Z' => {
                    let mut s = String::new();
                    while let Some(c) = self.peek(0).filter(|c| c.is_ascii_alphanumeric() || *c == '_') {
                        s.push(c);
                        self.i += 1;
                    }
                    if KEYWORDS.contains(&s.as_str()) { K::Simple(s) } else { K::Ident(s) }
                }
                '"' | '\'' => {
                    self.i += 1;
                    K::Str(self.quoted(c)?)
                }
                '@' => match self.peek(1) {
                    Some(q @ ('"' | '\'')) => {
                        self.i += 2;
                        K::Str(self.verbatim(q)?)
                    }
                    _ => return Err("stray @".into()),
                },
                _ => return Err(format!("invalid character {c:?}")),
            };
            out.push((kind, start, self.pos()));
        }
    }

    fn line_comment(&mut self) -> K {
        while self.i < self.u.len() {
            let u = &self.u[self.i];
            self.i += 1;
            if u.valid && u.ch == '\n' {
                break;
            }
        }
        K::Comment
    }

    fn operator(&mut self) -> K {
        // maximal run of operator characters, cut before an embedded //, /* or |||
        let mut run: Vec<char> = Vec::new();
        let mut k = 0;
        while let Some(c) = self.peek(k).filter(|c| Self::is_op(*c)) {
            if k > 0 && (self.starts_with(k, "//") || self.starts_with(k, "/*") || self.starts_with(k, "|||")) {
                break;
            }
            run.push(c);
            k += 1;
        }
        // a multi-character operator cannot end in + - ~ ! $
        while run.len() > 1 && matches!(run[run.len() - 1], '+' | '-' | '~' | '!' | '$') {
            run.pop();
        }
        self.i += run.len();
        let s: String = run.into_iter().collect();
        if SIMPLE_OPS.contains(&s.as_str()) { K::Simple(s) } else { K::OtherOp(s) }
    }

    fn digits(&mut self, out: &mut String) -> Result<usize, String> {
        // [0-9](_?[0-9])*
        let mut n = 0;
        match self.peek(0) {
            Some(c) if c.is_ascii_digit() => {
                out.push(c);
                self.i += 1;
                n += 1;
            }
            _ => return Ok(0),
        }
        loop {
            match self.peek(0) {
                Some(c) if c.is_ascii_digit() => {
                    out.push(c);
                    self.i += 1;
                    n += 1;
                }
                Some('_') => match self.peek(1) {
                    Some(c) if c.is_ascii_digit() => {
                        out.push(c);
                        self.i += 2;
                        n += 1;
                    }
                    _ => return Err("underscore must be followed by a digit".into()),
                },
                _ => return Ok(n),
            }
        }
    }

    fn number(&mut self) -> Result<K, String> {
        let mut digits = String::new();
        if self.peek(0) == Some('0') {
            digits.push('0');
            self.i += 1;
            match self.peek(0) {
                Some(c) if c.is_ascii_digit() => return Err("leading zero".into()),
                Some('_') => return Err("junk after leading zero".into()),
                _ => {}
            }
        } else {
            self.digits(&mut digits)?;
        }
        let mut exp: i64 = 0;
        if self.peek(0) == Some('.') {
            self.i += 1;
            let n = self.digits(&mut digits)?;
            if n == 0 {
                return Err("missing fraction digits".into());
            }
            exp -= n as i64;
        }
        if matches!(self.peek(0), Some('e' | 'E')) {
            self.i += 1;
            let neg = match self.peek(0) {
                Some('+') => {
                    self.i += 1;
                    false
                }
                Some('-') => {
                    self.i += 1;
                    true
                }
                _ => false,
            };
            let mut ed = String::new();
            let n = self.digits(&mut ed)?;
            if n == 0 {
                return Err("missing exponent digits".into());
            }
            // an exponent of any size is a number: beyond 64 bits it is saturated (the value is 0
            // or an overflow either way; norm_number identifies all astronomical exponents)
            let e: i64 = ed.parse().unwrap_or(i64::MAX);
            exp = if neg { exp.saturating_sub(e) } else { exp.saturating_add(e) };
        }
        let (d, e) = norm_number(&digits, exp);
        Ok(K::Number(d, e))
    }

    fn hex4(&mut self) -> Option<u16> {
        let mut v = 0u16;
        for k in 0..4 {
            let c = self.peek(k)?;
            v = v * 16 + c.to_digit(16)? as u16;
        }
        self.i += 4;
        Some(v)
    }

    fn quoted(&mut self, delim: char) -> Result<String, String> {
        let mut s = String::new();
        loop {
            let Some(u) = self.u.get(self.i) else {
                return Err("unfinished string".into());
            };
            self.i += 1;
            if !u.valid {
                s.push('\u{FFFD}');
                continue;
            }
            if u.ch == delim {
                return Ok(s);
            }
            if u.ch != '\\' {
                s.push(u.ch);
                continue;
            }
            let Some(e) = self.u.get(self.i) else {
                return Err("unfinished string".into());
            };
            self.i += 1;
            if !e.valid {
                return Err("invalid escape".into());
            }
            match e.ch {
                '"' => s.push('"'),
                '\'' => s.push('\''),
                '\\' => s.push('\\'),
                '/' => s.push('/'),
                'b' => s.push('\u{8}'),
                'f' => s.push('\u{c}'),
                'n' => s.push('\n'),
                'r' => s.push('\r'),
                't' => s.push('\t'),
                'u' => {
                    let cu1 = self.hex4().ok_or("incomplete unicode escape")?;
                    if (0xD800..=0xDFFF).contains(&cu1) {
                        // must be a high surrogate followed by \uDC00..DFFF
                        if self.starts_with(0, "\\u") {
                            self.i += 2;
                            let cu2 = self.hex4().ok_or("incomplete unicode escape")?;
                            match char::decode_utf16([cu1, cu2]).next().unwrap() {
                                Ok(c) => s.push(c),
                                Err(_) => return Err("invalid surrogate pair".into()),
                            }
                        } else {
                            return Err("lone surrogate".into());
                        }
                    } else {
                        s.push(char::from_u32(cu1 as u32).unwrap());
                    }
                }
                _ => return Err("invalid escape".into()),
            }
        }
    }

    fn verbatim(&mut self, delim: char) -> Result<String, String> {
        let mut s = String::new();
        loop {
            let Some(u) = self.u.get(self.i) else {
                return Err("unfinished string".into());
            };
            self.i += 1;
            if u.valid && u.ch == delim {
                if self.peek(0) == Some(delim) {
                    self.i += 1;
                    s.push(delim);
                } else {
                    return Ok(s);
                }
            } else {
                s.push(u.ch);
            }
        }
    }

    /// raw unit at i (valid or not) as a char, advancing
    fn take(&mut self) -> Option<char> {
        let u = self.u.get(self.i)?;
        self.i += 1;
        Some(u.ch)
    }

    fn text_block(&mut self) -> Result<K, String> {
        self.i += 3;
        let chomp = if self.peek(0) == Some('-') {
            self.i += 1;
            true
        } else {
            false
        };
        while matches!(self.peek(0), Some(' ' | '\t' | '\r')) {
            self.i += 1;
        }
        if self.peek(0) != Some('\n') {
            return Err("text block: no newline after |||".into());
        }
        self.i += 1;
        let mut s = String::new();
        // blank lines before the first content line are kept
        let prefix: Vec<char>;
        loop {
            let mut ws = Vec::new();
            while let Some(c) = self.peek(0).filter(|c| matches!(c, ' ' | '\t')) {
                ws.push(c);
                self.i += 1;
            }
            if ws.is_empty() {
                // an empty line (LF or CRLF) is content; anything else is an error
                if self.peek(0) == Some('\n') {
                    self.i += 1;
                    s.push('\n');
                    continue;
                }
                if self.peek(0) == Some('\r') && self.peek(1) == Some('\n') {
                    self.i += 2;
                    s.push_str("\r\n");
                    continue;
                }
                return Err("text block: first line not indented".into());
            }
            prefix = ws;
            break;
        }
        // now inside the first content line, after its prefix
        loop {
            // rest of the current line
            loop {
                match self.take() {
                    None => return Err("unfinished text block".into()),
                    Some('\n') => {
                        s.push('\n');
                        break;
                    }
                    Some(c) => s.push(c),
                }
            }
            // at the start of a line
            loop {
                if self.peek(0) == Some('\n') {
                    self.i += 1;
                    s.push('\n');
                    continue;
                }
                if self.peek(0) == Some('\r') && self.peek(1) == Some('\n') {
                    self.i += 2;
                    s.push_str("\r\n");
                    continue;
                }
                break;
            }
            let has_prefix = prefix.iter().enumerate().all(|(k, c)| self.peek(k) == Some(*c));
            if has_prefix {
                self.i += prefix.len();
                continue;
            }
            while matches!(self.peek(0), Some(' ' | '\t')) {
                self.i += 1;
            }
            if self.starts_with(0, "|||") {
                self.i += 3;
                break;
            }
            return Err("text block: bad termination".into());
        }
        if chomp {
            if let Some(t) = s.strip_suffix('\n') {
                s = t.to_string();
            }
        }
        Ok(K::TextBlock(s))
    }
}

pub fn ref_lex(input: &[u8]) -> LexRes {
    RefLex::new(input).lex()
}

// ------------------------------------------------------------------ the implementation

fn stoken_text(k: rsjsonnet_lang::token::STokenKind) -> &'static str {
    use rsjsonnet_lang::token::STokenKind::*;
    match k {
        Assert => "assert",
        Else => "else",
        Error => "error",
        False => "false",
        For => "for",
        Function => "function",
        If => "if",
        Import => "import",
        Importstr => "importstr",
        Importbin => "importbin",
        In => "in",
        Local => "local",
        Null => "null",
        Tailstrict => "tailstrict",
        Then => "then",
        Self_ => "self",
        Super => "super",
        True => "true",
        Exclam => "!",
        ExclamEq => "!=",
        Dollar => "$",
        Percent => "%",
        Amp => "&",
        AmpAmp => "&&",
        LeftParen => "(",
        RightParen => ")",
        Asterisk => "*",
        Plus => "+",
        PlusColon => "+:",
        PlusColonColon => "+::",
        PlusColonColonColon => "+:::",
        Comma => ",",
        Minus => "-",
        Dot => ".",
        Slash => "/",
        Colon => ":",
        ColonColon => "::",
        ColonColonColon => ":::",
        Semicolon => ";",
        Lt => "<",
        LtLt => "<<",
        LtEq => "<=",
        Eq => "=",
        EqEq => "==",
        Gt => ">",
        GtEq => ">=",
        GtGt => ">>",
        LeftBracket => "[",
        RightBracket => "]",
        Hat => "^",
        LeftBrace => "{",
        Pipe => "|",
        PipePipe => "||",
        RightBrace => "}",
        Tilde => "~",
    }
}

/// Ok(tokens) or Err((error variant, span start, span end))
pub fn impl_lex(input: &[u8], trivia: bool) -> Result<Vec<Tok>, (String, usize, usize)> {
    let arena = Arena::new();
    let ast_arena = Arena::new();
    let interner = StrInterner::new();
    let mut mgr = SpanManager::new();
    let (ctx, _) = mgr.insert_source_context(input.len());
    let lexer = Lexer::new(&arena, &ast_arena, &interner, &mut mgr, ctx, input);
    match lexer.lex_to_eof(trivia) {
        Ok(toks) => Ok(toks
            .iter()
            .map(|t| {
                let (_, s, e) = mgr.get_span(t.span);
                let k = match t.kind {
                    TokenKind::EndOfFile => K::Eof,
                    TokenKind::Whitespace => K::Ws,
                    TokenKind::Comment => K::Comment,
                    TokenKind::Simple(k) => K::Simple(stoken_text(k).to_string()),
                    TokenKind::OtherOp(s) => K::OtherOp(s.to_string()),
                    TokenKind::Ident(s) => K::Ident(s.value().to_string()),
                    TokenKind::Number(n) => {
                        let (d, e) = norm_number(n.digits, n.exp);
                        K::Number(d, e)
                    }
                    TokenKind::String(s) => K::Str(s.to_string()),
                    TokenKind::TextBlock(s) => K::TextBlock(s.to_string()),
                };
                (k, s, e)
            })
            .collect()),
        Err(e) => {
            let spans = crate::rt::load_error_spans(&rsjsonnet_lang::program::LoadError::Lex(e.clone()));
            let (s, en) = spans.first().map(|sp| { let (_, s, e) = mgr.get_span(*sp); (s, e) }).unwrap_or((usize::MAX, usize::MAX));
            Err((crate::rt::variant_name(&format!("{e:?}")), s, en))
        }
    }
}

fn is_trivia(k: &K) -> bool {
    matches!(k, K::Ws | K::Comment)
}

/// Checks one input; returns the violation (signature, description) if any.
pub fn check_input(input: &[u8]) -> (Option<(String, String)>, &'static str) {
    let model = ref_lex(input);
    let with = util::catch(|| impl_lex(input, true));
    let without = util::catch(|| impl_lex(input, false));
    let (with, without) = match (with, without) {
        (Ok(a), Ok(b)) => (a, b),
        (Err(m), _) | (_, Err(m)) => return (Some((format!("C14/panic/{}", util::panic_site(&m)), format!("lexer panicked: {m}"))), "panic"),
    };
    let len = input.len();
    match (&model, &with, &without) {
        (Ok(m), Ok(w), Ok(wo)) => {
            // tiling
            let mut pos = 0;
            for (k, s, e) in w {
                if *s != pos || e < s || *e > len {
                    return (Some(("C14/tiling".into(), format!("token {k:?} spans {s}..{e}, expected start {pos}"))), "ok");
                }
                pos = *e;
                let text = &input[*s..*e];
                match k {
                    K::Ws if !text.iter().all(|b| matches!(b, b' ' | b'\t' | b'\n' | b'\r')) || text.is_empty() => {
                        return (Some(("C14/trivia".into(), format!("whitespace token covers {text:?}"))), "ok");
                    }
                    K::Comment if !(text.starts_with(b"#") || text.starts_with(b"//") || text.starts_with(b"/*")) => {
                        return (Some(("C14/trivia".into(), format!("comment token covers {text:?}"))), "ok");
                    }
                    _ => {}
                }
            }
            match w.last() {
                Some((K::Eof, s, e)) if *s == len && *e == len && pos == len => {}
                other => return (Some(("C14/tiling".into(), format!("last token {other:?}, input length {len}"))), "ok"),
            }
            let filtered: Vec<&Tok> = w.iter().filter(|t| !is_trivia(&t.0)).collect();
            if filtered.len() != wo.len() || filtered.iter().zip(wo.iter()).any(|(a, b)| *a != b) {
                return (Some(("C14/trivia-filter".into(), "lex_to_eof(false) differs from lex_to_eof(true) minus whitespace and comments".into())), "ok");
            }
            let mf: Vec<&Tok> = m.iter().filter(|t| !is_trivia(&t.0)).collect();
            if mf.len() != wo.len() {
                return (Some(("C14/tokens".into(), format!("model tokens {mf:?}, implementation {wo:?}"))), "ok");
            }
            for (a, b) in mf.iter().zip(wo.iter()) {
                if *a != b {
                    let sig = match (&a.0, &b.0) {
                        (K::Number(..), _) | (_, K::Number(..)) => "C14/number-value",
                        (K::Str(_), K::Str(_)) => "C14/string-value",
                        (K::TextBlock(_), K::TextBlock(_)) => "C14/textblock-value",
                        (K::Simple(_) | K::OtherOp(_), K::Simple(_) | K::OtherOp(_)) => "C14/operator-munch",
                        _ => "C14/tokens",
                    };
                    return (Some((sig.into(), format!("model token {a:?}, implementation {b:?}"))), "ok");
                }
            }
            (None, "ok")
        }
        (Err(_), Err((_, s, e)), Err((_, s2, e2))) => {
            if !(s <= e && *e <= len) || !(s2 <= e2 && *e2 <= len) {
                return (Some(("C14/error-span".into(), format!("error span {s}..{e} outside input of length {len}"))), "error");
            }
            (None, "error")
        }
        (Ok(m), Err((k, ..)), _) | (Ok(m), _, Err((k, ..))) => {
            let sig = if matches!(m.first(), Some((K::Number(..), ..))) || m.iter().any(|t| matches!(t.0, K::Number(..))) { "C14/rejected-valid/number" } else { "C14/rejected-valid" };
            (Some((format!("{sig}/{k}"), format!("model accepts ({} tokens) but the implementation fails with {k}", m.len()))), "mismatch")
        }
        (Err(me), Ok(w), _) | (Err(me), _, Ok(w)) => {
            let sig = if me.contains("underscore") { "C14/number/underscore-before-dot-or-exp".to_string() } else { format!("C14/accepted-invalid/{}", me.split(':').next().unwrap_or("")) };
            (Some((sig, format!("model rejects ({me}) but the implementation lexes {} tokens: {:?}", w.len(), w.iter().take(6).collect::<Vec<_>>()))), "mismatch")
        }
    }
}

fn record(rep: &mut Report, input: &[u8], sample_every: u64) {
    rep.evaluations += 1;
    rep.traces_validated += 1;
    rep.states += 1;
    let (v, class) = check_input(input);
    rep.transitions += input.len() as u64 + 1;
    rep.outcome(class);
    if let Some((sig, what)) = v {
        rep.violation(
            sig,
            format!("input {:?}: {what}", String::from_utf8_lossy(input)),
            json!({"type":"lex","bytes": input}),
        );
    }
    if rep.evaluations % sample_every == 1 {
        rep.sample(json!({"bytes": String::from_utf8_lossy(input)}));
    }
}

pub const BYTE_ALPHABET: &[&[u8]] = &[
    b"{", b"}", b"[", b"]", b",", b".", b"(", b")", b";", b"/", b"*", b"|", b"!", b"$", b":", b"~", b"+", b"-", b"&", b"^", b"=", b"<",
    b">", b"%", b" ", b"\t", b"\n", b"\r", b"#", b"0", b"1", b"_", b"a", b"e", b"E", b"x", b"@", b"'", b"\"", b"\\", b"u", b"\xC3",
    b"\xA9", b"\xE2", b"\x82", b"\xAC", b"\xF0", b"\x9F", b"\x98", b"\x80", b"\xED", b"\xA0", b"\xFF", b"\xC0",
];

fn distinct_key(input: &[u8], rep: &mut Report) {
    // distinct non-trivial: distinct sequences of model token kinds (or error texts)
    let key: Vec<String> = match ref_lex(input) {
        Ok(t) => t.iter().map(|(k, ..)| match k {
            K::Simple(s) | K::OtherOp(s) => s.clone(),
            K::Ident(_) => "id".into(),
            K::Number(..) => "num".into(),
            K::Str(_) => "str".into(),
            K::TextBlock(_) => "tb".into(),
            K::Ws => "ws".into(),
            K::Comment => "c".into(),
            K::Eof => "eof".into(),
        }).collect(),
        Err(e) => vec![e],
    };
    rep.distinct(&key);
}

fn sweep_bytes(len: usize, sh: &util::Shard) -> Report {
    let mut rep = Report::new();
    let a = BYTE_ALPHABET;
    let mut idx = 0u64;
    util::for_each_seq(a.len(), len, |seq| {
        let mine = sh.mine(idx);
        idx += 1;
        if !mine {
            return;
        }
        let mut input = Vec::new();
        for &i in seq {
            input.extend_from_slice(a[i]);
        }
        record(&mut rep, &input, 400_003);
        if len <= 3 {
            distinct_key(&input, &mut rep);
        }
    });
    rep
}

fn list_sweep(cases: &[Vec<u8>], sh: &util::Shard) -> Report {
    let mut rep = Report::new();
    for (i, c) in cases.iter().enumerate() {
        if sh.mine(i as u64) {
            record(&mut rep, c, 50_021);
            distinct_key(c, &mut rep);
        }
    }
    rep
}

pub fn operator_cases() -> Vec<Vec<u8>> {
    let mut v = Vec::new();
    let chars = OPCH;
    for len in 1..=4 {
        util::for_each_seq(chars.len(), len, |seq| {
            let s: Vec<u8> = seq.iter().map(|&i| chars[i]).collect();
            v.push(s.clone());
            let mut t = b"a".to_vec();
            t.extend_from_slice(&s);
            t.extend_from_slice(b"1");
            v.push(t);
        });
    }
    v
}

pub fn number_cases(maxlen: usize) -> Vec<Vec<u8>> {
    let chars = b"019.eE+-_";
    let mut v = Vec::new();
    for len in 1..=maxlen {
        util::for_each_seq(chars.len(), len, |seq| {
            if !(b'0'..=b'9').contains(&chars[seq[0]]) {
                return;
            }
            v.push(seq.iter().map(|&i| chars[i]).collect());
        });
    }
    // exponents around and beyond 64 bits, with integer, one-digit and many-digit fractions
    for mant in ["0", "1", "12", "0.0", "1.5", "1.25", "0.001", "12_3.4_56", "9.999999999999999999999"] {
        for e in ["9223372036854775806", "9223372036854775807", "9223372036854775808", "9223372036854775809", "18446744073709551615", "18446744073709551616", "99999999999999999999", "9_223372036854775807", "1000000000000000", "999999999999999"] {
            for sign in ["", "+", "-"] {
                for ech in ["e", "E"] {
                    v.push(format!("{mant}{ech}{sign}{e}").into_bytes());
                }
            }
        }
    }
    v
}

pub fn string_cases(quick: bool) -> Vec<Vec<u8>> {
    let mut v: Vec<Vec<u8>> = Vec::new();
    let wrap = |pre: &[u8], body: &[u8], post: &[u8]| {
        let mut x = pre.to_vec();
        x.extend_from_slice(body);
        x.extend_from_slice(post);
        x
    };
    // every Unicode scalar value inside each literal form and inside comments
    let step = if quick { 1 } else { 1 };
    let mut cp = 0u32;
    while cp <= 0x10FFFF {
        if let Some(c) = char::from_u32(cp) {
            let mut buf = [0u8; 4];
            let s = c.encode_utf8(&mut buf).as_bytes().to_vec();
            v.push(wrap(b"\"", &s, b"\""));
            v.push(wrap(b"/*", &s, b"*/1"));
            if !quick || cp < 0x3000 || cp % 7 == 0 {
                v.push(wrap(b"'", &s, b"'"));
                v.push(wrap(b"@\"", &s, b"\""));
                v.push(wrap(b"@'", &s, b"'"));
                v.push(wrap(b"|||\n  ", &s, b"\n|||"));
                v.push(wrap(b"#", &s, b"\n1"));
                v.push(wrap(b"\"\\", &s, b"\""));
            }
        }
        cp += step;
    }
    // every \uXXXX
    for cu in 0..=0xFFFFu32 {
        v.push(format!("\"\\u{cu:04x}\"").into_bytes());
        v.push(format!("'\\u{cu:04X}x'").into_bytes());
    }
    // surrogate pairs at the borders
    let highs = [0xD7FFu32, 0xD800, 0xD801, 0xDBFF, 0xDC00, 0xDFFF, 0xE000];
    let lows = [0xDBFFu32, 0xDC00, 0xDC01, 0xDFFF, 0xE000, 0x0041, 0xD800];
    for h in highs {
        for l in lows {
            v.push(format!("\"\\u{h:04x}\\u{l:04x}\"").into_bytes());
            v.push(format!("\"\\u{h:04x}\\n\"").into_bytes());
            v.push(format!("\"\\u{h:04x}\\u{:03x}\"", l >> 4).into_bytes());
        }
    }
    // invalid UTF-8 sequences
    let border: &[u8] = &[0x00, 0x7F, 0x80, 0xBF, 0xC0, 0xC1, 0xC2, 0xDF, 0xE0, 0xED, 0xEF, 0xF0, 0xF4, 0xF5, 0xFF, 0x9F, 0xA0, 0x8F, 0x90];
    let maxlen = if quick { 3 } else { 4 };
    for len in 1..=maxlen {
        util::for_each_seq(border.len(), len, |seq| {
            let s: Vec<u8> = seq.iter().map(|&i| border[i]).collect();
            v.push(wrap(b"\"", &s, b"\""));
            v.push(wrap(b"@'", &s, b"'"));
            v.push(wrap(b"/*", &s, b"*/"));
            v.push(wrap(b"|||\n ", &s, b"\n|||"));
            if len <= 2 {
                v.push(wrap(b"#", &s, b"\n"));
                v.push(wrap(b"1 ", &s, b" 2"));
            }
        });
    }
    // structured 2-, 3- and 4-byte forms: every class of lead byte x the border values of each
    // continuation position (the well-formedness table of the Unicode standard, table 3-7)
    let leads: &[u8] = &[0xC2, 0xDF, 0xE0, 0xE1, 0xEC, 0xED, 0xEE, 0xEF, 0xF0, 0xF1, 0xF3, 0xF4, 0xF5, 0xF8];
    let seconds: &[u8] = &[0x7F, 0x80, 0x8F, 0x90, 0x9F, 0xA0, 0xBF, 0xC0];
    let later: &[u8] = &[0x7F, 0x80, 0xBF, 0xC0];
    for &l in leads {
        for &b2 in seconds {
            for &b3 in later {
                for &b4 in later {
                    let s = [l, b2, b3, b4];
                    v.push(wrap(b"\"", &s, b"\""));
                    v.push(wrap(b"'a", &s, b"b'"));
                    v.push(wrap(b"|||\n ", &s, b"\n|||"));
                    v.push(wrap(b"/*", &s, b"*/"));
                    v.push(wrap(b"", &s, b""));
                    v.push(wrap(b"x", &s, b"y"));
                }
            }
        }
    }
    v
}

pub fn textblock_cases(maxlines: usize) -> Vec<Vec<u8>> {
    let shapes: &[&[u8]] = &[b"\n", b"  a\n", b"    b\n", b" c\n", b"\td\n", b"  e\r\n", b"  |||\n", b"  \n", b"\r\n", b"   \n"];
    let starts: &[&[u8]] = &[b"|||\n", b"|||-\n", b"||| \t\r\n"];
    let ends: &[&[u8]] = &[b"|||", b"  |||", b" |||", b"\t|||", b"    |||", b"x|||", b""];
    let mut v = Vec::new();
    for n in 0..=maxlines {
        util::for_each_seq(shapes.len(), n, |seq| {
            for st in starts {
                for en in ends {
                    let mut x = st.to_vec();
                    for &i in seq {
                        x.extend_from_slice(shapes[i]);
                    }
                    x.extend_from_slice(en);
                    v.push(x.clone());
                    x.extend_from_slice(b" + 1");
                    v.push(x);
                }
            }
        });
    }
    v
}

fn token_text_cases() -> Vec<Vec<u8>> {
    // pairs and triples of token texts with and without separators
    let mut toks: Vec<&[u8]> = vec![b"id", b"_", b"x1", b"1", b"1.5", b"1e3", b"0", b"\"s\"", b"'t'", b"@\"v\"", b"|||\n a\n|||", b"//c\n", b"/*c*/", b"#c\n"];
    for k in KEYWORDS {
        toks.push(k.as_bytes());
    }
    for o in SIMPLE_OPS {
        toks.push(o.as_bytes());
    }
    for p in ["{", "}", "[", "]", ",", ".", "(", ")", ";", "<<=", "=>", "|||"] {
        toks.push(p.as_bytes());
    }
    let seps: &[&[u8]] = &[b"", b" ", b"/**/", b"\n"];
    let mut v = Vec::new();
    for a in &toks {
        for bb in &toks {
            for s in seps {
                let mut x = a.to_vec();
                x.extend_from_slice(s);
                x.extend_from_slice(bb);
                v.push(x);
            }
        }
    }
    for a in &toks {
        for bb in &toks {
            for c in &toks {
                let mut x = a.to_vec();
                x.extend_from_slice(bb);
                x.extend_from_slice(c);
                v.push(x);
            }
        }
    }
    v
}

pub fn run(ctx: &Ctx) -> i32 {
    let mut total = Report::new();
    let cfg = util::ForkCfg { threads: ctx.threads, mem_bytes: 4 << 30, case_timeout_s: 30, died_signature: "C14/abort".into(), resource_is_violation: false };
    let maxlen = if ctx.quick() { 4 } else { 5 };
    for len in 0..=maxlen {
        let shards = if len >= 4 { 256 } else { 16 };
        let r = util::par_forked(&cfg, shards, |sh| sweep_bytes(len, sh));
        total.extra.insert(format!("byte_strings_len{len}"), json!(r.evaluations));
        total.merge(r);
    }
    let lists: Vec<(&str, Vec<Vec<u8>>)> = vec![
        ("operator_clusters", operator_cases()),
        ("number_texts", number_cases(if ctx.quick() { 6 } else { 7 })),
        ("string_bodies", string_cases(ctx.quick())),
        ("text_blocks", textblock_cases(if ctx.quick() { 3 } else { 4 })),
        ("token_sequences", token_text_cases()),
    ];
    for (name, cases) in lists {
        let r = util::par_forked(&cfg, 64, |sh| list_sweep(&cases, sh));
        total.extra.insert(name.to_string(), json!(r.evaluations));
        total.merge(r);
    }
    // very long tokens: one token of n bytes for n around the span encoding's length limits,
    // followed by ` 1`; the spans must tile and the token must carry its whole text
    {
        let sizes: Vec<usize> = if ctx.quick() { vec![(1 << 25) - 1, 1 << 25, (1 << 25) + 1] } else { vec![(1 << 24) + 1, (1 << 25) - 1, 1 << 25, (1 << 25) + 1, (1 << 26) - 1, 1 << 26, (1 << 26) + 1] };
        let kinds = ["string", "verbatim", "comment", "whitespace", "unterminated-comment"];
        let jobs: Vec<(usize, &str)> = sizes.iter().flat_map(|&n| kinds.iter().map(move |&k| (n, k))).collect();
        let lcfg = util::ForkCfg { threads: ctx.threads.min(6), mem_bytes: 6 << 30, case_timeout_s: 120, died_signature: "C14/abort/long-token".into(), resource_is_violation: false };
        let r = util::par_forked(&lcfg, jobs.len(), |sh| {
            let mut rep = Report::new();
            let (n, kind) = jobs[sh.index];
            if !sh.begin_case(0, &|| format!("{kind} token of {n} bytes")) {
                return rep;
            }
            let mut input: Vec<u8> = Vec::with_capacity(n + 2);
            match kind {
                "string" => { input.push(b'"'); input.resize(n - 1, b'a'); input.push(b'"'); }
                "verbatim" => { input.extend_from_slice(b"@'"); input.resize(n - 1, b'a'); input.push(b'\''); }
                "comment" => { input.extend_from_slice(b"/*"); input.resize(n - 2, b'a'); input.extend_from_slice(b"*/"); }
                "whitespace" => input.resize(n, b' '),
                _ => { input.extend_from_slice(b"/*"); input.resize(n, b'a'); }
            }
            let tail = kind != "unterminated-comment";
            if tail {
                input.extend_from_slice(b" 1");
            }
            rep.evaluations += 1;
            rep.states += 1;
            rep.traces_validated += 1;
            rep.transitions += 4;
            let case = json!({"type":"long-token","kind":kind,"bytes_len":n});
            match util::catch(|| impl_lex(&input, true)) {
                Err(m) => rep.violation(format!("C14/panic/{}", util::panic_site(&m)), format!("{kind} token of {n} bytes: {m}"), case),
                Ok(Ok(toks)) => {
                    rep.outcome("long-token:lexed");
                    let mut pos = 0usize;
                    let mut bad = None;
                    for (k, s, e) in &toks {
                        if *s != pos || e < s {
                            bad = Some(format!("token {k:?} spans {s}..{e}, expected to start at {pos}"));
                            break;
                        }
                        pos = *e;
                    }
                    if bad.is_none() && pos != input.len() {
                        bad = Some(format!("tokens end at {pos}, input has {} bytes", input.len()));
                    }
                    let first_ok = match (kind, toks.first()) {
                        ("string", Some((K::Str(v), 0, e))) => *e == n && v.len() == n - 2,
                        ("verbatim", Some((K::Str(v), 0, e))) => *e == n && v.len() == n - 3,
                        ("comment", Some((K::Comment, 0, e))) => *e == n,
                        ("whitespace", Some((K::Ws, 0, e))) => *e == n + 1,
                        _ => false,
                    };
                    if !tail {
                        bad = Some("an unterminated comment was accepted".into());
                    } else if bad.is_none() && !first_ok {
                        bad = Some(format!("first token is {:?}", toks.first().map(|t| (format!("{:?}", t.0).chars().take(20).collect::<String>(), t.1, t.2))));
                    }
                    if let Some(b) = bad {
                        rep.violation("C14/long-token/tiling", format!("{kind} token of {n} bytes: {b}"), case);
                    }
                }
                Ok(Err((variant, s, e))) => {
                    rep.outcome("long-token:error");
                    if tail || !(s <= e && e <= input.len()) {
                        rep.violation("C14/long-token/rejected-or-misplaced-error", format!("{kind} token of {n} bytes: {variant} at {s}..{e}"), case);
                    }
                }
            }
            rep.distinct(&(kind, n));
            rep
        });
        total.extra.insert("long_tokens".into(), json!(r.evaluations));
        total.merge(r);
    }
    util::finish(
        ctx,
        LevelInfo {
            level: "model_checking",
            rule: "all byte strings up to the length bound over a 54-symbol byte alphabet; single tokens of 2^25-1 .. 2^26+1 bytes (string, verbatim string, comment, whitespace, unterminated comment); all operator clusters of length <=4; all number texts up to the length bound over `019.eE+-_`; every Unicode scalar value in every literal form and comment; every \\uXXXX and border surrogate pairs; all invalid UTF-8 sequences over 19 border bytes; all text blocks of <=3/4 lines over 10 line shapes; pairs/triples of token texts. Model = ref_lex (lexical grammar). distinct+nontrivial = distinct model token-kind sequences".into(),
            assumptions: vec![
                "ref_lex implements the Jsonnet lexical grammar (numbers per the 0.22 grammar with digit separators)".into(),
                "for rejected inputs only rejection and a located span inside the input are compared".into(),
            ],
        },
        total,
    )
}

pub fn replay(v: &serde_json::Value) -> i32 {
    let bytes: Vec<u8> = v["case"]["bytes"].as_array().map(|a| a.iter().map(|x| x.as_u64().unwrap() as u8).collect()).unwrap_or_default();
    println!("input {:?}", String::from_utf8_lossy(&bytes));
    println!("  model: {:?}", ref_lex(&bytes));
    println!("  implementation: {:?}", impl_lex(&bytes, true));
    match check_input(&bytes).0 {
        Some((sig, what)) => {
            println!("  {sig}: {what}");
            1
        }
        None => 0,
    }
}
