//! C19 — std.format and % follow printf-style formatting for every directive and value.
//! Two independent printf implementations (C snprintf, Python %) answer the same batch; the
//! implementation is compared digit for digit wherever the two agree with each other.
use crate::oracle;
use crate::rt::{self, Outcome, RunCfg};
use crate::syntax::escape_str;
use crate::util::{self, Ctx, LevelInfo, Report};
use rsjsonnet_lang::arena::Arena;
use rsjsonnet_lang::program::Program;
use serde_json::{Value as J, json};

#[derive(Clone, Debug)]
enum Val {
    Int(i64),
    Float(f64),
    Str(String),
}

impl Val {
    fn src(&self) -> String {
        match self {
            Val::Int(i) => if *i < 0 { format!("({i})") } else { i.to_string() },
            Val::Float(f) => crate::c06::lit(*f),
            Val::Str(s) => escape_str(s),
        }
    }
    fn as_f64(&self) -> Option<f64> {
        match self {
            Val::Int(i) => Some(*i as f64),
            Val::Float(f) => Some(*f),
            Val::Str(_) => None,
        }
    }
}

fn values(quick: bool) -> Vec<Val> {
    let mut v = vec![
        Val::Int(0), Val::Int(1), Val::Int(-1), Val::Int(5), Val::Int(-5), Val::Int(42), Val::Int(255), Val::Int(65536), Val::Int(2147483648), Val::Int(9007199254740991), Val::Int(-9007199254740991),
        Val::Float(0.5), Val::Float(1.5), Val::Float(2.5), Val::Float(-2.5), Val::Float(0.125), Val::Float(-0.0), Val::Float(3.14159), Val::Float(1234567.891), Val::Float(0.000123456), Val::Float(1e21), Val::Float(1e22),
        Val::Float(5e-324), Val::Float(f64::MAX), Val::Float(99.5), Val::Float(0.05), Val::Float(1e-5), Val::Float(123456789.0), Val::Float(9.9999),
        Val::Str("".into()), Val::Str("a".into()), Val::Str("éé".into()), Val::Str("😀".into()), Val::Str("ééé".into()), Val::Str("abc def".into()),
    ];
    if quick {
        v = v.into_iter().enumerate().filter(|(i, _)| i % 2 == 0 || *i > 28).map(|(_, x)| x).collect();
    }
    v
}

const CONVS: &[char] = &['d', 'i', 'u', 'o', 'x', 'X', 'e', 'E', 'f', 'F', 'g', 'G', 'c', 's', '%'];
const FLAGS: &[char] = &['#', '0', '-', ' ', '+'];

struct Case {
    fmt: String,
    conv: char,
    width: Option<usize>,
    val: Option<Val>,
    /// request lines for the oracles
    c_line: Option<String>,
    py: J,
}

fn esc_c(s: &str) -> String {
    s.replace('\\', "\\x5c").replace('\t', "\\x09").replace('\n', "\\x0a")
}

fn make_case(flags: &str, width: Option<usize>, prec: Option<Option<usize>>, conv: char, val: &Val) -> Option<Case> {
    let mut fmt = String::from("%");
    fmt.push_str(flags);
    if let Some(w) = width {
        fmt.push_str(&w.to_string());
    }
    if let Some(p) = prec {
        fmt.push('.');
        if let Some(p) = p {
            fmt.push_str(&p.to_string());
        }
    }
    fmt.push(conv);
    let (c_line, py, v) = match conv {
        '%' => (Some(format!("{}\tn\t0", esc_c(&fmt))), json!({"op":"fmt","fmt":fmt,"args":[]}), None),
        'd' | 'i' | 'u' | 'o' | 'x' | 'X' => {
            let x = val.as_f64()?;
            if x.abs() >= 9007199254740992.0 {
                return None;
            }
            let t = x.trunc() as i64;
            if x != x.trunc() && !matches!(conv, 'd' | 'i' | 'u') {
                return None; // Python rejects non-integers for o/x/X
            }
            (Some(format!("{}\ti\t{t}", esc_c(&fmt))), json!({"op":"fmt","fmt":fmt,"args":[["i", t]],"single":true}), Some(val.clone()))
        }
        'e' | 'E' | 'f' | 'F' | 'g' | 'G' => {
            let x = val.as_f64()?;
            (Some(format!("{}\tf\t{}", esc_c(&fmt), x.to_bits())), json!({"op":"fmt","fmt":fmt,"args":[["f", x.to_bits()]],"single":true}), Some(val.clone()))
        }
        'c' => match val {
            Val::Int(i) if (1..128).contains(i) => (Some(format!("{}\tc\t{i}", esc_c(&fmt))), json!({"op":"fmt","fmt":fmt,"args":[["i", i]],"single":true}), Some(val.clone())),
            Val::Int(i) if (128..0x110000).contains(i) && !(0xD800..0xE000).contains(i) => (None, json!({"op":"fmt","fmt":fmt,"args":[["i", i]],"single":true}), Some(val.clone())),
            Val::Str(s) if s.chars().count() == 1 => (None, json!({"op":"fmt","fmt":fmt,"args":[["s", s]],"single":true}), Some(val.clone())),
            _ => return None,
        },
        's' => match val {
            Val::Str(s) => (if s.is_ascii() { Some(format!("{}\ts\t{}", esc_c(&fmt), esc_c(s))) } else { None }, json!({"op":"fmt","fmt":fmt,"args":[["s", s]],"single":true}), Some(val.clone())),
            Val::Int(i) => (Some(format!("{}\ts\t{i}", esc_c(&fmt))), json!({"op":"fmt","fmt":fmt,"args":[["i", i]],"single":true}), Some(val.clone())),
            _ => return None,
        },
        _ => return None,
    };
    Some(Case { fmt, conv, width, val: v, c_line, py })
}

fn flag_subsets() -> Vec<String> {
    (0..32u32).map(|m| FLAGS.iter().enumerate().filter(|(i, _)| m & (1 << i) != 0).map(|(_, c)| *c).collect()).collect()
}

fn grid(quick: bool) -> Vec<Case> {
    let vals = values(quick);
    let widths: Vec<Option<usize>> = vec![None, Some(0), Some(1), Some(3), Some(5), Some(20)];
    let precs: Vec<Option<Option<usize>>> = if quick { vec![None, Some(Some(0)), Some(Some(1)), Some(Some(6)), Some(None)] } else { vec![None, Some(Some(0)), Some(Some(1)), Some(Some(6)), Some(Some(17)), Some(Some(20)), Some(None)] };
    let mut out = Vec::new();
    for conv in CONVS {
        for flags in flag_subsets() {
            for w in &widths {
                for p in &precs {
                    if *conv == '%' {
                        if let Some(c) = make_case(&flags, *w, *p, *conv, &Val::Int(0)) {
                            out.push(c);
                        }
                        continue;
                    }
                    let cvals: Vec<Val> = if *conv == 'c' { vec![Val::Int(65), Val::Int(233), Val::Int(128512), Val::Str("é".into()), Val::Str("x".into())] } else { vals.clone() };
                    for v in &cvals {
                        if let Some(c) = make_case(&flags, *w, *p, *conv, v) {
                            out.push(c);
                        }
                    }
                }
            }
        }
    }
    // deep precisions: every digit a binary64 value has (up to 1074 fractional positions for
    // %f, 767 significant digits for %e) around the implementation's internal limits
    let deep_vals = [5e-324, 2.2250738585072014e-308, 1e-300, 3e-200, 1e-100, 0.1, 1.0 / 3.0, 3.14159, 0.5, 1e15 + 0.25, 123456.789e-250];
    let deep_precs: &[usize] = if quick { &[30, 340, 767, 768, 769, 800, 1074, 1100, 1101, 1200] } else { &[25, 30, 50, 100, 340, 400, 700, 766, 767, 768, 769, 770, 800, 1000, 1073, 1074, 1075, 1099, 1100, 1101, 1102, 1200, 2000] };
    for conv in ['e', 'E', 'f', 'F', 'g', 'G'] {
        for flags in ["", "#", "+0"] {
            for w in [None, Some(1300)] {
                for p in deep_precs {
                    for v in deep_vals {
                        for v in [v, -v] {
                            if let Some(c) = make_case(flags, w, Some(Some(*p)), conv, &Val::Float(v)) {
                                out.push(c);
                            }
                        }
                    }
                }
            }
        }
    }
    out
}

fn eval<'p>(p: &mut Program<'p>, src: &str) -> Outcome {
    match util::catch(|| rt::run_on(p, src.as_bytes(), &RunCfg::default())) {
        Ok(r) => r.outcome,
        Err(m) => Outcome::Panic(m),
    }
}

fn out_string(o: &Outcome) -> Option<String> {
    match o {
        Outcome::Value(s) => serde_json::from_str::<String>(s).ok(),
        _ => None,
    }
}

fn grid_sweep(cases: &[Case], c_ans: &[Option<String>], py_ans: &[J], sh: &util::Shard) -> Report {
    let mut rep = Report::new();
    let arena = Arena::new();
    let mut p = Program::new(&arena);
    for (i, c) in cases.iter().enumerate() {
        if !sh.mine(i as u64) {
            continue;
        }
        let src = match &c.val {
            Some(v) => format!("{} % [{}]", escape_str(&c.fmt), v.src()),
            None => format!("{} % []", escape_str(&c.fmt)),
        };
        let o = eval(&mut p, &src);
        rep.evaluations += 1;
        rep.states += 1;
        rep.traces_validated += 1;
        rep.transitions += 1;
        let case = json!({"type":"format","source":src});
        let py = py_ans[i]["v"].as_str();
        let cc = c_ans[i].as_deref();
        if let Outcome::Panic(m) = &o {
            rep.violation(format!("C19/panic/{}", util::panic_site(m)), format!("`{src}`: {m}"), case);
            continue;
        }
        let got = out_string(&o);
        // std.format and % are the same function
        // field width in characters
        if let (Some(g), Some(w)) = (&got, c.width) {
            if g.chars().count() < w {
                rep.violation("C19/field-shorter-than-width", format!("`{src}` renders {g:?}: {} characters for width {w}", g.chars().count()), case.clone());
                continue;
            }
        }
        let magnitude_ok = c.val.as_ref().and_then(|v| v.as_f64()).is_none_or(|x| x.abs() < 9007199254740992.0);
        let coincide = match (py, cc) {
            (Some(a), Some(b)) => a == b,
            (Some(_), None) => c.c_line.is_none(), // no C answer possible (non-ASCII): Python alone
            _ => false,
        };
        let exact_conv = matches!(c.conv, 'd' | 'i' | 'u' | 'o' | 'x' | 'X' | 'e' | 'E' | 'f' | 'F' | 'c' | 's' | '%');
        if coincide && exact_conv && magnitude_ok {
            rep.outcome("coinciding:compared");
            let want = py.unwrap();
            if got.as_deref() != Some(want) {
                let neg_zero = matches!(&c.val, Some(Val::Float(f)) if *f == 0.0 && f.is_sign_negative());
                // known findings are recognised by their exact symptom, nothing broader:
                // only the minus sign of -0.0 missing / only the %s precision not applied
                // (the mantissa sign position: `-` expected, nothing / `+` / space rendered)
                let strip = |t: &str| {
                    let t = t.trim_matches(' ');
                    let (mant, exp) = match t.find(['e', 'E']) { Some(p) => (&t[..p], &t[p..]), None => (t, "") };
                    format!("{}{exp}", mant.replace(['-', '+'], "").trim_matches(' ').trim_start_matches('0'))
                };
                let mant_of = |t: &str| t.split(['e', 'E']).next().unwrap_or("").to_string();
                let only_sign_missing = got.as_ref().is_some_and(|g| !mant_of(g).contains('-') && mant_of(want).contains('-') && strip(g) == strip(want));
                let only_precision_ignored = got.as_ref().is_some_and(|g| g.trim().starts_with(want.trim()) && g.chars().count() >= want.chars().count());
                let sig = if neg_zero && only_sign_missing {
                    "C19/negative-zero-sign".to_string()
                } else if c.conv == 's' && c.fmt.contains('.') && only_precision_ignored {
                    "C19/string-precision-ignored".to_string()
                } else if c.fmt.ends_with(&format!(".{}", c.conv)) && got.is_none() {
                    "C19/empty-precision-rejected".to_string()
                } else if c.conv == '%' {
                    "C19/percent-with-flags".to_string()
                } else {
                    format!("C19/differs-from-printf/%{}", c.conv)
                };
                rep.violation(sig, format!("`{src}` renders {}, C and Python both render {want:?}", got.as_ref().map(|g| format!("{g:?}")).unwrap_or_else(|| o.short())), case);
            }
        } else {
            rep.outcome(if py.is_some() || cc.is_some() { "conventions-differ:shape-only" } else { "both-oracles-reject" });
            // shape invariants for g/G and large magnitudes: the text parses back close to the value
            if let (Some(g), Some(Val::Float(x))) = (&got, &c.val) {
                if matches!(c.conv, 'g' | 'G' | 'e' | 'E' | 'f' | 'F') {
                    let t: String = g.trim().trim_start_matches('+').replace(' ', "");
                    if let Ok(back) = t.parse::<f64>() {
                        let tol = x.abs() * 1e-1 + 1e-300;
                        if (back - x).abs() > tol && x.abs() > 1e-300 && c.fmt.contains('.') == false {
                            rep.violation(format!("C19/shape/%{}", c.conv), format!("`{src}` renders {g:?} which is not close to {x:e}"), case);
                        }
                    }
                }
            }
        }
        // the (key) mapping form renders exactly like the positional form
        if let (Some(v), Some(_)) = (&c.val, c.width) {
            if matches!(c.conv, 's' | 'c' | 'd' | 'f' | 'x' | 'e' | 'g') {
                let mfmt = format!("%(k){}", &c.fmt[1..]);
                let msrc = format!("{} % {{k: {}}}", escape_str(&mfmt), v.src());
                let mo = eval(&mut p, &msrc);
                rep.evaluations += 1;
                let mgot = out_string(&mo);
                if let Outcome::Panic(m) = &mo {
                    rep.violation(format!("C19/panic/{}", util::panic_site(m)), format!("`{msrc}`: {m}"), json!({"type":"format","source":msrc}));
                } else if mgot != got {
                    let sig = if mgot.as_ref().zip(c.width).is_some_and(|(g, w)| g.chars().count() < w) { "C19/field-shorter-than-width" } else { "C19/mapping-form-differs-from-positional" };
                    rep.violation(sig, format!("`{msrc}` renders {:?} but the positional form `{src}` renders {:?}", mgot, got), json!({"type":"format","source":msrc}));
                }
            }
        }
        rep.distinct(&(c.conv, c.fmt.len(), c.width, coincide));
        if i % 20_011 == 0 {
            rep.sample(json!({"expr": src, "implementation": got, "c": cc, "python": py}));
        }
    }
    rep
}

// ------------------------------------------------------------------ malformed strings and argument counts

/// printf grammar: returns Some(number of arguments consumed) for a well-formed format string
/// whose conversions all belong to `convs`, None otherwise.
fn grammar(fmt: &str) -> Option<usize> {
    let cs: Vec<char> = fmt.chars().collect();
    let mut i = 0;
    let mut nargs = 0;
    while i < cs.len() {
        if cs[i] != '%' {
            i += 1;
            continue;
        }
        i += 1;
        if cs.get(i) == Some(&'(') {
            return None; // mapping keys need a mapping argument
        }
        while matches!(cs.get(i), Some('#' | '0' | '-' | ' ' | '+')) {
            i += 1;
        }
        if cs.get(i) == Some(&'*') {
            nargs += 1;
            i += 1;
        } else {
            while matches!(cs.get(i), Some(c) if c.is_ascii_digit()) {
                i += 1;
            }
        }
        if cs.get(i) == Some(&'.') {
            i += 1;
            if cs.get(i) == Some(&'*') {
                nargs += 1;
                i += 1;
            } else {
                while matches!(cs.get(i), Some(c) if c.is_ascii_digit()) {
                    i += 1;
                }
            }
        }
        if matches!(cs.get(i), Some('h' | 'l' | 'L')) {
            i += 1;
        }
        match cs.get(i) {
            Some('%') => {}
            Some('d' | 'i' | 'u' | 'o' | 'x' | 'X' | 'e' | 'E' | 'f' | 'F' | 'g' | 'G' | 'c' | 's') => nargs += 1,
            _ => return None,
        }
        i += 1;
    }
    Some(nargs)
}

fn malformed_sweep(len: usize, sh: &util::Shard) -> Report {
    let alpha: Vec<&str> = vec!["%", "(", ")", "a", "d", "s", ".", "*", "0", "-", "5", "h"];
    let mut rep = Report::new();
    let arena = Arena::new();
    let mut p = Program::new(&arena);
    let mut idx = 0u64;
    let mut py_reqs: Vec<J> = Vec::new();
    let mut pending: Vec<(String, usize, Option<String>, Outcome)> = Vec::new();
    util::for_each_seq(alpha.len(), len, |seq| {
        let mine = sh.mine(idx);
        idx += 1;
        if !mine {
            return;
        }
        let fmt: String = seq.iter().map(|&i| alpha[i]).collect();
        if !fmt.contains('%') {
            return;
        }
        for nargs in 0..=3usize {
            let args: Vec<String> = (0..nargs).map(|k| (k + 1).to_string()).collect();
            let src = format!("{} % [{}]", escape_str(&fmt), args.join(", "));
            let o = eval(&mut p, &src);
            rep.evaluations += 1;
            rep.states += 1;
            rep.transitions += 1;
            if let Outcome::Panic(m) = &o {
                rep.violation(format!("C19/panic/{}", util::panic_site(m)), format!("`{src}`: {m}"), json!({"type":"format","source":src}));
                continue;
            }
            let verdict = grammar(&fmt);
            py_reqs.push(json!({"op":"fmt","fmt":fmt,"args":(0..nargs).map(|k| json!(["i", k + 1])).collect::<Vec<_>>()}));
            pending.push((src, nargs, verdict.map(|n| n.to_string()), o));
        }
    });
    let ans = oracle::python(&py_reqs);
    for ((src, nargs, verdict, o), a) in pending.into_iter().zip(ans.iter()) {
        rep.traces_validated += 1;
        let c_ok = verdict.as_ref().is_some_and(|n| n.parse::<usize>().unwrap() == nargs);
        let py_ok = a["v"].is_string();
        let case = json!({"type":"format","source":src});
        if !c_ok && !py_ok {
            rep.outcome("both-reject");
            if !o.is_fail() {
                let sig = if src.contains('(') && src.contains(')') { "C19/mapping-key-with-array" } else if verdict.is_none() { "C19/malformed-format-accepted" } else { "C19/argument-count-mismatch-accepted" };
                rep.violation(sig, format!("`{src}` is rejected by the printf grammar and by Python but renders {}", o.short()), case);
            }
        } else if c_ok && py_ok {
            rep.outcome("both-accept");
            let want = a["v"].as_str().unwrap();
            // only conversions of the property's list with plain integer arguments: d and s here
            let plain = !src.contains('a') && !src.contains('h');
            if plain {
                match out_string(&o) {
                    Some(g) if g == want => {}
                    Some(g) => {
                        let fmt_part = src.split(" % ").next().unwrap_or("");
                        let sig = if fmt_part.contains('s') && fmt_part.contains('.') { "C19/string-precision-ignored" } else { "C19/differs-from-printf/composite" };
                        rep.violation(sig, format!("`{src}` renders {g:?}, Python renders {want:?}"), case)
                    }
                    None => rep.violation("C19/well-formed-format-rejected", format!("`{src}` is well formed (Python renders {want:?}) but gives {}", o.short()), case),
                }
            }
        } else {
            rep.outcome("oracles-disagree:not-judged");
        }
        rep.distinct(&(c_ok, py_ok, o.is_fail(), nargs));
    }
    rep
}

const SPECIALS: &[(&str, Option<&str>)] = &[
    ("\"%*d|\" % [5, 3]", Some("    3|")),
    ("\"%-*d|\" % [5, 3]", Some("3    |")),
    ("\"%.*f\" % [2, 3.14159]", Some("3.14")),
    ("\"%*.*f|\" % [8, 3, 3.14159]", Some("   3.142|")),
    ("\"%*s|%*s|\" % [3, \"a\", 2, \"b\"]", Some("  a| b|")),
    ("\"%(a)d %(b)s\" % {a: 1, b: \"x\"}", Some("1 x")),
    ("\"%(a)d %(a)d\" % {a: 1, zz: error \"unused\"}", Some("1 1")),
    ("\"%(a)5.1f|\" % {a: 2.25}", Some("  2.2|")),
    ("\"%(missing)d\" % {a: 1}", None),
    ("\"%(a)d\" % 1", None),
    ("\"%d %d\" % [1]", None),
    ("\"%d\" % [1, 2]", None),
    ("\"%d\" % \"a\"", None),
    ("\"%c\" % \"ab\"", None),
    ("\"%c\" % -1", None),
    ("\"%*d\" % [\"a\", 1]", None),
    ("\"%d\" % []", None),
    ("\"%\" % []", None),
    ("\"%z\" % [1]", None),
    ("\"%5\" % [1]", None),
    ("\"%(a\" % {a: 1}", None),
    ("std.format(\"%s %s\", [1, \"a\"])", Some("1 a")),
    ("std.format(\"%05.1f%%\", 12.345)", Some("012.3%")),
    ("\"%s\" % [[1, {a: 2}]] == std.toString([1, {a: 2}])", None),
    ("\"%x %X %o\" % [255, 255, 8]", Some("ff FF 10")),
    ("\"%#x %#X %#o\" % [255, 255, 8]", Some("0xff 0XFF 010")),
    ("\"%+d % d %+d\" % [5, 5, -5]", Some("+5  5 -5")),
    ("\"%e\" % 12345.678", Some("1.234568e+04")),
    ("\"%.0e|%#.0e\" % [5, 5]", Some("5e+00|5.e+00")),
    ("\"%g %g %g %g\" % [100000, 1000000, 0.0001, 0.00001]", Some("100000 1e+06 0.0001 1e-05")),
    ("\"%#g\" % 1", Some("1.00000")),
    ("\"%5%|\" % []", None),
    // %c takes exactly one character
    ("\"%c\" % \"\"", None),
    ("std.format(\"[%3c]\", [\"\"])", None),
    ("\"%(k)c\" % {k: \"\"}", None),
    ("std.format(\"%d%c%s\", [1, \"\", \"x\"])", None),
    ("\"%c\" % \"éé\"", None),
    ("\"%c|%c|%c\" % [\"é\", 233, \"😀\"]", Some("é|é|😀")),
    ("\"%c\" % [[]]", None),
    ("\"%c\" % null", None),
    ("\"%c\" % 1114112", None),
    ("\"%c\" % 55296", None),
    // a negative `*` width is the `-` flag plus the positive width (C and Python agree)
    ("\"%*d|\" % [-5, 3]", Some("3    |")),
    ("\"%*s|%*x|\" % [-3, \"a\", -4, 255]", Some("a  |ff  |")),
    ("\"%-*d|\" % [-5, 3]", Some("3    |")),
    ("\"%0*d|\" % [-5, 3]", Some("3    |")),
    ("\"%*d|\" % [0, 3]", Some("3|")),
    ("\"%*.*f|\" % [-8, 2, 3.14159]", Some("3.14    |")),
];

fn specials(total: &mut Report) {
    let arena = Arena::new();
    let mut p = Program::new(&arena);
    for (src, want) in SPECIALS {
        let o = eval(&mut p, src);
        total.evaluations += 1;
        total.states += 1;
        let case = json!({"type":"format","source":src});
        match (want, &o) {
            (_, Outcome::Panic(m)) => total.violation(format!("C19/panic/{}", util::panic_site(m)), format!("`{src}`: {m}"), case),
            (Some(w), o) => {
                if out_string(o).as_deref() != Some(*w) {
                    let neg_star = src.contains('*') && src.contains("[-");
                    total.violation(if neg_star { "C19/negative-star-width" } else { "C19/special-case" }, format!("`{src}` should render {w:?} but gives {}", o.short()), case);
                }
            }
            (None, o) if src.contains("==") => {
                if *o != Outcome::Value("true".into()) {
                    total.violation("C19/special-case", format!("`{src}` should be true but gives {}", o.short()), case);
                }
            }
            (None, o) if src.contains("%5%") => {
                let _ = o; // conventions differ on flags/width for %%: only "no panic"
            }
            (None, o) => {
                if !o.is_fail() {
                    total.violation(if src.contains("%(") { "C19/mapping-key-with-array" } else { "C19/mismatch-not-reported" }, format!("`{src}` should be an error but gives {}", o.short()), case);
                }
            }
        }
    }
    // (key) with a non-mapping argument
    let o = eval(&mut p, "\"%(k)d\" % [3]");
    if !o.is_fail() {
        total.violation("C19/mapping-key-with-array", format!("`\"%(k)d\" % [3]` should be rejected (a mapping key needs a mapping) but gives {}", o.short()), json!({"type":"format","source":"\"%(k)d\" % [3]"}));
    }
    // extreme widths and precisions: no panic, field at least as wide as requested
    for conv in ['d', 'i', 'u', 'o', 'x', 'X', 'e', 'E', 'f', 'F', 'g', 'G', 'c', 's'] {
        for n in [255usize, 65534, 65535, 65536, 70000] {
            for (fmt, is_width) in [(format!("%{n}{conv}"), true), (format!("%.{n}{conv}"), false), (format!("%-{n}.{n}{conv}"), true)] {
                let arg = if conv == 's' { "\"ab\"" } else if conv == 'c' { "65" } else { "1" };
                let src = format!("std.length(\"{fmt}\" % [{arg}])");
                let o = eval(&mut p, &src);
                total.evaluations += 1;
                total.states += 1;
                let case = json!({"type":"format","source":src});
                match &o {
                    Outcome::Panic(m) => total.violation(if m.contains("Formatting argument out of range") { "C19/panic/precision-above-65535".to_string() } else { format!("C19/panic/{}", util::panic_site(m)) }, format!("`{src}`: {m}"), case),
                    Outcome::Value(s) => {
                        let l: usize = s.trim().parse().unwrap_or(0);
                        if is_width && l < n {
                            total.violation("C19/field-shorter-than-width", format!("`{src}` = {l}"), case.clone());
                        }
                        if !is_width && matches!(conv, 'e' | 'E' | 'f' | 'F') && l < n {
                            total.violation("C19/precision-not-honoured", format!("`{src}` = {l}: fewer characters than the requested precision"), case);
                        }
                    }
                    o if o.is_fail() => total.count("extreme_width_or_precision_rejected", 1),
                    _ => {}
                }
            }
        }
    }
}

pub fn run(ctx: &Ctx) -> i32 {
    let mut total = Report::new();
    let cases = grid(ctx.quick());
    let c_lines: Vec<String> = cases.iter().map(|c| c.c_line.clone().unwrap_or_else(|| "x".into())).collect();
    let c_ans = oracle::cprintf(&c_lines);
    let c_ans: Vec<Option<String>> = cases.iter().zip(c_ans).map(|(c, a)| if c.c_line.is_some() { a } else { None }).collect();
    let py_ans = oracle::python(&cases.iter().map(|c| c.py.clone()).collect::<Vec<_>>());
    let cfg = util::ForkCfg { threads: ctx.threads, mem_bytes: 4 << 30, case_timeout_s: 120, died_signature: "C19/abort".into(), resource_is_violation: false };
    let r = util::par_forked(&cfg, 128, |sh| grid_sweep(&cases, &c_ans, &py_ans, sh));
    total.extra.insert("grid_cases".into(), json!(cases.len()));
    total.merge(r);
    let ml = if ctx.quick() { 4 } else { 5 };
    for len in 1..=ml {
        let r = util::par_forked(&cfg, if len >= 4 { 128 } else { 16 }, |sh| malformed_sweep(len, sh));
        total.extra.insert(format!("format_strings_len{len}_x4_argument_counts"), json!(r.states));
        total.merge(r);
    }
    specials(&mut total);
    util::finish(
        ctx,
        LevelInfo {
            level: "model_checking",
            rule: "15 conversions x all 32 flag subsets x 5 widths x 5/7 precisions x the value pool, rendered by C snprintf and Python % (compared digit for digit where the two coincide; shape invariants otherwise; field width in characters always); all strings up to the length bound over `% ( ) a d s . * 0 - 5 h` x 0..3 arguments judged where the printf grammar and Python agree; `*`, (key) and mismatch cases; extreme widths/precisions 255..70000 for every conversion. distinct+nontrivial = distinct (conversion, directive length, width, coincide) classes".into(),
            assumptions: vec!["C snprintf and Python % are the two printf conventions; where they differ only shape invariants are checked".into()],
        },
        total,
    )
}

pub fn replay(v: &serde_json::Value) -> i32 {
    if let Some(src) = v["case"]["source"].as_str() {
        println!("{src}\n  => {}", rt::run_fresh(src.as_bytes(), &RunCfg::default()).outcome.short());
    }
    1
}
