//! C15 — parsing honours the precedence table and is stable under print -> re-parse.
//! The model is the precedence-table printer of syntax.rs: every enumerated tree is printed in
//! several concrete syntaxes, parsed by the implementation, converted back and compared
//! (modulo parentheses); node spans are compared with the byte ranges the printer recorded;
//! syntax errors must point at a token of the input.
use crate::c14;
use crate::corpus::{self, Profile};
use crate::syntax::{self, *};
use crate::util::{self, Ctx, LevelInfo, Report};
use rsjsonnet_lang::arena::Arena;
use rsjsonnet_lang::ast;
use rsjsonnet_lang::interner::StrInterner;
use rsjsonnet_lang::lexer::Lexer;
use rsjsonnet_lang::parser::{ActualToken, ParseError, Parser};
use rsjsonnet_lang::span::{SpanId, SpanManager};
use rsjsonnet_lang::token::TokenKind;
use serde_json::json;

pub fn canon_num(text: &str) -> String {
    match c14::ref_lex(text.as_bytes()) {
        Ok(t) => match &t[0].0 {
            c14::K::Number(d, e) => format!("{d}@{e}"),
            _ => format!("?{text}"),
        },
        Err(_) => format!("?{text}"),
    }
}

/// model tree with numbers in canonical form
pub fn canon(e: &E) -> E {
    match e {
        E::Num(t) => E::Num(canon_num(t)),
        _ => map_children(e, &|c| canon(c), false),
    }
}

/// implementation tree (numbers as `digits@exp`) -> tree with number texts the model reads
pub fn plain_numbers(e: &E) -> E {
    match e {
        E::Num(t) => E::Num(t.replace('@', "e")),
        _ => map_children(e, &|c| plain_numbers(c), false),
    }
}

struct Conv<'m> {
    mgr: &'m SpanManager,
    spans: Vec<(usize, usize)>,
}

impl<'m> Conv<'m> {
    fn sp(&self, s: SpanId) -> (usize, usize) {
        let (_, a, b) = self.mgr.get_span(s);
        (a, b)
    }
    fn params(&mut self, ps: &[ast::Param<'_, '_>]) -> Vec<Param> {
        ps.iter()
            .map(|p| Param {
                name: p.name.value.value().to_string(),
                default: p.default_value.as_ref().map(|d| self.expr(d)),
            })
            .collect()
    }
    fn bind(&mut self, bd: &ast::Bind<'_, '_>) -> Bind {
        let params = bd.params.map(|(ps, _)| self.params(ps));
        Bind {
            name: bd.name.value.value().to_string(),
            params,
            body: self.expr(&bd.value),
        }
    }
    fn specs(&mut self, ss: &[ast::CompSpecPart<'_, '_>]) -> Vec<Spec> {
        ss.iter()
            .map(|s| match s {
                ast::CompSpecPart::For(f) => Spec::For(f.var.value.value().to_string(), self.expr(&f.inner)),
                ast::CompSpecPart::If(i) => Spec::If(self.expr(&i.cond)),
            })
            .collect()
    }
    fn vis(v: ast::Visibility) -> Vis {
        match v {
            ast::Visibility::Default => Vis::Default,
            ast::Visibility::Hidden => Vis::Hidden,
            ast::Visibility::ForceVisible => Vis::Forced,
        }
    }
    fn field_name(&mut self, n: &ast::FieldName<'_, '_>) -> FieldName {
        match n {
            ast::FieldName::Ident(i) => FieldName::Id(i.value.value().to_string()),
            ast::FieldName::String(s, _) => FieldName::Str(s.value().to_string()),
            ast::FieldName::Expr(e, _) => FieldName::Expr(self.expr(e)),
        }
    }
    fn inside(&mut self, o: &ast::ObjInside<'_, '_>) -> E {
        match o {
            ast::ObjInside::Members(ms) => E::Object(
                ms.iter()
                    .map(|m| match m {
                        ast::Member::Local(l) => Member::Local(self.bind(&l.bind)),
                        ast::Member::Assert(a) => {
                            let c = self.expr(&a.cond);
                            let m = a.msg.as_ref().map(|m| self.expr(m));
                            Member::Assert(c, m)
                        }
                        ast::Member::Field(f) => match f {
                            ast::Field::Value(name, plus, vis, body) => {
                                let name = self.field_name(name);
                                Member::Field { name, plus: *plus, vis: Self::vis(*vis), params: None, body: self.expr(body) }
                            }
                            ast::Field::Func(name, ps, _, vis, body) => {
                                let name = self.field_name(name);
                                let params = Some(self.params(ps));
                                Member::Field { name, plus: false, vis: Self::vis(*vis), params, body: self.expr(body) }
                            }
                        },
                    })
                    .collect(),
            ),
            ast::ObjInside::Comp { locals1, name, plus, body, locals2, comp_spec } => {
                let l1 = locals1.iter().map(|l| self.bind(&l.bind)).collect();
                let n = self.expr(name);
                let bd = self.expr(body);
                let l2 = locals2.iter().map(|l| self.bind(&l.bind)).collect();
                let ss = self.specs(comp_spec);
                E::ObjComp { locals1: l1, name: b(n), plus: *plus, body: b(bd), locals2: l2, specs: ss }
            }
        }
    }
    fn binop(op: ast::BinaryOp) -> BinOp {
        use ast::BinaryOp as A;
        match op {
            A::Add => BinOp::Add,
            A::Sub => BinOp::Sub,
            A::Mul => BinOp::Mul,
            A::Div => BinOp::Div,
            A::Rem => BinOp::Rem,
            A::Shl => BinOp::Shl,
            A::Shr => BinOp::Shr,
            A::Lt => BinOp::Lt,
            A::Le => BinOp::Le,
            A::Gt => BinOp::Gt,
            A::Ge => BinOp::Ge,
            A::Eq => BinOp::Eq,
            A::Ne => BinOp::Ne,
            A::In => BinOp::In,
            A::BitwiseAnd => BinOp::BitAnd,
            A::BitwiseOr => BinOp::BitOr,
            A::BitwiseXor => BinOp::BitXor,
            A::LogicAnd => BinOp::And,
            A::LogicOr => BinOp::Or,
        }
    }
    fn expr(&mut self, e: &ast::Expr<'_, '_>) -> E {
        let my = self.spans.len();
        self.spans.push(self.sp(e.span));
        let _ = my;
        use ast::ExprKind as X;
        match &e.kind {
            X::Null => E::Null,
            X::Bool(true) => E::True,
            X::Bool(false) => E::False,
            X::SelfObj => E::SelfE,
            X::Dollar => E::Dollar,
            X::String(s) => E::Str(s.to_string()),
            X::TextBlock(s) => E::TextBlock(s.to_string()),
            X::Number(n) => {
                let (d, ex) = {
                    let d = n.digits.trim_start_matches('0');
                    if d.is_empty() {
                        ("0".to_string(), 0)
                    } else {
                        let t = d.trim_end_matches('0');
                        (t.to_string(), n.exp + (d.len() - t.len()) as i64)
                    }
                };
                E::Num(format!("{d}@{ex}"))
            }
            X::Paren(x) => E::Paren(b(self.expr(x))),
            X::Object(o) => self.inside(o),
            X::Array(items) => E::Array(items.iter().map(|i| self.expr(i)).collect()),
            X::ArrayComp(body, ss) => {
                let bd = self.expr(body);
                E::ArrComp(b(bd), self.specs(ss))
            }
            X::Field(o, name) => E::Field(b(self.expr(o)), name.value.value().to_string()),
            X::Index(o, i) => {
                let o = self.expr(o);
                E::Index(b(o), b(self.expr(i)))
            }
            X::Slice(o, a, bb, c) => {
                let o = self.expr(o);
                let a = a.map(|x| b(self.expr(x)));
                let bb = bb.map(|x| b(self.expr(x)));
                let c = c.map(|x| b(self.expr(x)));
                E::Slice(b(o), a, bb, c)
            }
            X::SuperField(_, name) => E::SuperField(name.value.value().to_string()),
            X::SuperIndex(_, i) => E::SuperIndex(b(self.expr(i))),
            X::Call(f, args, ts) => {
                let f = self.expr(f);
                let args = args
                    .iter()
                    .map(|a| match a {
                        ast::Arg::Positional(e) => Arg::Pos(self.expr(e)),
                        ast::Arg::Named(n, e) => Arg::Named(n.value.value().to_string(), self.expr(e)),
                    })
                    .collect();
                E::Call(b(f), args, *ts)
            }
            X::Ident(i) => E::Var(i.value.value().to_string()),
            X::Local(binds, body) => {
                let bs = binds.iter().map(|bd| self.bind(bd)).collect();
                E::Local(bs, b(self.expr(body)))
            }
            X::If(c, t, f) => {
                let c = self.expr(c);
                let t = self.expr(t);
                let f = f.map(|x| b(self.expr(x)));
                E::If(b(c), b(t), f)
            }
            X::Binary(l, op, r) => {
                let l = self.expr(l);
                E::Bin(Self::binop(*op), b(l), b(self.expr(r)))
            }
            X::Unary(op, x) => {
                let op = match op {
                    ast::UnaryOp::Minus => UnOp::Neg,
                    ast::UnaryOp::Plus => UnOp::Pos,
                    ast::UnaryOp::BitwiseNot => UnOp::BitNot,
                    ast::UnaryOp::LogicNot => UnOp::Not,
                };
                E::Un(op, b(self.expr(x)))
            }
            X::ObjExt(base, inside, _) => {
                let base = self.expr(base);
                E::ObjExt(b(base), b(self.inside(inside)))
            }
            X::Func(ps, body) => {
                let ps = self.params(ps);
                E::Func(ps, b(self.expr(body)))
            }
            X::Assert(a, body) => {
                let c = self.expr(&a.cond);
                let m = a.msg.as_ref().map(|m| b(self.expr(m)));
                E::Assert(b(c), m, b(self.expr(body)))
            }
            X::Import(p) => E::Import(ImportKind::Code, b(self.expr(p))),
            X::ImportStr(p) => E::Import(ImportKind::Str, b(self.expr(p))),
            X::ImportBin(p) => E::Import(ImportKind::Bin, b(self.expr(p))),
            X::Error(x) => E::Error(b(self.expr(x))),
            X::InSuper(l, _) => E::InSuper(b(self.expr(l))),
        }
    }
}

pub enum Parsed {
    Tree(E, Vec<(usize, usize)>),
    LexError,
    /// (span start, span end, instead description, token spans incl. EOF)
    ParseError {
        span: (usize, usize),
        instead: ActualToken,
        tokens: Vec<(c14::K, usize, usize)>,
    },
}

pub fn impl_parse(src: &[u8]) -> Parsed {
    let arena = Arena::new();
    let ast_arena = Arena::new();
    let interner = StrInterner::new();
    let mut mgr = SpanManager::new();
    let (ctx, _) = mgr.insert_source_context(src.len());
    let lexer = Lexer::new(&arena, &ast_arena, &interner, &mut mgr, ctx, src);
    let Ok(tokens) = lexer.lex_to_eof(false) else {
        return Parsed::LexError;
    };
    let tok_spans: Vec<(TokenKind<'_, '_>, SpanId)> = tokens.iter().map(|t| (t.kind, t.span)).collect();
    let parser = Parser::new(&arena, &ast_arena, &interner, &mut mgr, tokens);
    match parser.parse_root_expr() {
        Ok(root) => {
            let mut c = Conv { mgr: &mgr, spans: Vec::new() };
            let e = c.expr(&root);
            Parsed::Tree(e, c.spans)
        }
        Err(ParseError::Expected { span, instead, .. }) => {
            let (_, a, bb) = mgr.get_span(span);
            let toks = tok_spans
                .iter()
                .map(|(k, sp)| {
                    let (_, s, e) = mgr.get_span(*sp);
                    let kk = match k {
                        TokenKind::EndOfFile => c14::K::Eof,
                        TokenKind::Simple(_) => c14::K::Simple(String::new()),
                        TokenKind::OtherOp(o) => c14::K::OtherOp(o.to_string()),
                        TokenKind::Ident(i) => c14::K::Ident(i.value().to_string()),
                        TokenKind::Number(_) => c14::K::Number(String::new(), 0),
                        TokenKind::String(_) => c14::K::Str(String::new()),
                        TokenKind::TextBlock(_) => c14::K::TextBlock(String::new()),
                        _ => c14::K::Ws,
                    };
                    (kk, s, e)
                })
                .collect();
            Parsed::ParseError { span: (a, bb), instead, tokens: toks }
        }
    }
}

/// Compares model spans (recorded by the printer) with implementation spans along the two
/// trees, skipping parentheses the printer added.
fn span_walk(m: &E, i: &E, ms: &[(usize, usize)], is: &[(usize, usize)], mi: &mut usize, ii: &mut usize, parent: Option<(usize, usize)>) -> Option<String> {
    let mut i = i;
    let mut cur_parent = parent;
    while let (E::Paren(inner), false) = (i, matches!(m, E::Paren(_))) {
        // printer-added parentheses: the paren node must enclose its content
        let ps = is[*ii];
        if let Some(pp) = cur_parent {
            if !(pp.0 <= ps.0 && ps.1 <= pp.1) {
                return Some(format!("paren span {ps:?} not inside parent {pp:?}"));
            }
        }
        cur_parent = Some(ps);
        *ii += 1;
        i = inner;
    }
    let (msp, isp) = (ms[*mi], is[*ii]);
    if msp != isp {
        return Some(format!("node span {isp:?}, expected {msp:?} (first to last token)"));
    }
    if let Some(pp) = cur_parent {
        if !(pp.0 <= isp.0 && isp.1 <= pp.1) {
            return Some(format!("node span {isp:?} not inside parent span {pp:?}"));
        }
    }
    *mi += 1;
    *ii += 1;
    let (mc, ic) = (children(m), children(i));
    if mc.len() != ic.len() {
        return Some("different number of children".into());
    }
    let mut prev_end = isp.0;
    for (a, bb) in mc.iter().zip(ic.iter()) {
        let child_span = is[*ii];
        if child_span.0 < prev_end {
            return Some(format!("sibling spans overlap or are out of order at {child_span:?}"));
        }
        prev_end = child_span.1;
        if let Some(d) = span_walk(a, bb, ms, is, mi, ii, Some(isp)) {
            return Some(d);
        }
    }
    None
}

pub fn check_tree(e: &E, rep: &mut Report, styles: &[(&'static str, Style)]) {
    let want = canon(&strip_parens(e));
    let want_with_parens = canon(e);
    for (sname, st) in styles {
        let (src, mspans) = Printer::print_with_spans(e, *st);
        rep.evaluations += 1;
        rep.traces_validated += 1;
        rep.transitions += 1;
        let parsed = util::catch(|| impl_parse(src.as_bytes()));
        let fail = |rep: &mut Report, sig: &str, what: String| {
            rep.violation(format!("C15/{sig}"), format!("`{src}` [{sname}]: {what}"), json!({"type":"parse","source":src,"style":sname}));
        };
        match parsed {
            Err(m) => fail(rep, &format!("panic/{}", util::panic_site(&m)), format!("parser panicked: {m}")),
            Ok(Parsed::LexError) => fail(rep, "print-not-lexable", "printed text does not lex".into()),
            Ok(Parsed::ParseError { span, .. }) => fail(rep, "print-not-parsable", format!("printed text does not parse (error at {span:?})")),
            Ok(Parsed::Tree(t, ispans)) => {
                let got = strip_parens(&t);
                if got != want {
                    let sig = if matches!(st.parens, Parens::Minimal) { "precedence-or-associativity" } else { "tree-differs" };
                    fail(rep, sig, format!("parsed tree {} differs from the printed tree {}", syntax::print(&got, syntax::FULL), syntax::print(&want, syntax::FULL)));
                    continue;
                }
                rep.outcome("roundtrip-ok");
                let (mut mi, mut ii) = (0, 0);
                if let Some(d) = span_walk(&want_with_parens, &t, &mspans, &ispans, &mut mi, &mut ii, None) {
                    fail(rep, "node-span", d);
                }
            }
        }
    }
}

// ------------------------------------------------------------------ operator trees

fn op_trees(nops: usize, leaves: &[E], out: &mut Vec<E>) {
    // all binary trees with exactly `nops` operators over ALL_BINOPS (+ `in super` as a form)
    fn build(nops: usize, leaf: &mut dyn FnMut() -> E) -> Vec<E> {
        if nops == 0 {
            return vec![leaf()];
        }
        let mut v = Vec::new();
        for l in 0..nops {
            let r = nops - 1 - l;
            let ls = build(l, leaf);
            let rs = build(r, leaf);
            for a in &ls {
                for c in &rs {
                    for op in ALL_BINOPS {
                        v.push(E::Bin(op, b(a.clone()), b(c.clone())));
                    }
                }
            }
        }
        v
    }
    let mut k = 0;
    let mut leaf = || {
        k += 1;
        leaves[k % leaves.len()].clone()
    };
    out.extend(build(nops, &mut leaf));
}

fn decorate(e: &E) -> Vec<E> {
    // operand decorations: unary prefixes and postfix forms applied to the leftmost / rightmost leaf
    let mut v = vec![e.clone()];
    for u in ALL_UNOPS {
        v.push(map_leaf(e, true, &|l| E::Un(u, b(l.clone()))));
        v.push(map_leaf(e, false, &|l| E::Un(u, b(l.clone()))));
    }
    let posts: Vec<Box<dyn Fn(&E) -> E>> = vec![
        Box::new(|l| E::Call(b(l.clone()), vec![Arg::Pos(num(1))], false)),
        Box::new(|l| E::Call(b(l.clone()), vec![Arg::Named("n".into(), num(1))], true)),
        Box::new(|l| E::Field(b(l.clone()), "f".into())),
        Box::new(|l| E::Index(b(l.clone()), b(num(0)))),
        Box::new(|l| E::ObjExt(b(l.clone()), b(E::Object(vec![])))),
        Box::new(|l| E::InSuper(b(l.clone()))),
    ];
    for p in &posts {
        v.push(map_leaf(e, true, &**p));
        v.push(map_leaf(e, false, &**p));
    }
    v
}

fn map_leaf(e: &E, leftmost: bool, f: &dyn Fn(&E) -> E) -> E {
    match e {
        E::Bin(op, l, r) => {
            if leftmost {
                E::Bin(*op, b(map_leaf(l, true, f)), r.clone())
            } else {
                E::Bin(*op, l.clone(), b(map_leaf(r, false, f)))
            }
        }
        other => f(other),
    }
}

fn slice_layouts() -> Vec<E> {
    let o = || b(var("a"));
    let n = |k: i64| Some(b(num(k)));
    let mut v = Vec::new();
    for a in [None, n(1)] {
        for bb in [None, n(2)] {
            for c in [None, n(3)] {
                v.push(E::Slice(o(), a.clone(), bb.clone(), c.clone()));
            }
        }
    }
    v
}

fn syntax_forms() -> Vec<E> {
    let bd = |n: &str, e: E| Bind { name: n.into(), params: None, body: e };
    let fbd = |n: &str, ps: Vec<Param>, e: E| Bind { name: n.into(), params: Some(ps), body: e };
    let pa = |n: &str, d: Option<E>| Param { name: n.into(), default: d };
    let fld = |n: FieldName, plus: bool, vis: Vis, ps: Option<Vec<Param>>, body: E| Member::Field { name: n, plus, vis, params: ps, body };
    let id = |s: &str| FieldName::Id(s.into());
    let mut v = vec![
        E::Null, E::True, E::False, num(0), E::Num("1.5".into()), E::Num("1e3".into()), E::Num("1_000.2_5e1_0".into()), strlit("s"), strlit("q\"\\\n\t\u{1}é😀"),
        E::TextBlock("line1\n\n  indented\n".into()), E::TextBlock("x\n".into()), var("x"), E::SelfE, E::Dollar, E::SuperField("f".into()),
        E::SuperIndex(b(strlit("f"))), E::InSuper(b(strlit("f"))),
        E::Local(vec![bd("a", num(1))], b(var("a"))),
        E::Local(vec![bd("a", num(1)), fbd("f", vec![pa("p", None), pa("q", Some(num(2)))], var("p"))], b(var("a"))),
        E::Func(vec![], b(num(1))), E::Func(vec![pa("p", None), pa("q", Some(var("p")))], b(var("q"))),
        E::Call(b(var("f")), vec![], false), E::Call(b(var("f")), vec![Arg::Pos(num(1)), Arg::Named("n".into(), num(2))], false),
        E::Call(b(var("f")), vec![Arg::Pos(num(1))], true),
        E::If(b(var("c")), b(num(1)), None), E::If(b(var("c")), b(num(1)), Some(b(num(2)))),
        E::If(b(var("c")), b(E::If(b(var("d")), b(num(1)), None)), Some(b(num(2)))),
        E::Array(vec![]), E::Array(vec![num(1)]), E::Array(vec![num(1), num(2), num(3)]),
        E::ArrComp(b(var("i")), vec![Spec::For("i".into(), var("a"))]),
        E::ArrComp(b(var("i")), vec![Spec::For("i".into(), var("a")), Spec::If(var("c")), Spec::For("j".into(), var("i")), Spec::If(var("j"))]),
        E::Index(b(var("a")), b(num(0))), E::Field(b(var("a")), "f".into()), E::Field(b(num(1)), "f".into()),
        E::Object(vec![]),
        E::Object(vec![fld(id("a"), false, Vis::Default, None, num(1)), fld(FieldName::Str("b c".into()), true, Vis::Hidden, None, num(2)), fld(FieldName::Expr(var("k")), false, Vis::Forced, None, num(3)), fld(id("m"), false, Vis::Hidden, Some(vec![pa("p", Some(num(1)))]), var("p")), Member::Local(bd("l", num(1))), Member::Local(fbd("g", vec![pa("p", None)], var("p"))), Member::Assert(var("c"), None), Member::Assert(var("c"), Some(strlit("m")))]),
        E::Object(vec![fld(FieldName::Expr(var("k")), true, Vis::Default, None, num(1))]),
        E::ObjComp { locals1: vec![], name: b(var("k")), plus: false, body: b(num(1)), locals2: vec![], specs: vec![Spec::For("k".into(), var("a"))] },
        E::ObjComp { locals1: vec![bd("l", num(1))], name: b(var("k")), plus: true, body: b(var("l")), locals2: vec![bd("m", num(2)), bd("n", num(3))], specs: vec![Spec::For("k".into(), var("a")), Spec::If(var("c"))] },
        E::ObjExt(b(var("a")), b(E::Object(vec![fld(id("a"), true, Vis::Default, None, num(1))]))),
        E::ObjExt(b(var("a")), b(E::ObjComp { locals1: vec![], name: b(var("k")), plus: false, body: b(num(1)), locals2: vec![], specs: vec![Spec::For("k".into(), var("a"))] })),
        E::Error(b(strlit("e"))), E::Assert(b(var("c")), None, b(num(1))), E::Assert(b(var("c")), Some(b(strlit("m"))), b(num(1))),
        E::Import(ImportKind::Code, b(strlit("f"))), E::Import(ImportKind::Str, b(strlit("f"))), E::Import(ImportKind::Bin, b(strlit("f"))),
        E::Paren(b(num(1))), E::Paren(b(E::Paren(b(E::Bin(BinOp::Add, b(num(1)), b(num(2))))))),
        E::Un(UnOp::Neg, b(num(1))), E::Un(UnOp::Not, b(E::Un(UnOp::Not, b(E::True)))), E::Un(UnOp::Neg, b(E::Un(UnOp::Neg, b(num(1))))),
        E::Bin(BinOp::Add, b(num(1)), b(E::Un(UnOp::Neg, b(num(1))))), E::Bin(BinOp::Sub, b(num(1)), b(E::Un(UnOp::Neg, b(num(1))))),
    ];
    v.extend(slice_layouts());
    v
}

fn contexts(h: &E) -> Vec<E> {
    let fld = |body: E| Member::Field { name: FieldName::Id("a".into()), plus: false, vis: Vis::Default, params: None, body };
    vec![
        h.clone(),
        E::Bin(BinOp::Add, b(h.clone()), b(num(1))),
        E::Bin(BinOp::Mul, b(num(1)), b(h.clone())),
        E::Bin(BinOp::Or, b(h.clone()), b(h.clone())),
        E::Un(UnOp::Neg, b(h.clone())),
        E::Call(b(h.clone()), vec![Arg::Pos(h.clone()), Arg::Named("n".into(), h.clone())], false),
        E::Index(b(h.clone()), b(h.clone())),
        E::Field(b(h.clone()), "f".into()),
        E::Slice(b(h.clone()), Some(b(h.clone())), Some(b(h.clone())), Some(b(h.clone()))),
        E::Slice(b(var("a")), None, Some(b(h.clone())), None),
        E::Array(vec![h.clone(), h.clone()]),
        E::ArrComp(b(h.clone()), vec![Spec::For("i".into(), h.clone()), Spec::If(h.clone())]),
        E::Object(vec![fld(h.clone()), Member::Assert(h.clone(), Some(h.clone())), Member::Field { name: FieldName::Expr(h.clone()), plus: false, vis: Vis::Hidden, params: Some(vec![Param { name: "p".into(), default: Some(h.clone()) }]), body: h.clone() }, Member::Local(Bind { name: "l".into(), params: None, body: h.clone() })]),
        E::ObjComp { locals1: vec![], name: b(h.clone()), plus: false, body: b(h.clone()), locals2: vec![], specs: vec![Spec::For("k".into(), h.clone())] },
        E::ObjExt(b(h.clone()), b(E::Object(vec![fld(h.clone())]))),
        E::Local(vec![Bind { name: "a".into(), params: None, body: h.clone() }], b(h.clone())),
        E::Func(vec![Param { name: "p".into(), default: Some(h.clone()) }], b(h.clone())),
        E::If(b(h.clone()), b(h.clone()), Some(b(h.clone()))),
        E::If(b(h.clone()), b(h.clone()), None),
        E::Error(b(h.clone())),
        E::Assert(b(h.clone()), Some(b(h.clone())), b(h.clone())),
        E::InSuper(b(h.clone())),
        E::SuperIndex(b(h.clone())),
        E::Paren(b(h.clone())),
    ]
}

// ------------------------------------------------------------------ syntax errors

pub const TOKENS: &[&str] = &[
    "assert", "else", "error", "false", "for", "function", "if", "import", "importstr", "importbin", "in", "local", "null", "tailstrict",
    "then", "self", "super", "true", "!", "!=", "$", "%", "&", "&&", "(", ")", "*", "+", "+:", "+::", "+:::", ",", "-", ".", "/", ":", "::",
    ":::", ";", "<", "<<", "<=", "=", "==", ">", ">=", ">>", "[", "]", "^", "{", "|", "||", "}", "~", "id", "1", "\"s\"", "|||\n t\n|||", "<<=",
];

fn check_error_tokens(src: &str, rep: &mut Report) {
    rep.evaluations += 1;
    rep.transitions += 1;
    rep.traces_validated += 1;
    let parsed = util::catch(|| impl_parse(src.as_bytes()));
    match parsed {
        Err(m) => rep.violation(format!("C15/panic/{}", util::panic_site(&m)), format!("`{src}`: parser panicked: {m}"), json!({"type":"parse-error","source":src})),
        Ok(Parsed::Tree(..)) => rep.outcome("parses"),
        Ok(Parsed::LexError) => rep.outcome("lex-error"),
        Ok(Parsed::ParseError { span, instead, tokens }) => {
            rep.outcome("syntax-error");
            rep.distinct(&format!("{instead:?}").split('(').next().map(String::from));
            let Some(tok) = tokens.iter().find(|(_, s, e)| (*s, *e) == span) else {
                rep.violation("C15/error-span-not-a-token", format!("`{src}`: syntax error at {span:?}, which is not the span of any token of the input"), json!({"type":"parse-error","source":src}));
                return;
            };
            let ok = match (&tok.0, &instead) {
                (c14::K::Eof, ActualToken::EndOfFile) => true,
                (c14::K::Simple(_), ActualToken::Simple(_)) => true,
                (c14::K::OtherOp(a), ActualToken::OtherOp(bb)) => a == bb,
                (c14::K::Ident(a), ActualToken::Ident(bb)) => a == bb,
                (c14::K::Number(..), ActualToken::Number) => true,
                (c14::K::Str(_), ActualToken::String) => true,
                (c14::K::TextBlock(_), ActualToken::TextBlock) => true,
                _ => false,
            };
            if !ok {
                rep.violation("C15/error-describes-other-token", format!("`{src}`: syntax error names {instead:?} but the token at {span:?} is {:?}", tok.0), json!({"type":"parse-error","source":src}));
            }
        }
    }
}

fn corpus_sweep(profile: Profile, n: usize, sh: &util::Shard) -> Report {
    let mut rep = Report::new();
    let styles = [("minimal", syntax::MINIMAL), ("full", syntax::FULL), ("noisy", syntax::NOISY)];
    corpus::for_each_sharded(profile, n, sh.index, sh.n, &mut |idx, e| {
        if !sh.begin_case(idx, &|| syntax::print(&e, syntax::MINIMAL)) {
            return;
        }
        rep.states += 1;
        rep.distinct(&crate::features::feature_set(&e));
        check_tree(&e, &mut rep, &styles);
        if idx % 50_021 == 0 {
            rep.sample(json!({"tree_printed_minimal": syntax::print(&e, syntax::MINIMAL), "noisy": syntax::print(&e, syntax::NOISY)}));
        }
    });
    rep
}

pub fn run(ctx: &Ctx) -> i32 {
    let mut total = Report::new();
    let cfg = util::ForkCfg { threads: ctx.threads, mem_bytes: 4 << 30, case_timeout_s: 60, died_signature: "C15/abort".into(), resource_is_violation: false };
    let styles = [("minimal", syntax::MINIMAL), ("full", syntax::FULL), ("noisy", syntax::NOISY)];
    // (1) operator trees
    let mut trees = Vec::new();
    let leaves = [var("a"), var("b"), num(1), var("c")];
    for nops in 1..=3 {
        op_trees(nops, &leaves, &mut trees);
    }
    let r = util::par_forked(&cfg, 64, |sh| {
        let mut rep = Report::new();
        for (i, t) in trees.iter().enumerate() {
            if !sh.mine(i as u64) {
                continue;
            }
            // decorations only for trees with <= 2 operators (19^3 x 29 would add nothing new)
            let variants = if crate::syntax::node_count(t) <= 5 { decorate(t) } else { vec![t.clone()] };
            for v in variants {
                rep.states += 1;
                rep.distinct(&syntax::print(&v, syntax::MINIMAL).chars().filter(|c| "()".contains(*c)).count());
                check_tree(&v, &mut rep, &styles);
            }
            if i % 9001 == 0 {
                rep.sample(json!({"operator_tree": syntax::print(t, syntax::MINIMAL), "fully_parenthesised": syntax::print(t, syntax::FULL)}));
            }
        }
        rep
    });
    total.extra.insert("operator_trees".into(), json!(trees.len()));
    total.merge(r);
    // (2a) every syntactic form in every context
    let forms = syntax_forms();
    let mut combos = Vec::new();
    for f in &forms {
        for c in contexts(f) {
            combos.push(c.clone());
            if ctx.quick() {
                continue;
            }
            for c2 in contexts(&c).into_iter().skip(1).step_by(3) {
                combos.push(c2);
            }
        }
    }
    let r = util::par_forked(&cfg, 64, |sh| {
        let mut rep = Report::new();
        for (i, t) in combos.iter().enumerate() {
            if sh.mine(i as u64) {
                rep.states += 1;
                rep.distinct(&crate::features::feature_set(t));
                check_tree(t, &mut rep, &styles);
            }
        }
        rep
    });
    total.extra.insert("form_in_context_trees".into(), json!(combos.len()));
    total.merge(r);
    // (2b) corpus trees
    let nmax = if ctx.quick() { 4 } else { 5 };
    for n in 1..=nmax {
        corpus::warm(corpus::FULL, n);
        let shards = if n >= 5 { 512 } else if n == 4 { 64 } else { 4 };
        let r = util::par_forked(&cfg, shards, |sh| corpus_sweep(corpus::FULL, n, sh));
        total.extra.insert(format!("corpus_trees_n{n}"), json!(r.states));
        total.merge(r);
    }
    // (2c) object insides, well-formed and ill-formed: every sequence of <= 3 members over 9
    // member kinds x 5 tails. The grammar decides which ones are objects / comprehensions.
    {
        let kinds: Vec<(&str, &str)> = vec![
            ("F", "a: 1"), ("H", "b:: 2"), ("C", "[k]: 1"), ("CP", "[k]+: 1"), ("CH", "[k]:: 1"), ("M", "m(x): x"), ("L", "local l = 1"), ("A", "assert true"), ("AM", "assert true : \"m\""),
        ];
        let tails: Vec<(&str, bool)> = vec![("", false), (",", false), (" for k in [\"a\"]", true), (", for k in [\"a\"] if true", true), (" for k in [\"a\"] for j in [k]", true)];
        let mut cases: Vec<(String, bool)> = Vec::new();
        for len in 1..=3usize {
            util::for_each_seq(kinds.len(), len, |seq| {
                for (tail, is_comp) in &tails {
                    let members: Vec<&str> = seq.iter().map(|&i| kinds[i].1).collect();
                    let src = format!("local k = \"n\"; {{ {}{} }}", members.join(", "), tail);
                    let names: Vec<&str> = seq.iter().map(|&i| kinds[i].0).collect();
                    let fields: Vec<&&str> = names.iter().filter(|n| !matches!(**n, "L" | "A" | "AM")).collect();
                    let valid = if *is_comp {
                        fields.len() == 1 && matches!(*fields[0], "C" | "CP") && names.iter().all(|n| matches!(*n, "C" | "CP" | "L"))
                    } else {
                        true
                    };
                    cases.push((src, valid));
                }
            });
        }
        let r = util::par_forked(&cfg, 16, |sh| {
            let mut rep = Report::new();
            for (i, (src, valid)) in cases.iter().enumerate() {
                if !sh.mine(i as u64) {
                    continue;
                }
                rep.evaluations += 1;
                rep.states += 1;
                rep.transitions += 1;
                rep.traces_validated += 1;
                let case = json!({"type":"parse","source":src});
                match util::catch(|| impl_parse(src.as_bytes())) {
                    Err(m) => rep.violation(format!("C15/panic/{}", util::panic_site(&m)), format!("`{src}`: parser panicked: {m}"), case),
                    Ok(Parsed::Tree(..)) => {
                        rep.outcome("object-inside:parses");
                        if !*valid {
                            rep.violation("C15/ill-formed-object-accepted", format!("`{src}` is not an object or object comprehension of the grammar but parses"), case);
                        }
                    }
                    Ok(Parsed::ParseError { .. }) => {
                        rep.outcome("object-inside:syntax-error");
                        if *valid {
                            rep.violation("C15/well-formed-object-rejected", format!("`{src}` is well formed but is rejected"), case);
                        }
                    }
                    Ok(Parsed::LexError) => rep.violation("C15/print-not-lexable", format!("`{src}` does not lex"), case),
                }
                rep.distinct(&(src.matches(',').count(), *valid));
            }
            rep
        });
        total.extra.insert("object_inside_forms".into(), json!(cases.len()));
        total.merge(r);
    }
    // (2d) the slice colon layouts as concrete text (the printer only emits 6 of them)
    {
        let mut rep = Report::new();
        for start in [None, Some("b")] {
            for end in [None, Some("c")] {
                for tail in [None, Some(None), Some(Some("t"))] {
                    // text variants: tight (`::` may lex as one token) and spaced
                    for spaced in [false, true] {
                        let sep = if spaced { " : " } else { ":" };
                        let mut t = String::from("x[");
                        t.push_str(start.unwrap_or(""));
                        t.push_str(sep);
                        t.push_str(end.unwrap_or(""));
                        if let Some(step) = tail {
                            t.push_str(sep);
                            t.push_str(step.unwrap_or(""));
                        }
                        t.push(']');
                        let want = E::Slice(b(var("x")), start.map(|v| b(var(v))), end.map(|v| b(var(v))), tail.flatten().map(|v| b(var(v))));
                        rep.evaluations += 1;
                        rep.states += 1;
                        rep.traces_validated += 1;
                        let case = json!({"type":"parse","source":t});
                        match util::catch(|| impl_parse(t.as_bytes())) {
                            Ok(Parsed::Tree(got, _)) => {
                                rep.outcome("slice-layout:parses");
                                if strip_parens(&got) != want {
                                    rep.violation("C15/slice-layout/wrong-tree", format!("`{t}` parses as {}, expected {}", syntax::print(&got, syntax::FULL), syntax::print(&want, syntax::FULL)), case);
                                }
                            }
                            Ok(_) => rep.violation("C15/slice-layout/rejected", format!("`{t}` is one of the 12 slice layouts but is rejected"), case),
                            Err(m) => rep.violation(format!("C15/panic/{}", util::panic_site(&m)), format!("`{t}`: {m}"), case),
                        }
                    }
                }
            }
        }
        // embedded in larger expressions
        for t in ["x[b:c:].f", "x[::][:1:]", "[x[b:c:], x[:c:]]", "x[b::t] + x[:: t]", "{a: x[b:c:]}"] {
            if !matches!(util::catch(|| impl_parse(t.as_bytes())), Ok(Parsed::Tree(..))) {
                rep.violation("C15/slice-layout/rejected", format!("`{t}` is rejected"), json!({"type":"parse","source":t}));
            }
            rep.evaluations += 1;
        }
        total.merge(rep);
    }
    // (3) syntax errors point at a token
    let tl = if ctx.quick() { 3 } else { 4 };
    for len in 1..=tl {
        let shards = if len >= 4 { 256 } else { 16 };
        let r = util::par_forked(&cfg, shards, |sh| {
            let mut rep = Report::new();
            let mut idx = 0u64;
            util::for_each_seq(TOKENS.len(), len, |seq| {
                let mine = sh.mine(idx);
                idx += 1;
                if !mine {
                    return;
                }
                let src: Vec<&str> = seq.iter().map(|&i| TOKENS[i]).collect();
                let src = src.join(" ");
                check_error_tokens(&src, &mut rep);
                if idx % 200_003 == 0 {
                    rep.sample(json!({"token_sequence": src}));
                }
            });
            rep
        });
        total.extra.insert(format!("token_sequences_len{len}"), json!(r.evaluations));
        total.merge(r);
    }
    util::finish(
        ctx,
        LevelInfo {
            level: "model_checking",
            rule: "all binary-operator trees with <=3 operators over the 19 operators (x unary/postfix decorations for <=2), every syntactic form in every context, every corpus tree up to the node bound, each printed with minimal, full and noisy (comments, trailing commas, redundant parentheses) syntax and re-parsed; all token sequences up to the length bound for syntax-error location. distinct+nontrivial = distinct feature sets / parenthesisation counts / error token classes".into(),
            assumptions: vec!["the printer of syntax.rs encodes the specification's precedence table and associativity".into()],
        },
        total,
    )
}

pub fn replay(v: &serde_json::Value) -> i32 {
    let c = &v["case"];
    let src = c["source"].as_str().unwrap_or("");
    println!("source: {src}");
    match impl_parse(src.as_bytes()) {
        Parsed::Tree(t, _) => println!("  parses as {}", syntax::print(&strip_parens(&t), syntax::FULL)),
        Parsed::LexError => println!("  lex error"),
        Parsed::ParseError { span, instead, .. } => println!("  syntax error at {span:?}: instead {instead:?}"),
    }
    1
}
