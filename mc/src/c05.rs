//! C05 — every emitted document is well-formed and decodes to the value it came from.
//! Values are enumerated as trees; each is written as Jsonnet source (with hidden and inherited
//! fields that must not appear), emitted through every emitter configuration and decoded by
//! independent decoders (ref_json + serde_json, std.parseJson, Python ast / tomllib / PyYAML,
//! std.parseYaml); the decoded tree must equal the enumerated tree.
use crate::oracle;
use crate::refeval::JT;
use crate::refjson;
use crate::rt::{self, Outcome, RunCfg};
use crate::syntax::escape_str;
use crate::util::{self, Ctx, LevelInfo, Report};
use rsjsonnet_lang::arena::Arena;
use rsjsonnet_lang::program::Program;
use serde_json::{Value as J, json};

fn num_src(x: f64) -> String {
    crate::c06::lit(x)
}

/// Jsonnet source denoting the tree (objects get an extra hidden field and are partly built by
/// inheritance so that visibility filtering and field order are exercised).
pub fn tree_src(t: &JT) -> String {
    match t {
        JT::Null => "null".into(),
        JT::Bool(b) => b.to_string(),
        JT::Num(x) => num_src(*x),
        JT::Str(s) => escape_str(s),
        JT::Arr(a) => format!("[{}]", a.iter().map(tree_src).collect::<Vec<_>>().join(", ")),
        JT::Obj(o) => {
            // fields in reverse order, the last one added by inheritance, plus hidden fields
            let mut parts: Vec<String> = o.iter().rev().map(|(k, v)| format!("{}: {}", escape_str(k), tree_src(v))).collect();
            parts.push("hidden__:: error \"hidden fields are never manifested\"".into());
            if parts.len() >= 3 {
                let last = parts.remove(0);
                format!("({{{}}} + {{{last}, also_hidden__:: 1}})", parts.join(", "))
            } else {
                format!("{{{}}}", parts.join(", "))
            }
        }
    }
}

fn eq_numeric(a: &JT, b: &JT) -> bool {
    match (a, b) {
        (JT::Num(x), JT::Num(y)) => x == y,
        (JT::Arr(x), JT::Arr(y)) => x.len() == y.len() && x.iter().zip(y).all(|(p, q)| eq_numeric(p, q)),
        (JT::Obj(x), JT::Obj(y)) => x.len() == y.len() && x.iter().zip(y).all(|(p, q)| p.0 == q.0 && eq_numeric(&p.1, &q.1)),
        (x, y) => x == y,
    }
}

fn from_oracle(v: &J) -> Option<JT> {
    Some(match v {
        J::Null => JT::Null,
        J::Bool(b) => JT::Bool(*b),
        J::String(s) => JT::Str(s.clone()),
        J::Array(a) => JT::Arr(a.iter().map(from_oracle).collect::<Option<Vec<_>>>()?),
        J::Object(m) => {
            if let Some(bits) = m.get("f") {
                JT::Num(f64::from_bits(bits.as_u64()?))
            } else if let Some(o) = m.get("o") {
                if m.get("nonstr_keys") == Some(&J::Bool(true)) {
                    return None;
                }
                let mut fields: Vec<(String, JT)> = o.as_array()?.iter().map(|kv| Some((kv[0].as_str()?.to_string(), from_oracle(&kv[1])?))).collect::<Option<Vec<_>>>()?;
                fields.sort_by(|a, b| a.0.cmp(&b.0));
                JT::Obj(fields)
            } else {
                return None;
            }
        }
        _ => return None,
    })
}

fn leaves() -> Vec<JT> {
    vec![
        JT::Null, JT::Bool(true), JT::Bool(false), JT::Num(0.0), JT::Num(-0.0), JT::Num(1.5), JT::Num(-17.0), JT::Num(1e21), JT::Num(5e-324), JT::Num(f64::MAX), JT::Num(0.1),
        JT::Str("".into()), JT::Str("a".into()), JT::Str("q\"\\/\u{8}\u{c}\n\r\t".into()), JT::Str("\u{0}\u{1f}\u{7f}\u{80}\u{9f}".into()), JT::Str("é€😀\u{2028}\u{fffe}".into()), JT::Str("null".into()), JT::Str("1".into()),
        JT::Arr(vec![]), JT::Obj(vec![]),
    ]
}
const KEYS: &[&str] = &["a", "b", "", "k\"\\\n", "é", "1", "true", "a b", "-", "x.y"];

fn trees(n: usize, memo: &mut Vec<Vec<JT>>) -> Vec<JT> {
    if memo.len() > n {
        return memo[n].clone();
    }
    while memo.len() <= n {
        let k = memo.len();
        let v = if k == 0 {
            vec![]
        } else if k == 1 {
            leaves()
        } else {
            let mut v = Vec::new();
            // arrays and objects with 1 or 2 children
            for c in memo[k - 1].clone() {
                v.push(JT::Arr(vec![c.clone()]));
                for key in KEYS.iter().take(if k <= 2 { KEYS.len() } else { 3 }) {
                    v.push(JT::Obj(vec![(key.to_string(), c.clone())]));
                }
            }
            for i in 1..k - 1 {
                let j = k - 1 - i;
                let (xs, ys) = (memo[i].clone(), memo[j].clone());
                for x in xs.iter().step_by(if k > 3 { 3 } else { 1 }) {
                    for y in ys.iter().step_by(if k > 3 { 3 } else { 1 }) {
                        v.push(JT::Arr(vec![x.clone(), y.clone()]));
                        let mut f = vec![("b".to_string(), x.clone()), ("a".to_string(), y.clone())];
                        f.sort_by(|p, q| p.0.cmp(&q.0));
                        v.push(JT::Obj(f));
                        let mut f = vec![("é".to_string(), x.clone()), ("Z".to_string(), y.clone()), ("".to_string(), JT::Null)];
                        f.sort_by(|p, q| p.0.cmp(&q.0));
                        v.push(JT::Obj(f));
                    }
                }
            }
            v
        };
        memo.push(v);
    }
    memo[n].clone()
}

fn eval<'p>(p: &mut Program<'p>, src: &str, multiline: bool) -> Outcome {
    match util::catch(|| rt::run_on(p, src.as_bytes(), &RunCfg { multiline, ..Default::default() })) {
        Ok(r) => r.outcome,
        Err(m) => Outcome::Panic(m),
    }
}

fn has_null(t: &JT) -> bool {
    match t {
        JT::Null => true,
        JT::Arr(a) => a.iter().any(has_null),
        JT::Obj(o) => o.iter().any(|(_, v)| has_null(v)),
        _ => false,
    }
}
fn strings_of(t: &JT, out: &mut Vec<String>) {
    match t {
        JT::Str(s) => out.push(s.clone()),
        JT::Arr(a) => a.iter().for_each(|x| strings_of(x, out)),
        JT::Obj(o) => o.iter().for_each(|(k, v)| {
            out.push(k.clone());
            strings_of(v, out)
        }),
        _ => {}
    }
}
/// strings on which YAML 1.1 (PyYAML) and YAML 1.2 agree and which are not emitted as block scalars
fn yaml11_safe(t: &JT) -> bool {
    let mut ss = Vec::new();
    strings_of(t, &mut ss);
    // YAML 1.1 (PyYAML, libyaml) treats U+0085, U+2028 and U+2029 as line breaks, YAML 1.2 does not.
    // The emitter writes documents without a %YAML directive, so both kinds of parser will read
    // them: these characters have to be escaped too (only strings with a real line break stay
    // excluded: they are block scalars).
    // (Characters that neither version allows unescaped - C0/C1 controls, DEL, U+FFFE, U+FFFF -
    // are NOT excluded: the emitter has to escape them.)
    ss.iter().all(|s| !s.chars().any(|c| c == '\n'))
}

struct Pending {
    what: String,
    src: String,
    expect: JT,
    op: &'static str,
    text: String,
    all_docs: bool,
}

/// Emits `t` through every configuration; JSON paths are decoded here, the others queued.
fn check_value<'p>(p: &mut Program<'p>, t: &JT, rep: &mut Report, queue: &mut Vec<Pending>) {
    let v = tree_src(t);
    rep.states += 1;
    let json_text = |p: &mut Program<'p>, name: String, src: String, multiline: bool, unwrap_string: bool, rep: &mut Report| {
        let o = eval(p, &src, multiline);
        rep.evaluations += 1;
        rep.traces_validated += 1;
        rep.transitions += 1;
        let case = json!({"type":"emit","emitter":name,"source":src});
        let text = match &o {
            Outcome::Value(s) => {
                if unwrap_string {
                    match serde_json::from_str::<String>(s) {
                        Ok(t) => t,
                        Err(_) => {
                            rep.violation("C05/emitter-result-not-a-string", format!("{name}: {}", util::truncate(s, 200)), case);
                            return;
                        }
                    }
                } else {
                    s.clone()
                }
            }
            Outcome::Panic(m) => {
                rep.violation(format!("C05/panic/{}", util::panic_site(m)), format!("{name} of {v}: {m}"), case);
                return;
            }
            o => {
                rep.violation(format!("C05/emitter-failed/{name}"), format!("{name} of {}: {}", util::truncate(&v, 200), o.short()), case);
                return;
            }
        };
        // independent decoders
        let a = refjson::parse(&text);
        let b = serde_json::from_str::<J>(&text).map(|x| JT::from_serde(&x));
        match (&a, &b) {
            (Ok(x), Ok(y)) if x.same(t) && y.same(t) => rep.outcome("json-roundtrip-ok"),
            (Ok(x), _) if !x.same(t) => rep.violation("C05/json/decodes-to-different-value", format!("{name} of {} emits {:?} which decodes to {}", util::truncate(&v, 200), util::truncate(&text, 300), util::truncate(&x.show(), 200)), case),
            (Err(e), _) => {
                let raw_ctl = text.chars().any(|c| (c as u32) < 0x20 && !matches!(c, '\n' | ' '));
                rep.violation(if raw_ctl { "C05/raw-control-char-in-output".to_string() } else { format!("C05/json/not-rfc8259/{e}") }, format!("{name} of {} emits {:?}: not valid JSON ({e})", util::truncate(&v, 200), util::truncate(&text, 300)), case)
            }
            (Ok(_), Err(e)) => rep.violation("C05/json/decoders-disagree", format!("{name}: ref_json accepts, serde_json rejects ({e}): {:?}", util::truncate(&text, 300)), case),
            _ => {}
        }
    };
    // library-level manifestation
    json_text(p, "manifest_json(multiline=false)".into(), v.clone(), false, false, rep);
    json_text(p, "manifest_json(multiline=true)".into(), v.clone(), true, false, rep);
    for (name, e) in [
        ("std.manifestJson", format!("std.manifestJson({v})")),
        ("std.manifestJsonMinified", format!("std.manifestJsonMinified({v})")),
        ("std.toString", format!("std.toString([{v}])")),
        ("string coercion", format!("\"\" + [{v}]")),
    ] {
        let wrapped = name == "std.toString" || name == "string coercion";
        if wrapped {
            // strings would be returned unquoted at top level: wrap in an array and compare arrays
            let o = eval(p, &e, false);
            rep.evaluations += 1;
            if let Outcome::Value(s) = &o {
                let text: String = serde_json::from_str(s).unwrap_or_default();
                match refjson::parse(&text) {
                    Ok(x) if x.same(&JT::Arr(vec![t.clone()])) => rep.outcome("json-roundtrip-ok"),
                    Ok(x) => rep.violation("C05/json/decodes-to-different-value", format!("{name} of [{}] emits {:?} which decodes to {}", util::truncate(&v, 200), util::truncate(&text, 300), x.show()), json!({"type":"emit","emitter":name,"source":e})),
                    Err(er) => {
                        let raw_ctl = text.chars().any(|c| (c as u32) < 0x20 && !matches!(c, '\n' | ' '));
                        rep.violation(if raw_ctl { "C05/raw-control-char-in-output".to_string() } else { format!("C05/json/not-rfc8259/{er}") }, format!("{name} of [{}] emits {:?}", util::truncate(&v, 200), util::truncate(&text, 300)), json!({"type":"emit","emitter":name,"source":e}))
                    }
                }
            } else {
                rep.violation(format!("C05/emitter-failed/{name}"), format!("{name}: {}", o.short()), json!({"type":"emit","emitter":name,"source":e}));
            }
        } else {
            json_text(p, name.into(), e, false, true, rep);
        }
    }
    for indent in ["", " ", "\\t", "  "] {
        for newline in ["\\n", ""] {
            for kv in [": ", ":"] {
                json_text(p, format!("std.manifestJsonEx(indent={indent:?}, newline={newline:?}, key_val_sep={kv:?})"), format!("std.manifestJsonEx({v}, \"{indent}\", \"{newline}\", \"{kv}\")"), false, true, rep);
            }
        }
    }
    // in-language round trip
    let o = eval(p, &format!("local v = {v}; std.parseJson(std.manifestJsonMinified(v)) == v && std.parseJson(std.manifestJsonEx(v, \" \")) == v"), false);
    rep.evaluations += 1;
    if o != Outcome::Value("true".into()) {
        rep.violation("C05/json/std.parseJson-roundtrip", format!("parseJson(manifestJson(v)) != v for v = {}: {}", util::truncate(&v, 200), o.short()), json!({"type":"emit","source":v}));
    }
    // other target languages (queued for the batch oracles)
    let mut queue_str = |what: &str, src: String, op: &'static str, expect: JT, all_docs: bool, p: &mut Program<'p>, rep: &mut Report| {
        let o = eval(p, &src, false);
        rep.evaluations += 1;
        match &o {
            Outcome::Value(s) => {
                if let Ok(text) = serde_json::from_str::<String>(s) {
                    queue.push(Pending { what: what.to_string(), src, expect, op, text, all_docs });
                }
            }
            Outcome::Panic(m) => rep.violation(format!("C05/panic/{}", util::panic_site(m)), format!("{what} of {}: {m}", util::truncate(&v, 200)), json!({"type":"emit","emitter":what,"source":src})),
            o => rep.violation(format!("C05/emitter-failed/{what}"), format!("{what} of {}: {}", util::truncate(&v, 200), o.short()), json!({"type":"emit","emitter":what,"source":src})),
        }
    };
    queue_str("std.manifestPython", format!("std.manifestPython({v})"), "pyliteral", t.clone(), false, p, rep);
    if let JT::Obj(o) = t {
        if !o.is_empty() && !has_null(t) && o.iter().all(|(k, _)| !k.is_empty() || true) {
            queue_str("std.manifestTomlEx", format!("std.manifestTomlEx({v}, \"  \")"), "toml", t.clone(), false, p, rep);
            queue_str("std.manifestTomlEx(indent=\"\")", format!("std.manifestTomlEx({v}, \"\")"), "toml", t.clone(), false, p, rep);
        }
    }
    if yaml11_safe(t) {
        for (iaio, qk) in [(false, true), (true, true), (false, false), (true, false)] {
            queue_str(&format!("std.manifestYamlDoc(indent_array_in_object={iaio}, quote_keys={qk})"), format!("std.manifestYamlDoc({v}, {iaio}, {qk})"), "yaml", t.clone(), false, p, rep);
        }
        queue_str("std.manifestYamlStream", format!("std.manifestYamlStream([{v}, {v}], false, true, true)"), "yaml", JT::Arr(vec![t.clone(), t.clone()]), true, p, rep);
        queue_str("std.manifestYamlStream(one document)", format!("std.manifestYamlStream([{v}], false, false, true)"), "yaml", JT::Arr(vec![t.clone()]), true, p, rep);
        if matches!(t, JT::Null) {
            // the stream of no documents
            queue_str("std.manifestYamlStream(no document)", "std.manifestYamlStream([], false, true, true)".to_string(), "yaml", JT::Arr(vec![]), true, p, rep);
            queue_str("std.manifestYamlStream(no document)", "std.manifestYamlStream([], false, false, false)".to_string(), "yaml", JT::Arr(vec![]), true, p, rep);
        }
    }
    // own YAML reader on every value (strings without line breaks)
    let mut ss = Vec::new();
    strings_of(t, &mut ss);
    if ss.iter().all(|s| !s.contains('\n')) {
        let o = eval(p, &format!("local v = {v}; std.parseYaml(std.manifestYamlDoc(v, quote_keys=true)) == v"), false);
        rep.evaluations += 1;
        if o != Outcome::Value("true".into()) {
            let long_key = ss.iter().any(|s| s.chars().count() >= 1022);
            rep.violation(if long_key { "C05/yaml/implicit-key-longer-than-1024" } else { "C05/yaml/std.parseYaml-roundtrip" }, format!("parseYaml(manifestYamlDoc(v)) != v for v = {}: {}", util::truncate(&v, 200), o.short()), json!({"type":"emit","source":v}));
        }
    }
}

/// An integer literal outside the 64-bit range in a TOML document (TOML 1.0: such a value
/// cannot be represented losslessly and the parser must report an error).
fn toml_integer_beyond_i64(text: &str) -> Option<String> {
    let mut in_str = false;
    let mut esc = false;
    let mut tok = String::new();
    let mut out = None;
    let mut flush_tok = |tok: &mut String, out: &mut Option<String>| {
        let t = tok.trim_start_matches(['+', '-']);
        if !t.is_empty() && t.bytes().all(|b| b.is_ascii_digit()) && tok.parse::<i64>().is_err() && out.is_none() {
            *out = Some(tok.clone());
        }
        tok.clear();
    };
    for c in text.chars() {
        if in_str {
            if esc { esc = false; } else if c == '\\' { esc = true; } else if c == '"' { in_str = false; }
            continue;
        }
        if c == '"' {
            flush_tok(&mut tok, &mut out);
            in_str = true;
        } else if c.is_ascii_alphanumeric() || matches!(c, '+' | '-' | '.' | '_') {
            tok.push(c);
        } else {
            flush_tok(&mut tok, &mut out);
        }
    }
    flush_tok(&mut tok, &mut out);
    out
}

fn flush(queue: &mut Vec<Pending>, rep: &mut Report) {
    if queue.is_empty() {
        return;
    }
    let reqs: Vec<J> = queue.iter().map(|q| json!({"op": q.op, "s": q.text, "all": q.all_docs})).collect();
    let ans = oracle::python(&reqs);
    for (q, a) in queue.drain(..).zip(ans.iter()) {
        rep.traces_validated += 1;
        rep.transitions += 1;
        let case = json!({"type":"emit","emitter":q.what,"source":q.src});
        let lang = match q.op { "pyliteral" => "python", "toml" => "toml", _ => "yaml" };
        if lang == "toml" {
            if let Some(lit) = toml_integer_beyond_i64(&q.text) {
                rep.violation("C05/toml/integer-literal-beyond-64-bits", format!("{} emits the integer literal {lit}: TOML integers are 64-bit, a conforming parser must reject the document", util::truncate(&q.src, 200)), case.clone());
            }
        }
        match a.get("v").and_then(from_oracle) {
            Some(got) if eq_numeric(&got, &q.expect) => rep.outcome(&format!("{lang}-roundtrip-ok")),
            Some(got) => rep.violation(if q.what.contains("(no document)") { "C05/yaml/empty-stream-decodes-to-one-null-document".to_string() } else { format!("C05/{lang}/decodes-to-different-value") }, format!("{} emits {:?} which its language's parser decodes to {}, expected {}", q.src, util::truncate(&q.text, 300), util::truncate(&got.show(), 200), util::truncate(&q.expect.show(), 200)), case),
            None => {
                let raw_ctl = q.text.chars().any(|c| ((c as u32) < 0x20 && !matches!(c, '\n' | ' ' | '\t')) );
                // a YAML implicit key may not be longer than 1024 characters (YAML 1.2 §7.4.2)
                let long_key = lang == "yaml" && q.text.lines().any(|l| l.find("\": ").or_else(|| l.find(": ")).or_else(|| l.strip_suffix(':').map(|x| x.len())).is_some_and(|pos| l.trim_start()[..pos.saturating_sub(l.len() - l.trim_start().len())].chars().count() >= 1024));
                let sig = if raw_ctl { "C05/raw-control-char-in-output".to_string() } else if long_key { "C05/yaml/implicit-key-longer-than-1024".to_string() } else { format!("C05/{lang}/not-parseable") };
                rep.violation(sig, format!("{} emits {:?} which its language's parser rejects: {}", util::truncate(&q.src, 200), util::truncate(&q.text, 300), a), case)
            }
        }
    }
}

fn value_sweep(vals: &[JT], sh: &util::Shard) -> Report {
    let mut rep = Report::new();
    let arena = Arena::new();
    let mut p = Program::new(&arena);
    let mut queue = Vec::new();
    for (i, t) in vals.iter().enumerate() {
        if !sh.mine(i as u64) {
            continue;
        }
        check_value(&mut p, t, &mut rep, &mut queue);
        rep.distinct(&std::mem::discriminant(t));
        if queue.len() > 2000 {
            flush(&mut queue, &mut rep);
        }
        if i % 997 == 0 {
            rep.sample(json!({"value_source": util::truncate(&tree_src(t), 200)}));
        }
    }
    flush(&mut queue, &mut rep);
    rep
}

fn scalar_sweep(sh: &util::Shard, yaml_stride: u32) -> Report {
    let mut rep = Report::new();
    let arena = Arena::new();
    let mut p = Program::new(&arena);
    let mut queue = Vec::new();
    let mut cp = sh.index as u32 * 32;
    let mut batch_no = 0u32;
    while cp <= 0x10FFFF {
        let chars: Vec<char> = (cp..cp + 32).filter_map(char::from_u32).collect();
        cp += sh.n as u32 * 32;
        batch_no += 1;
        if chars.is_empty() {
            continue;
        }
        // every character as a key and as a value of one object
        let mut fields: Vec<(String, JT)> = chars.iter().map(|c| (format!("k{c}"), JT::Str(format!("{c}v{c}")))).collect();
        fields.sort_by(|a, b| a.0.cmp(&b.0));
        let t = JT::Obj(fields);
        let v = tree_src(&t);
        rep.states += chars.len() as u64;
        for (name, src, multiline) in [("manifest_json", v.clone(), true), ("std.manifestJsonMinified", format!("std.manifestJsonMinified({v})"), false)] {
            let o = eval(&mut p, &src, multiline);
            rep.evaluations += 1;
            rep.traces_validated += 1;
            let case = json!({"type":"emit","emitter":name,"source":util::truncate(&src, 2000)});
            let text = match &o {
                Outcome::Value(s) if name == "manifest_json" => s.clone(),
                Outcome::Value(s) => serde_json::from_str::<String>(s).unwrap_or_default(),
                o => {
                    rep.violation(format!("C05/emitter-failed/{name}"), format!("characters U+{:04X}..: {}", chars[0] as u32, o.short()), case);
                    continue;
                }
            };
            match (refjson::parse(&text), serde_json::from_str::<J>(&text)) {
                (Ok(x), Ok(y)) if x.same(&t) && JT::from_serde(&y).same(&t) => rep.outcome("json-roundtrip-ok"),
                (Ok(_), Ok(_)) => rep.violation("C05/json/decodes-to-different-value", format!("{name}: characters U+{:04X}.. do not round-trip", chars[0] as u32), case),
                (a, b) => {
                    let raw_ctl = text.chars().any(|c| (c as u32) < 0x20 && !matches!(c, '\n' | ' '));
                    rep.violation(if raw_ctl { "C05/raw-control-char-in-output".to_string() } else { "C05/json/not-rfc8259/scalar".to_string() }, format!("{name}: characters U+{:04X}..: ref_json {:?}, serde_json {:?}", chars[0] as u32, a.err(), b.err().map(|e| e.to_string())), case)
                }
            }
        }
        let mut q = |what: &str, src: String, op: &'static str, rep: &mut Report, p: &mut Program<'_>| {
            let o = eval(p, &src, false);
            rep.evaluations += 1;
            if let Outcome::Value(s) = &o {
                if let Ok(text) = serde_json::from_str::<String>(s) {
                    queue.push(Pending { what: what.to_string(), src: util::truncate(&src, 1500), expect: t.clone(), op, text, all_docs: false });
                }
            } else {
                rep.violation(format!("C05/emitter-failed/{what}"), format!("characters U+{:04X}..: {}", chars[0] as u32, o.short()), json!({"type":"emit","emitter":what,"source":util::truncate(&src, 1500)}));
            }
        };
        q("std.manifestPython", format!("std.manifestPython({v})"), "pyliteral", &mut rep, &mut p);
        q("std.manifestTomlEx", format!("std.manifestTomlEx({v}, \" \")"), "toml", &mut rep, &mut p);
        if yaml11_safe(&t) && (batch_no % yaml_stride == 0 || chars[0] < '\u{3000}') {
            q("std.manifestYamlDoc(quote_keys=true)", format!("std.manifestYamlDoc({v}, false, true)"), "yaml", &mut rep, &mut p);
        }
        let o = eval(&mut p, &format!("local v = {v}; std.parseYaml(std.manifestYamlDoc(v, quote_keys=true)) == v && std.parseJson(std.manifestJson(v)) == v"), false);
        rep.evaluations += 1;
        if o != Outcome::Value("true".into()) {
            rep.violation("C05/yaml/std.parseYaml-roundtrip", format!("characters U+{:04X}..: {}", chars[0] as u32, o.short()), json!({"type":"emit","source":util::truncate(&v, 1500)}));
        }
        if queue.len() > 600 {
            flush(&mut queue, &mut rep);
        }
    }
    flush(&mut queue, &mut rep);
    rep
}

// ------------------------------------------------------------------ YAML / TOML plain keys

/// YAML 1.2 core schema: does the plain scalar resolve to a string?
pub fn core_schema_is_string(s: &str) -> bool {
    if matches!(s, "" | "~" | "null" | "Null" | "NULL" | "true" | "True" | "TRUE" | "false" | "False" | "FALSE") {
        return false;
    }
    let b = s.as_bytes();
    let digits = |t: &[u8]| !t.is_empty() && t.iter().all(|c| c.is_ascii_digit());
    // int
    let unsigned = s.trim_start_matches(['-', '+']);
    if (s.len() - unsigned.len() <= 1) && digits(unsigned.as_bytes()) {
        return false;
    }
    if let Some(r) = s.strip_prefix("0o") {
        if !r.is_empty() && r.bytes().all(|c| (b'0'..=b'7').contains(&c)) {
            return false;
        }
    }
    if let Some(r) = s.strip_prefix("0x") {
        if !r.is_empty() && r.bytes().all(|c| c.is_ascii_hexdigit()) {
            return false;
        }
    }
    // float: [-+]? ( \. [0-9]+ | [0-9]+ ( \. [0-9]* )? ) ( [eE] [-+]? [0-9]+ )?
    let mut i = 0;
    if matches!(b.first(), Some(b'-' | b'+')) {
        i += 1;
    }
    let rest = &s[i..];
    if matches!(rest, ".inf" | ".Inf" | ".INF") || (i == 0 && matches!(s, ".nan" | ".NaN" | ".NAN")) {
        return false;
    }
    let (mant, exp) = match rest.find(['e', 'E']) {
        Some(p) => (&rest[..p], Some(&rest[p + 1..])),
        None => (rest, None),
    };
    let mant_ok = if let Some(f) = mant.strip_prefix('.') {
        digits(f.as_bytes())
    } else {
        match mant.split_once('.') {
            Some((a, f)) => digits(a.as_bytes()) && f.bytes().all(|c| c.is_ascii_digit()),
            None => digits(mant.as_bytes()),
        }
    };
    let exp_ok = match exp {
        None => true,
        Some(e) => digits(e.trim_start_matches(['-', '+']).as_bytes()) && e.len() - e.trim_start_matches(['-', '+']).len() <= 1,
    };
    !(mant_ok && exp_ok)
}

fn key_sweep(len: usize, sh: &util::Shard) -> Report {
    let alpha: Vec<&str> = vec!["0", "1", "7", "8", "9", "a", "b", "e", "E", "o", "x", "_", ".", "-", "+", "/", ":", "~"];
    let mut rep = Report::new();
    let arena = Arena::new();
    let mut p = Program::new(&arena);
    let mut idx = 0u64;
    let mut keys: Vec<String> = Vec::new();
    util::for_each_seq(alpha.len(), len, |seq| {
        let mine = sh.mine(idx);
        idx += 1;
        if mine {
            keys.push(seq.iter().map(|&i| alpha[i]).collect());
        }
    });
    if len == 1 && sh.index == 0 {
        for w in ["null", "Null", "NULL", "true", "True", "TRUE", "false", "False", "FALSE", "yes", "no", "on", "off", "y", "n", "~", ".inf", "-.inf", ".nan", ".NaN", "0o17", "0x1F", "1e3", "-1e3", "1E3", "1e-3", "0e0", "1.5", "+1", "1_000", "0b1", "1:30", "2001-01-01", "<<", "=", "a: b", "a #b", "- a", "? a", "[a", "{a", "a,b", "&a", "*a", "!a", "|", ">", "%a", "@a", "`a", "'a", "\"a"] {
            keys.push(w.to_string());
        }
    }
    if len == 1 && sh.index == 0 {
        // structured number look-alikes: sign x integer part x fraction x exponent
        for sign in ["", "-", "+"] {
            for int in ["", "0", "1", "12", "007"] {
                for frac in ["", ".", ".5", ".50", ".0"] {
                    for exp in ["", "e3", "e-3", "e+3", "E3", "E-12", "e", "e-", "e3x"] {
                        let k = format!("{sign}{int}{frac}{exp}");
                        if !k.is_empty() {
                            keys.push(k);
                        }
                    }
                }
            }
        }
        for w in ["0x", "0xg", "0X1F", "0o", "0o8", "0O7", "0b101", "1_000", "1__0", "-.inf", "+.inf", ".Inf", ".INF", ".NAN", ".NaN", "-.nan", "12:30:45", "1.2.3", "--1", "-+1", "1e3e3", "1..5", "0.", "-0", "+0", "00", "-00.5"] {
            keys.push(w.to_string());
        }
    }
    for chunk in keys.chunks(50) {
        let items: Vec<String> = chunk.iter().map(|k| escape_str(k)).collect();
        let src = format!("[[std.manifestYamlDoc({{[k]: 1}}, quote_keys=false), std.parseYaml(std.manifestYamlDoc({{[k]: 1}}, quote_keys=false)) == {{[k]: 1}}, std.manifestTomlEx({{[k]: 1}}, \"\")] for k in [{}]]", items.join(", "));
        let o = eval(&mut p, &src, false);
        rep.evaluations += 1;
        let Outcome::Value(s) = &o else {
            rep.violation(format!("C05/yaml/key-batch/{}", o.class()), format!("{}", o.short()), json!({"type":"emit","source":util::truncate(&src, 500)}));
            continue;
        };
        let v: J = serde_json::from_str(s).unwrap();
        for (k, key) in chunk.iter().enumerate() {
            rep.states += 1;
            rep.traces_validated += 1;
            rep.transitions += 1;
            let doc = v[k][0].as_str().unwrap_or("");
            let own_ok = v[k][1] == true;
            let emitted_plain = doc.starts_with(&format!("{key}:"));
            rep.outcome(if emitted_plain { "yaml-key-plain" } else { "yaml-key-quoted" });
            rep.distinct(&(emitted_plain, core_schema_is_string(key), key.len()));
            let case = json!({"type":"yaml-key","key":key});
            if emitted_plain && !core_schema_is_string(key) {
                // the signature names the shape of the key, so that a new class of unsafe plain
                // keys is not folded into an already known one
                let unsigned = key.trim_start_matches(['-', '+']);
                let class = if key.starts_with("0o") {
                    "octal-0o"
                } else if key.starts_with("0x") {
                    "hex-0x"
                } else if !key.contains('.') && key.contains(['e', 'E']) && unsigned.chars().next().is_some_and(|c| c.is_ascii_digit()) {
                    "exponent-float-without-dot"
                } else if key.contains('.') && unsigned.chars().any(|c| c.is_ascii_digit()) {
                    "float-with-dot"
                } else if unsigned.chars().all(|c| c.is_ascii_digit()) {
                    "integer"
                } else {
                    "word"
                };
                rep.violation(format!("C05/yaml-plain-key-resolves-to-non-string/{class}"), format!("manifestYamlDoc({{{key:?}: 1}}, quote_keys=false) emits the key plain ({:?}); a YAML 1.2 core-schema loader reads it as a number/bool/null", doc.trim()), case.clone());
            } else if !own_ok {
                rep.violation("C05/yaml-key-own-parser-roundtrip", format!("std.parseYaml(manifestYamlDoc({{{key:?}: 1}}, quote_keys=false)) != the object; document {:?}", doc.trim()), case.clone());
            }
            // TOML: a bare key may only contain A-Za-z0-9_-
            let toml = v[k][2].as_str().unwrap_or("");
            let bare = toml.starts_with(&format!("{key} ="));
            if bare && !(!key.is_empty() && key.chars().all(|c| c.is_ascii_alphanumeric() || c == '_' || c == '-')) {
                rep.violation("C05/toml-bare-key-invalid", format!("manifestTomlEx emits {key:?} as a bare key: {:?}", toml.trim()), case);
            }
        }
    }
    rep
}

pub fn run(ctx: &Ctx) -> i32 {
    let mut total = Report::new();
    let cfg = util::ForkCfg { threads: ctx.threads, mem_bytes: 4 << 30, case_timeout_s: 180, died_signature: "C05/abort".into(), resource_is_violation: false };
    let mut memo = Vec::new();
    let nmax = if ctx.quick() { 3 } else { 4 };
    let mut vals = Vec::new();
    for n in 1..=nmax {
        vals.extend(trees(n, &mut memo));
    }
    // strings of length <= 2 over a 40-character alphabet
    let alpha: Vec<char> = "\"\\/abé€😀 \u{0}\u{1}\u{8}\u{9}\u{a}\u{c}\u{d}\u{1a}\u{1b}\u{1f}\u{7f}\u{80}\u{9f}\u{a0}\u{2028}\u{2029}\u{fffe}\u{ffff}\u{10000}'#:-{}[],&*!|>%@`".chars().collect();
    for a in &alpha {
        vals.push(JT::Str(a.to_string()));
        for b in &alpha {
            if ctx.quick() && (*a as u32 + *b as u32) % 3 != 0 {
                continue;
            }
            vals.push(JT::Str(format!("{a}{b}")));
            vals.push(JT::Obj(vec![(format!("{a}{b}"), JT::Str(format!("{b}{a}")))]));
        }
    }
    // key placement: every special key at every level of nested tables, arrays of tables and
    // mixed scalar/table siblings (document formats repeat ancestor keys in headers and paths)
    let before = vals.len();
    let special_keys = ["", "a b", "x.y", "k\"q", "k'q", "é", "1", "true", "-", "#c", "[t]", "a=b", "k\\n", "\u{1f}", "null", "a\nb", "~", "😀"];
    let o = |fields: Vec<(&str, JT)>| {
        let mut f: Vec<(String, JT)> = fields.into_iter().map(|(k, v)| (k.to_string(), v)).collect();
        f.sort_by(|p, q| p.0.cmp(&q.0));
        JT::Obj(f)
    };
    let one = || JT::Num(1.0);
    for k in special_keys {
        let inner = || o(vec![("x", one())]);
        vals.push(o(vec![(k, o(vec![("in", inner())]))]));
        vals.push(o(vec![("o", o(vec![(k, inner())]))]));
        vals.push(o(vec![("o", o(vec![("p", o(vec![(k, one())]))]))]));
        vals.push(o(vec![(k, JT::Arr(vec![o(vec![("in", inner())])]))]));
        vals.push(o(vec![("o", JT::Arr(vec![o(vec![(k, inner())]), o(vec![(k, JT::Arr(vec![inner()]))])]))]));
        vals.push(o(vec![(k, o(vec![("v", one()), ("in", inner()), ("s", JT::Str(k.to_string()))]))]));
        vals.push(o(vec![(k, o(vec![(k, o(vec![(k, one())]))]))]));
        vals.push(o(vec![("o", o(vec![(k, JT::Arr(vec![one(), JT::Arr(vec![one()])])), ("z", inner())]))]));
        for k2 in special_keys.iter().take(6) {
            vals.push(o(vec![(k, o(vec![(*k2, inner())])), ("z", one())]));
        }
    }
    // key lengths around the 1024-character limit of YAML implicit keys; empty document stream
    for n in [1022usize, 1023, 1024, 1025, 1026, 2000] {
        vals.push(o(vec![(&"k".repeat(n), one())]));
        vals.push(o(vec![(&format!("{} z", "k".repeat(n - 2)), JT::Arr(vec![one()]))]));
        vals.push(o(vec![("o", o(vec![(&"é".repeat(n), one())]))]));
    }
    total.extra.insert("key_placement_trees".into(), json!(vals.len() - before));
    let r = util::par_forked(&cfg, 128, |sh| value_sweep(&vals, sh));
    total.extra.insert("value_trees".into(), json!(vals.len()));
    total.merge(r);
    let stride = if ctx.quick() { 16 } else { 1 };
    let r = util::par_forked(&cfg, 128, |sh| scalar_sweep(sh, stride));
    total.extra.insert("scalar_values_as_key_and_value".into(), json!(r.states));
    total.merge(r);
    let kl = if ctx.quick() { 3 } else { 4 };
    for len in 1..=kl {
        let r = util::par_forked(&cfg, 64, |sh| key_sweep(len, sh));
        total.extra.insert(format!("plain_key_candidates_len{len}"), json!(r.states));
        total.merge(r);
    }
    util::finish(
        ctx,
        LevelInfo {
            level: "model_checking",
            rule: "all value trees up to the node bound over 20 leaves x 10 keys (objects written with hidden and inherited fields), all strings of length <=2 over a 48-character alphabet as values and keys, every Unicode scalar value as key and value: emitted through manifest_json (both modes), manifestJson, manifestJsonMinified, toString, string coercion, 16 manifestJsonEx configurations (decoded by ref_json and serde_json, and std.parseJson), manifestPython (ast.literal_eval), manifestTomlEx (tomllib), 4 manifestYamlDoc configurations + manifestYamlStream (PyYAML on the 1.1/1.2-common subset, std.parseYaml on all); all keys of length <=3/4 over `0 1 7 8 9 a b e E o x _ . - + / : ~` + reserved words against the YAML 1.2 core schema and TOML bare-key rules. distinct+nontrivial = distinct value kinds / key classes".into(),
            assumptions: vec!["PyYAML (YAML 1.1) is consulted only on strings where 1.1 and 1.2 agree; block scalars (strings with line breaks) are excluded from the PyYAML check".into(), "CLI output modes are covered by C12".into()],
        },
        total,
    )
}

pub fn replay(v: &serde_json::Value) -> i32 {
    let c = &v["case"];
    if let Some(k) = c["key"].as_str() {
        let src = format!("std.manifestYamlDoc({{[{}]: 1}}, quote_keys=false)", escape_str(k));
        println!("{src}\n  => {}\n  core schema resolves the plain key to a string: {}", rt::run_fresh(src.as_bytes(), &RunCfg::default()).outcome.short(), core_schema_is_string(k));
        return 1;
    }
    if let Some(src) = c["source"].as_str() {
        println!("{src}\n  => {}", rt::run_fresh(src.as_bytes(), &RunCfg::default()).outcome.short());
    }
    1
}
