//! C20 — parsing, encoding and hashing builtins compute the standard functions.
use crate::c02::parse_json_tree;
use crate::oracle;
use crate::refeval::JT;
use crate::refjson;
use crate::rt::{self, Outcome, RunCfg};
use crate::syntax::escape_str;
use crate::util::{self, Ctx, LevelInfo, Report};
use rsjsonnet_lang::arena::Arena;
use rsjsonnet_lang::program::Program;
use serde_json::{Value as J, json};

fn eval<'p>(p: &mut Program<'p>, src: &str) -> Outcome {
    match util::catch(|| rt::run_on(p, src.as_bytes(), &RunCfg::default())) {
        Ok(r) => r.outcome,
        Err(m) => Outcome::Panic(m),
    }
}

fn num_of(o: &Outcome) -> Option<f64> {
    match o {
        Outcome::Value(s) => s.trim().parse::<f64>().ok(),
        _ => None,
    }
}

// ------------------------------------------------------------------ 1. parseInt / Octal / Hex

fn radix_strings(quick: bool) -> Vec<(u32, String)> {
    let mut v: Vec<(u32, String)> = Vec::new();
    let lens: Vec<usize> = if quick { (1..=40).chain([41, 42, 43, 44, 63, 64, 65, 127, 128, 129, 130, 255, 256, 257, 400]).collect() } else { (1..=400).collect() };
    for (base, digits, bad) in [(16u32, "0123456789abcdefABCDEF", vec!["g", "-", " ", "é", "😀", "_", "x"]), (8, "01234567", vec!["8", "-", " ", "é", "😀"]), (10, "0123456789", vec!["a", " ", "é", "😀", ".", "+"])] {
        for &n in &lens {
            let top = digits.chars().filter(|c| c.is_ascii_digit() || c.is_ascii_lowercase()).last().unwrap();
            // all-same-digit strings
            for d in [digits.chars().next().unwrap(), '1', top, digits.chars().nth(digits.len() / 3).unwrap()] {
                v.push((base, std::iter::repeat_n(d, n).collect()));
            }
            // leading zeros, 1 followed by zeros then a trailing 1 (rounding ties)
            v.push((base, format!("{}{}", "0".repeat(n.saturating_sub(1)), top)));
            if n >= 2 {
                v.push((base, format!("1{}1", "0".repeat(n - 2))));
                v.push((base, format!("{}{}", if base == 16 { "8" } else { "4" }, "0".repeat(n - 1))));
            }
            if n >= 16 {
                // tie patterns around bit 53/54 with a late non-zero digit
                let head = match base { 16 => "20000000000001", 8 => "400000000000000001", _ => "9007199254740993" };
                if n > head.len() {
                    v.push((base, format!("{head}{}", "0".repeat(n - head.len()))));
                    v.push((base, format!("{head}{}1", "0".repeat(n - head.len() - 1))));
                    let half = match base { 16 => "200000000000008", 8 => "400000000000000004", _ => "9007199254740992" };
                    if n > half.len() {
                        v.push((base, format!("{half}{}1", "0".repeat(n - half.len() - 1))));
                        v.push((base, format!("{half}{}", "0".repeat(n - half.len()))));
                    }
                }
            }
            // a non-digit at every position (short strings and the 128-bit border)
            if n <= 8 || [31, 32, 33, 34, 42, 43, 44, 64].contains(&n) {
                for pos in 0..=n {
                    for b in &bad {
                        let mut s: String = std::iter::repeat_n('1', pos).collect();
                        s.push_str(b);
                        s.extend(std::iter::repeat_n('1', n - pos));
                        v.push((base, s));
                    }
                }
            }
        }
        v.push((base, String::new()));
    }
    for s in ["-1", "-0", "-", "--1", "-12345678901234567890", "+1", "1e3", "0x10", "١"] {
        v.push((10, s.to_string()));
    }
    v
}

fn check_radix(ctx: &Ctx, total: &mut Report) {
    let cases = radix_strings(ctx.quick());
    let reqs: Vec<J> = cases.iter().map(|(b, s)| json!({"op":"int","s":s,"base":b})).collect();
    let answers = oracle::python(&reqs);
    let cfg = util::ForkCfg { threads: ctx.threads, mem_bytes: 4 << 30, case_timeout_s: 60, died_signature: "C20/abort".into(), resource_is_violation: false };
    let r = util::par_forked(&cfg, 64, |sh| {
        let mut rep = Report::new();
        let arena = Arena::new();
        let mut p = Program::new(&arena);
        for (i, (base, s)) in cases.iter().enumerate() {
            if !sh.mine(i as u64) {
                continue;
            }
            let f = match base { 16 => "parseHex", 8 => "parseOctal", _ => "parseInt" };
            let src = format!("std.{f}({})", escape_str(s));
            let o = eval(&mut p, &src);
            rep.evaluations += 1;
            rep.states += 1;
            rep.traces_validated += 1;
            rep.transitions += 1;
            let case = json!({"type":"eval","source":src});
            let a = &answers[i];
            match (a, &o) {
                (_, Outcome::Panic(m)) => rep.violation(format!("C20/panic/{}", util::panic_site(m)), format!("`{}`: {m}", util::truncate(&src, 120)), case),
                (J::String(e), o) => {
                    rep.outcome(e);
                    if !o.is_fail() {
                        rep.violation(format!("C20/{f}/accepted-{e}"), format!("`{}` should be rejected ({e}) but gives {}", util::truncate(&src, 120), o.short()), case);
                    }
                }
                (J::Object(m), o) => {
                    rep.outcome("number");
                    let want = f64::from_bits(m["f"].as_u64().unwrap());
                    match num_of(o) {
                        Some(g) if g == want => {}
                        Some(g) => {
                            let ulps = (g.to_bits() as i64 - want.to_bits() as i64).abs();
                            let sig = if s.len() > 32 && ulps == 1 { "C20/parseHex-rounding-beyond-128-bits".to_string() } else { format!("C20/{f}/wrong-value") };
                            rep.violation(sig, format!("`{}` gives {g:e}, the correctly rounded value is {want:e} ({ulps} ulp)", util::truncate(&src, 120)), case);
                        }
                        None => rep.violation(format!("C20/{f}/rejected-valid"), format!("`{}` should be {want:e} but gives {}", util::truncate(&src, 120), o.short()), case),
                    }
                }
                _ => {}
            }
            rep.distinct(&(*base, s.len().min(70), a.is_string()));
            if i % 5003 == 0 {
                rep.sample(json!({"call": util::truncate(&src, 100), "oracle": a}));
            }
        }
        rep
    });
    total.extra.insert("radix_strings".into(), json!(cases.len()));
    total.merge(r);
}

// ------------------------------------------------------------------ 2./3. parseJson, parseYaml

const JSON_TOKENS: &[&str] = &[
    "{", "}", "[", "]", ",", ":", "\"a\"", "\"b\"", "\"é\"", "\"😀\"", "\"\\ud800\"", "\"\\x\"", "\"\u{1}\"", "1", "-1", "0", "01", "1.", ".5", "1.5e1", "1e400", "-", "true", "null", "nul", " ", "\t",
    "\"\\ud83d\\ude00\"", "\"\\n\\u00e9\"", "-0", "1E-2",
];

/// number grammar: every text over these symbols up to the length bound, alone and as an element
const NUMBER_SYMBOLS: &[&str] = &["-", "0", "1", "9", ".", "e", "E", "+"];

fn json_sweep(len: usize, sh: &util::Shard) -> Report {
    json_sweep_over(JSON_TOKENS, len, 0, sh)
}

fn json_sweep_over(tokens: &[&str], len: usize, wrap: u8, sh: &util::Shard) -> Report {
    let mut rep = Report::new();
    let arena = Arena::new();
    let mut p = Program::new(&arena);
    let mut idx = 0u64;
    let mut since = 0;
    util::for_each_seq(tokens.len(), len, |seq| {
        let mine = sh.mine(idx);
        idx += 1;
        if !mine {
            return;
        }
        let text: String = seq.iter().map(|&i| tokens[i]).collect();
        let text = match wrap {
            1 => format!("[{text}]"),
            2 => format!("{{\"k\": {text}, \"l\": [0, {text}]}}"),
            3 => format!("\"{text}\""),
            4 => format!("{{\"a{text}\": 1}}"),
            5 => format!("[\"x{text}y\", \"{text}\"]"),
            _ => text,
        };
        let model = refjson::parse(&text);
        let src = format!("std.parseJson({})", escape_str(&text));
        since += 1;
        if since > 20000 {
            // keep the program state small
            since = 0;
        }
        let o = eval(&mut p, &src);
        rep.evaluations += 1;
        rep.states += 1;
        rep.traces_validated += 1;
        rep.transitions += len as u64;
        let case = json!({"type":"parseJson","text":text});
        match (&model, &o) {
            (_, Outcome::Panic(m)) => rep.violation(format!("C20/panic/{}", util::panic_site(m)), format!("parseJson({text:?}): {m}"), case),
            (Err(e), _) if e == "lone-surrogate" => rep.outcome("dont-care:lone-surrogate"),
            (Err(e), o) => {
                rep.outcome("invalid");
                if !o.is_fail() {
                    rep.violation(format!("C20/parseJson/accepted-invalid/{e}"), format!("parseJson({text:?}) should be rejected ({e}) but gives {}", o.short()), case);
                }
            }
            (Ok(t), Outcome::Value(s)) => {
                rep.outcome("valid");
                match parse_json_tree(s) {
                    Some(g) if g.same(t) => {}
                    other => rep.violation("C20/parseJson/wrong-value", format!("parseJson({text:?}) gives {:?}, expected {}", other.map(|g| g.show()), t.show()), case),
                }
                // cross-validate the model with serde_json where they must agree
                if let Ok(sv) = serde_json::from_str::<J>(&text) {
                    if !JT::from_serde(&sv).same(t) {
                        rep.count("model_vs_serde_disagreements", 1);
                    }
                }
                // parseYaml on JSON documents without tabs / surrogate escapes
                let has_surrogate_escape = text.to_ascii_lowercase().match_indices("\\u").any(|(i, _)| {
                    let b = text.as_bytes();
                    b.get(i + 2).is_some_and(|c| c.eq_ignore_ascii_case(&b'd')) && b.get(i + 3).is_some_and(|c| matches!(c.to_ascii_lowercase(), b'8' | b'9' | b'a'..=b'f'))
                });
                if !text.contains('\t') && !has_surrogate_escape {
                    let y = eval(&mut p, &format!("std.parseYaml({})", escape_str(&text)));
                    rep.evaluations += 1;
                    match &y {
                        Outcome::Value(ys) if parse_json_tree(ys).is_some_and(|g| g.same(t)) => rep.count("yaml_equals_json", 1),
                        other => rep.violation("C20/parseYaml/differs-from-parseJson", format!("parseYaml({text:?}) gives {}, parseJson gives {}", other.short(), t.show()), json!({"type":"parseYaml","text":text})),
                    }
                }
            }
            (Ok(t), o) => {
                rep.outcome("valid");
                rep.violation("C20/parseJson/rejected-valid", format!("parseJson({text:?}) is valid JSON ({}) but gives {}", t.show(), o.short()), case);
            }
        }
        rep.distinct(&(model.as_ref().err().cloned(), seq.iter().map(|&i| i.min(6)).collect::<Vec<_>>()));
        if idx % 100_003 == 0 {
            rep.sample(json!({"json_text": text, "model": format!("{:?}", model.as_ref().map(|t| t.show()))}));
        }
    });
    rep
}

const YAML_TOKENS: &[&str] = &[
    "- ", ": ", "? ", "a", "1", "0x1F", "0o7", "~", "&x ", "*x", "!t ", "[", "]", "{", "}", ",", "|", ">", "\"", "'", "#", "---", "...", "%YAML", "\n", "  ", "\t", "é", "-", ":", "<<", "null", "1e3", ".inf", ".nan", "0x", "0o", "1_0", "\\",
];

fn yaml_sweep(len: usize, sh: &util::Shard) -> Report {
    let mut rep = Report::new();
    let arena = Arena::new();
    let mut p = Program::new(&arena);
    let mut idx = 0u64;
    util::for_each_seq(YAML_TOKENS.len(), len, |seq| {
        let mine = sh.mine(idx);
        idx += 1;
        if !mine {
            return;
        }
        let text: String = seq.iter().map(|&i| YAML_TOKENS[i]).collect();
        if !sh.begin_case(idx - 1, &|| format!("parseYaml({text:?})")) {
            return;
        }
        let o = eval(&mut p, &format!("std.parseYaml({})", escape_str(&text)));
        rep.evaluations += 1;
        rep.states += 1;
        rep.transitions += len as u64;
        rep.outcome(&o.class());
        rep.distinct(&(o.class(), seq.first().copied()));
        match &o {
            Outcome::Panic(m) => rep.violation(format!("C20/panic/{}", util::panic_site(m)), format!("parseYaml({text:?}): {m}"), json!({"type":"parseYaml","text":text})),
            Outcome::Value(s) => {
                // the value must be a finite JSON tree
                if parse_json_tree(s).is_none() {
                    rep.violation("C20/parseYaml/non-json-value", format!("parseYaml({text:?}) manifests as {s}"), json!({"type":"parseYaml","text":text}));
                }
            }
            _ => {}
        }
        if idx % 50_021 == 0 {
            rep.sample(json!({"yaml_text": text, "outcome": o.short()}));
        }
    });
    rep
}

fn yaml_specials(total: &mut Report) {
    let arena = Arena::new();
    let mut p = Program::new(&arena);
    let mut cases: Vec<(String, Option<&str>)> = vec![
        ("a: &x [1, 2]\nb: *x".into(), Some("{\"a\": [1, 2], \"b\": [1, 2]}")),
        ("&x [*x]".into(), None),
        ("---\na: 1\n---\nb: 2\n".into(), Some("[{\"a\": 1}, {\"b\": 2}]")),
        ("--- 1\n--- 2\n...\n".into(), Some("[1, 2]")),
        ("a: *undefined".into(), None),
        ("? [1, 2]\n: 3".into(), None),
        ("0x1F".into(), Some("31")),
        ("0o17".into(), Some("15")),
        ("- 1\n- - 2\n  - 3\n".into(), Some("[1, [2, 3]]")),
    ];
    for depth in [1usize, 50, 99, 100, 101, 1000, 10_000] {
        cases.push((format!("{}1{}", "[".repeat(depth), "]".repeat(depth)), None));
        cases.push((format!("{}", "- ".repeat(depth) + "1"), None));
        cases.push((format!("{}", "{a: ".repeat(depth) + "1" + &"}".repeat(depth)), None));
    }
    for (text, want) in cases {
        let o = eval(&mut p, &format!("std.parseYaml({})", escape_str(&text)));
        total.evaluations += 1;
        let case = json!({"type":"parseYaml","text":util::truncate(&text, 300)});
        match (&o, want) {
            (Outcome::Panic(m), _) => total.violation(format!("C20/panic/{}", util::panic_site(m)), format!("parseYaml({:?}): {m}", util::truncate(&text, 80)), case),
            (Outcome::Value(s), Some(w)) => {
                if parse_json_tree(s).map(|t| t.show()) != parse_json_tree(w).map(|t| t.show()) {
                    total.violation("C20/parseYaml/wrong-value", format!("parseYaml({text:?}) gives {s}, expected {w}"), case);
                }
            }
            (o, Some(w)) => total.violation("C20/parseYaml/rejected-valid", format!("parseYaml({text:?}) should be {w} but gives {}", o.short()), case),
            _ => {}
        }
    }
}

// ------------------------------------------------------------------ 4. base64, 5. UTF-8, 6. digests, 7. escapes

fn bytes_src(b: &[u8]) -> String {
    format!("[{}]", b.iter().map(|x| x.to_string()).collect::<Vec<_>>().join(", "))
}

fn check_base64(ctx: &Ctx, total: &mut Report) {
    let mut arrays: Vec<Vec<u8>> = vec![vec![]];
    for a in 0..=255u8 {
        arrays.push(vec![a]);
    }
    for a in 0..=255u8 {
        for bb in 0..=255u8 {
            if ctx.quick() && (a % 5 != 0 && bb % 7 != 0) {
                continue;
            }
            arrays.push(vec![a, bb]);
        }
    }
    let pool: Vec<u8> = if ctx.quick() { vec![0, 1, 0x3e, 0x3f, 0x7f, 0x80, 0xfb, 0xff] } else { (0..32).map(|i| (i * 8 + (i % 8)) as u8).chain([0xfb, 0xff, 0x3e, 0x3f]).collect() };
    for &a in &pool {
        for &bb in &pool {
            for &c in &pool {
                arrays.push(vec![a, bb, c]);
            }
        }
    }
    for len in 4..=9usize {
        util::for_each_seq(4, len.min(6), |seq| {
            let mut v: Vec<u8> = seq.iter().map(|&i| [0u8, 0x7f, 0x80, 0xff][i]).collect();
            v.resize(len, 0xff);
            arrays.push(v);
        });
    }
    let enc = oracle::python(&arrays.iter().map(|a| json!({"op":"b64enc","bytes":a})).collect::<Vec<_>>());
    // decoder inputs
    let dchars = ["A", "/", "+", "=", "a", "9", "-", "é", "_", " "];
    let mut dec_in: Vec<String> = Vec::new();
    for len in 0..=(if ctx.quick() { 4 } else { 5 }) {
        util::for_each_seq(dchars.len(), len, |seq| dec_in.push(seq.iter().map(|&i| dchars[i]).collect()));
    }
    for s in ["QUJD", "QUI=", "QQ==", "QUJDRA==", "QUJDREU=", "QUJDREVG", "QQ=A", "Q===", "QUI", "=QUI", "QU=I", "QUJD\n", "QUJDQQ", "/+/+"] {
        dec_in.push(s.to_string());
    }
    let dec = oracle::python(&dec_in.iter().map(|s| json!({"op":"b64dec","s":s})).collect::<Vec<_>>());
    let cfg = util::ForkCfg { threads: ctx.threads, mem_bytes: 4 << 30, case_timeout_s: 60, died_signature: "C20/abort".into(), resource_is_violation: false };
    let r = util::par_forked(&cfg, 64, |sh| {
        let mut rep = Report::new();
        let arena = Arena::new();
        let mut p = Program::new(&arena);
        for (i, a) in arrays.iter().enumerate() {
            if !sh.mine(i as u64) {
                continue;
            }
            let want = enc[i].as_str().unwrap_or("");
            let src = format!("local b = {}; local e = std.base64(b); [e, std.base64DecodeBytes(e) == b]", bytes_src(a));
            let o = eval(&mut p, &src);
            rep.evaluations += 1;
            rep.states += 1;
            rep.traces_validated += 1;
            rep.outcome("base64-bytes");
            let ok = matches!(&o, Outcome::Value(s) if serde_json::from_str::<J>(s).ok() == Some(json!([want, true])));
            if !ok {
                rep.violation("C20/base64", format!("base64 of bytes {a:?}: {} (standard: {want})", o.short()), json!({"type":"eval","source":src}));
            }
            // strings with code points <= 255 are encoded as UTF-8 text
            if a.len() <= 2 && a.iter().all(|&x| x >= 0x20 && x != b'"' && x != b'\\' && x < 0x7f) {
                let s: String = a.iter().map(|&x| x as char).collect();
                let o2 = eval(&mut p, &format!("local s = {}; [std.base64(s), std.base64Decode(std.base64(s)) == s]", escape_str(&s)));
                if !matches!(&o2, Outcome::Value(t) if serde_json::from_str::<J>(t).ok() == Some(json!([want, true]))) {
                    rep.violation("C20/base64-string", format!("base64 of string {s:?}: {}", o2.short()), json!({"type":"eval","source":src}));
                }
            }
            rep.distinct(&(a.len(), a.first().map(|x| x >> 6), a.last().map(|x| x & 3)));
        }
        for (i, s) in dec_in.iter().enumerate() {
            if !sh.mine(i as u64) {
                continue;
            }
            let src = format!("std.base64DecodeBytes({})", escape_str(s));
            let o = eval(&mut p, &src);
            rep.evaluations += 1;
            rep.states += 1;
            rep.traces_validated += 1;
            let case = json!({"type":"eval","source":src});
            match (&dec[i], &o) {
                (_, Outcome::Panic(m)) => rep.violation(format!("C20/panic/{}", util::panic_site(m)), format!("`{src}`: {m}"), case),
                (J::String(k), _) if k == "noncanonical" => rep.outcome("base64-noncanonical:dont-care"),
                (J::String(_), o) => {
                    rep.outcome("base64-invalid");
                    if !o.is_fail() {
                        rep.violation("C20/base64Decode/accepted-invalid", format!("`{src}` is not valid base64 but gives {}", o.short()), case);
                    }
                }
                (J::Array(w), Outcome::Value(t)) => {
                    rep.outcome("base64-valid");
                    if serde_json::from_str::<J>(t).ok() != Some(J::Array(w.clone())) {
                        rep.violation("C20/base64Decode/wrong-bytes", format!("`{src}` gives {t}, expected {w:?}"), case);
                    }
                }
                (J::Array(w), o) => rep.violation("C20/base64Decode/rejected-valid", format!("`{src}` should decode to {w:?} but gives {}", o.short()), case),
                _ => {}
            }
        }
        rep
    });
    total.extra.insert("base64_byte_arrays".into(), json!(arrays.len()));
    total.extra.insert("base64_decoder_inputs".into(), json!(dec_in.len()));
    total.merge(r);
}

fn check_utf8(ctx: &Ctx, total: &mut Report) {
    let cfg = util::ForkCfg { threads: ctx.threads, mem_bytes: 4 << 30, case_timeout_s: 60, died_signature: "C20/abort".into(), resource_is_violation: false };
    let border: Vec<u8> = vec![0x00, 0x7F, 0x80, 0xBF, 0xC0, 0xC1, 0xC2, 0xDF, 0xE0, 0xED, 0xEF, 0xF0, 0xF4, 0xF5, 0xFF, 0x9F, 0xA0, 0x8F, 0x90];
    let mut seqs: Vec<Vec<u8>> = Vec::new();
    for len in 0..=(if ctx.quick() { 3 } else { 4 }) {
        util::for_each_seq(border.len(), len, |s| seqs.push(s.iter().map(|&i| border[i]).collect()));
    }
    let r = util::par_forked(&cfg, 128, |sh| {
        let mut rep = Report::new();
        let arena = Arena::new();
        let mut p = Program::new(&arena);
        // every scalar value: encodeUTF8 gives its UTF-8 bytes, decodeUTF8 inverts
        let mut cp = sh.index as u32;
        let mut batch: Vec<char> = Vec::new();
        let mut flush = |batch: &mut Vec<char>, rep: &mut Report, p: &mut Program<'_>| {
            if batch.is_empty() {
                return;
            }
            let items: Vec<String> = batch.iter().map(|c| escape_str(&c.to_string())).collect();
            let src = format!("[[std.encodeUTF8(s), std.decodeUTF8(std.encodeUTF8(s)) == s] for s in [{}]]", items.join(", "));
            let o = eval(p, &src);
            rep.evaluations += 1;
            match &o {
                Outcome::Value(t) => {
                    let v: J = serde_json::from_str(t).unwrap();
                    for (k, c) in batch.iter().enumerate() {
                        rep.states += 1;
                        rep.traces_validated += 1;
                        let mut buf = [0u8; 4];
                        let want: Vec<u8> = c.encode_utf8(&mut buf).as_bytes().to_vec();
                        if v[k] != json!([want, true]) {
                            rep.violation("C20/encodeUTF8", format!("U+{:04X}: {}", *c as u32, v[k]), json!({"type":"scalar","cp":*c as u32}));
                        }
                    }
                }
                o => rep.violation(format!("C20/encodeUTF8/{}", o.class()), format!("batch at U+{:04X}: {}", batch[0] as u32, o.short()), json!({"type":"scalar","cp":batch[0] as u32})),
            }
            batch.clear();
        };
        while cp <= 0x10FFFF {
            if let Some(c) = char::from_u32(cp) {
                batch.push(c);
            }
            if batch.len() >= 128 {
                flush(&mut batch, &mut rep, &mut p);
            }
            cp += sh.n as u32;
        }
        flush(&mut batch, &mut rep, &mut p);
        rep.outcome("scalar-sweep");
        for (i, s) in seqs.iter().enumerate() {
            if !sh.mine(i as u64) {
                continue;
            }
            let want = String::from_utf8_lossy(s).to_string();
            let src = format!("std.decodeUTF8({})", bytes_src(s));
            let o = eval(&mut p, &src);
            rep.evaluations += 1;
            rep.states += 1;
            rep.traces_validated += 1;
            rep.outcome(if std::str::from_utf8(s).is_ok() { "valid-utf8" } else { "invalid-utf8" });
            rep.distinct(&(s.len(), want.chars().filter(|c| *c == '\u{FFFD}').count()));
            let ok = matches!(&o, Outcome::Value(t) if serde_json::from_str::<String>(t).ok().as_deref() == Some(want.as_str()));
            if !ok {
                rep.violation("C20/decodeUTF8", format!("decodeUTF8({s:02x?}) gives {}, lossy decoding gives {want:?}", o.short()), json!({"type":"eval","source":src}));
            }
        }
        rep
    });
    total.extra.insert("utf8_byte_sequences".into(), json!(seqs.len()));
    total.merge(r);
}

fn check_digests(ctx: &Ctx, total: &mut Report) {
    let maxlen = if ctx.quick() { 300 } else { 600 };
    let mut msgs: Vec<Vec<u8>> = (0..=maxlen).map(|n| (0..n).map(|i| b'a' + (i % 23) as u8).collect()).collect();
    for s in ["é", "€😀", "\u{0}", "The quick brown fox jumps over the lazy dog"] {
        msgs.push(s.as_bytes().to_vec());
    }
    let algs = ["md5", "sha1", "sha256", "sha512", "sha3"];
    let mut reqs = Vec::new();
    for m in &msgs {
        for a in algs {
            reqs.push(json!({"op":"hash","alg":a,"bytes":m}));
        }
    }
    let ans = oracle::python(&reqs);
    let arena = Arena::new();
    let mut p = Program::new(&arena);
    for (i, m) in msgs.iter().enumerate() {
        let text = String::from_utf8(m.clone()).unwrap();
        let src = format!("local s = {}; [std.md5(s), std.sha1(s), std.sha256(s), std.sha512(s), std.sha3(s)]", escape_str(&text));
        let o = eval(&mut p, &src);
        total.evaluations += 5;
        total.states += 1;
        total.traces_validated += 5;
        total.outcome("digest");
        let want: Vec<J> = (0..5).map(|k| ans[i * 5 + k].clone()).collect();
        if !matches!(&o, Outcome::Value(t) if serde_json::from_str::<J>(t).ok() == Some(J::Array(want.clone()))) {
            total.violation("C20/digest", format!("message of {} bytes: {} (hashlib: {:?})", m.len(), util::truncate(&o.short(), 200), want), json!({"type":"eval","source":util::truncate(&src, 400)}));
        }
    }
    total.extra.insert("digest_messages".into(), json!(msgs.len()));
}

fn sh_unquote(s: &str) -> Option<String> {
    // POSIX shell word consisting of single-quoted parts and \' between them
    let cs: Vec<char> = s.chars().collect();
    let mut out = String::new();
    let mut i = 0;
    while i < cs.len() {
        match cs[i] {
            '\'' => {
                i += 1;
                while i < cs.len() && cs[i] != '\'' {
                    out.push(cs[i]);
                    i += 1;
                }
                if i >= cs.len() {
                    return None;
                }
                i += 1;
            }
            '\\' => {
                out.push(*cs.get(i + 1)?);
                i += 2;
            }
            '"' => {
                i += 1;
                while i < cs.len() && cs[i] != '"' {
                    if cs[i] == '\\' || cs[i] == '$' || cs[i] == '`' {
                        return None;
                    }
                    out.push(cs[i]);
                    i += 1;
                }
                if i >= cs.len() {
                    return None;
                }
                i += 1;
            }
            _ => return None,
        }
    }
    Some(out)
}

fn xml_decode(s: &str) -> Option<String> {
    let mut out = String::new();
    let mut rest = s;
    while let Some(pos) = rest.find('&') {
        out.push_str(&rest[..pos]);
        let end = rest[pos..].find(';')? + pos;
        out.push(match &rest[pos + 1..end] {
            "lt" => '<',
            "gt" => '>',
            "amp" => '&',
            "quot" => '"',
            "apos" => '\'',
            _ => return None,
        });
        rest = &rest[end + 1..];
    }
    if rest.contains('<') || rest.contains('>') || rest.contains('"') || rest.contains('\'') {
        return None;
    }
    out.push_str(rest);
    Some(out)
}

fn check_escapes(ctx: &Ctx, total: &mut Report) {
    let cfg = util::ForkCfg { threads: ctx.threads, mem_bytes: 4 << 30, case_timeout_s: 60, died_signature: "C20/abort".into(), resource_is_violation: false };
    let alpha: Vec<char> = vec!['a', '"', '\'', '\\', '$', '<', '>', '&', '\n', '\t', '\u{0}', '\u{1a}', '\u{1f}', '\u{7f}', '\u{85}', 'é', '😀', ' ', '`', '!'];
    let mut strs: Vec<String> = Vec::new();
    for len in 0..=(if ctx.quick() { 2 } else { 3 }) {
        util::for_each_seq(alpha.len(), len, |s| strs.push(s.iter().map(|&i| alpha[i]).collect()));
    }
    // python literal decoding answers for the python escape
    let r = util::par_forked(&cfg, 128, |sh| {
        let mut rep = Report::new();
        let arena = Arena::new();
        let mut p = Program::new(&arena);
        let mut inputs: Vec<String> = strs.iter().enumerate().filter(|(i, _)| sh.mine(*i as u64)).map(|(_, s)| s.clone()).collect();
        let mut cp = sh.index as u32;
        while cp <= 0x10FFFF {
            if let Some(c) = char::from_u32(cp) {
                inputs.push(format!("x{c}y"));
            }
            cp += sh.n as u32 * if ctx.quick() { 3 } else { 1 };
        }
        let mut py_reqs = Vec::new();
        let mut py_idx = Vec::new();
        for chunk in inputs.chunks(64) {
            let items: Vec<String> = chunk.iter().map(|s| escape_str(s)).collect();
            let src = format!("[[std.escapeStringJson(s), std.escapeStringPython(s), std.escapeStringBash(s), std.escapeStringDollars(s), std.escapeStringXML(s)] for s in [{}]]", items.join(", "));
            let o = eval(&mut p, &src);
            rep.evaluations += 1;
            let Outcome::Value(t) = &o else {
                rep.violation(format!("C20/escape/{}", o.class()), format!("escape batch: {}", o.short()), json!({"type":"eval","source":util::truncate(&src, 300)}));
                continue;
            };
            let v: J = serde_json::from_str(t).unwrap();
            for (k, s) in chunk.iter().enumerate() {
                rep.states += 1;
                rep.traces_validated += 5;
                rep.transitions += 5;
                let e = |j: usize| v[k][j].as_str().unwrap_or("").to_string();
                let case = json!({"type":"escape","s":s});
                if serde_json::from_str::<String>(&e(0)).ok().as_deref() != Some(s.as_str()) || refjson::parse(&e(0)).is_err() {
                    rep.violation("C20/escapeStringJson", format!("escapeStringJson({s:?}) = {:?} does not decode back", e(0)), case.clone());
                }
                py_reqs.push(json!({"op":"pyliteral","s":e(1)}));
                py_idx.push((s.clone(), e(1)));
                if sh_unquote(&e(2)).as_deref() != Some(s.as_str()) {
                    rep.violation("C20/escapeStringBash", format!("escapeStringBash({s:?}) = {:?} does not read back as the input", e(2)), case.clone());
                }
                if e(3).replace("$$", "\u{1}") .contains('$') || e(3).replace("$$", "$") != *s {
                    rep.violation("C20/escapeStringDollars", format!("escapeStringDollars({s:?}) = {:?}", e(3)), case.clone());
                }
                if xml_decode(&e(4)).as_deref() != Some(s.as_str()) {
                    rep.violation("C20/escapeStringXML", format!("escapeStringXML({s:?}) = {:?} does not decode back", e(4)), case.clone());
                }
            }
        }
        let ans = oracle::python(&py_reqs);
        for ((s, lit), a) in py_idx.iter().zip(ans.iter()) {
            if a["v"].as_str() != Some(s.as_str()) {
                rep.violation("C20/escapeStringPython", format!("escapeStringPython({s:?}) = {lit:?}; ast.literal_eval gives {a}"), json!({"type":"escape","s":s}));
            }
        }
        rep.outcome("escape-roundtrip");
        rep.distinct(&sh.index);
        rep
    });
    total.extra.insert("escape_strings".into(), json!(strs.len()));
    total.merge(r);
}

pub fn run(ctx: &Ctx) -> i32 {
    let mut total = Report::new();
    check_radix(ctx, &mut total);
    let cfg = util::ForkCfg { threads: ctx.threads, mem_bytes: 4 << 30, case_timeout_s: 120, died_signature: "C20/abort".into(), resource_is_violation: false };
    let jl = if ctx.quick() { 3 } else { 5 };
    {
        let nl = if ctx.quick() { 5 } else { 7 };
        let mut n = 0u64;
        for len in 1..=nl {
            for wrap in 0..3u8 {
                if wrap > 0 && len > nl - 1 {
                    continue;
                }
                let r = util::par_forked(&cfg, if len >= 5 { 128 } else { 16 }, |sh| json_sweep_over(NUMBER_SYMBOLS, len, wrap, sh));
                n += r.states;
                total.merge(r);
            }
        }
        total.extra.insert("number_grammar_texts".into(), json!(n));
    }
    // \u escapes: every pair / lone unit over the borders of the surrogate ranges and their
    // neighbours, as string value, key and array element
    {
        let units: Vec<String> = ["d7ff", "d800", "d801", "dafe", "db7f", "db80", "dbfe", "dbff", "dc00", "dc01", "dffe", "dfff", "e000", "0041", "fffe", "ffff", "DBFF", "DC00"].iter().map(|u| format!("\\u{u}")).collect();
        let toks: Vec<&str> = units.iter().map(|s| s.as_str()).collect();
        let mut n = 0u64;
        for len in 1..=3 {
            for wrap in 3..6u8 {
                if len == 3 && wrap != 3 {
                    continue;
                }
                let r = util::par_forked(&cfg, 16, |sh| json_sweep_over(&toks, len, wrap, sh));
                n += r.states;
                total.merge(r);
            }
        }
        total.extra.insert("unicode_escape_texts".into(), json!(n));
    }
    for len in 1..=jl {
        let r = util::par_forked(&cfg, if len >= 4 { 512 } else { 64 }, |sh| json_sweep(len, sh));
        total.extra.insert(format!("json_token_sequences_len{len}"), json!(r.states));
        total.merge(r);
    }
    let yl = if ctx.quick() { 3 } else { 4 };
    for len in 1..=yl {
        let r = util::par_forked(&cfg, if len >= 4 { 512 } else { 64 }, |sh| yaml_sweep(len, sh));
        total.extra.insert(format!("yaml_token_sequences_len{len}"), json!(r.states));
        total.merge(r);
    }
    yaml_specials(&mut total);
    check_base64(ctx, &mut total);
    check_utf8(ctx, &mut total);
    check_digests(ctx, &mut total);
    check_escapes(ctx, &mut total);
    util::finish(
        ctx,
        LevelInfo {
            level: "model_checking",
            rule: "parseInt/Octal/Hex: digit-pattern strings of every listed length with a non-digit at every position (oracle: Python int()+float()); parseJson: all token sequences up to the bound over 31 JSON tokens (model: ref_json, strict RFC 8259 + duplicate keys; cross-checked with serde_json), parseYaml on every valid JSON document among them; parseYaml totality on all token sequences up to the bound over 39 YAML tokens + anchors/multi-doc/nesting probes; base64 on all byte arrays of length <=2 (+3 over a pool) and all short decoder inputs (oracle: Python base64); encode/decodeUTF8 on every scalar value and all border byte sequences; digests for every message length 0..300 (oracle: hashlib); escapeString* round trips on every scalar value and all short strings over a 20-character alphabet. distinct+nontrivial = distinct (model verdict, token classes) etc.".into(),
            assumptions: vec!["JSON documents with lone surrogate escapes are don't-care".into(), "a JSON number outside the finite doubles must be rejected (C06)".into()],
        },
        total,
    )
}

pub fn replay(v: &serde_json::Value) -> i32 {
    let c = &v["case"];
    let src = match c["type"].as_str().unwrap_or("") {
        "parseJson" => format!("std.parseJson({})", escape_str(c["text"].as_str().unwrap())),
        "parseYaml" => format!("std.parseYaml({})", escape_str(c["text"].as_str().unwrap())),
        _ => c["source"].as_str().unwrap_or("null").to_string(),
    };
    println!("{src}\n  => {}", rt::run_fresh(src.as_bytes(), &RunCfg::default()).outcome.short());
    if let Some(t) = c["text"].as_str() {
        println!("  ref_json: {:?}", refjson::parse(t).map(|t| t.show()));
    }
    1
}
