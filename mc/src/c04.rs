//! C04 — evaluation is call-by-need: unused parts never run, used parts run once.
//! For every corpus program and every node: (A) wrap the node in std.trace and compare how often
//! it runs with the reference interpreter (0 = never, 1 = once, n = once per instantiation);
//! (B) a node that never runs is replaced by a failing expression: the outcome must not change;
//! (C) meaning-preserving rewrites at the node leave value, message and trace output unchanged.
use crate::c09::{nth, replace_nth};
use crate::corpus::{self, Profile};
use crate::refeval::{self, RefOutcome};
use crate::rt::{self, RunCfg};
use crate::syntax::{self, *};
use crate::util::{self, Ctx, LevelInfo, Report};
use rsjsonnet_lang::arena::Arena;
use rsjsonnet_lang::program::Program;
use serde_json::json;

fn stdcall(name: &str, args: Vec<E>) -> E {
    E::Call(b(E::Field(b(var("std")), name.into())), args.into_iter().map(Arg::Pos).collect(), false)
}

#[derive(Clone, Debug, PartialEq)]
struct Obs {
    outcome: String,
    traces: Vec<String>,
}

fn run_impl<'p>(p: &mut Program<'p>, e: &E) -> Result<Obs, String> {
    let src = syntax::print(e, syntax::MINIMAL);
    let r = util::catch(|| rt::run_on(p, src.as_bytes(), &RunCfg { max_stack: Some(200), ..Default::default() }))?;
    let mut outcome = r.outcome.semantic();
    if matches!(r.outcome.eval_kind(), Some("StackOverflow") | Some("InfiniteRecursion")) {
        outcome = "E rec".into();
    }
    Ok(Obs { outcome, traces: r.traces })
}

fn count(tr: &[String], label: &str) -> usize {
    tr.iter().filter(|t| *t == label).count()
}

pub fn rewrites(site: &E) -> Vec<(&'static str, E)> {
    let e = site.clone();
    let mut v = vec![
        ("local-naming", E::Local(vec![Bind { name: "v__".into(), params: None, body: e.clone() }], b(var("v__")))),
        ("identity-call", E::Call(b(E::Paren(b(E::Func(vec![Param { name: "v__".into(), default: None }], b(var("v__")))))), vec![Arg::Pos(e.clone())], false)),
        ("one-element-array", E::Index(b(E::Array(vec![e.clone()])), b(num(0)))),
        ("dead-local", E::Local(vec![Bind { name: "dead__".into(), params: None, body: E::Error(b(strlit("DEAD"))) }], b(e.clone()))),
        ("dead-defaulted-parameter", E::Call(b(E::Paren(b(E::Func(vec![Param { name: "v__".into(), default: None }, Param { name: "dead__".into(), default: Some(E::Error(b(strlit("DEAD")))) }], b(var("v__")))))), vec![Arg::Pos(e.clone())], false)),
        ("dead-array-element", E::Index(b(E::Array(vec![e.clone(), E::Error(b(strlit("DEAD")))])), b(num(0)))),
        ("named-argument", E::Call(b(E::Paren(b(E::Func(vec![Param { name: "v__".into(), default: Some(E::Error(b(strlit("DEAD")))) }], b(var("v__")))))), vec![Arg::Named("v__".into(), e.clone())], false)),
    ];
    if !mentions_self_super_dollar(site) {
        let f = |n: &str, vis: Vis, body: E| Member::Field { name: FieldName::Id(n.into()), plus: false, vis, params: None, body };
        v.push(("one-field-object", E::Field(b(E::Object(vec![f("f__", Vis::Default, e.clone())])), "f__".into())));
        v.push(("dead-hidden-field", E::Field(b(E::Object(vec![f("f__", Vis::Default, e.clone()), f("dead__", Vis::Hidden, E::Error(b(strlit("DEAD"))))])), "f__".into())));
    }
    v
}

pub fn check_program<'p>(p: &mut Program<'p>, e: &E, rep: &mut Report, use_model: bool) -> Result<(), String> {
    let base = run_impl(p, e)?;
    rep.states += 1;
    rep.outcome(if base.outcome.starts_with("V ") { "value" } else if base.outcome == "E rec" { "recursion" } else { "error" });
    let size = node_count(e);
    let case = |kind: &str, k: usize, src: &E| json!({"type":"lazy","kind":kind,"base":syntax::print(e, syntax::MINIMAL),"node":k,"variant":syntax::print(src, syntax::MINIMAL)});
    for k in 0..size {
        let site = nth(e, k).unwrap().clone();
        // no expression can be wrapped around an import path
        if matches!(site, E::Str(_)) && false {
            continue;
        }
        // ---------------- (A) how often does the node run?
        let traced = replace_nth(e, k, &stdcall("trace", vec![strlit("b__"), site.clone()]));
        let t = run_impl(p, &traced)?;
        rep.evaluations += 1;
        rep.traces_validated += 1;
        rep.transitions += 1;
        let runs = count(&t.traces, "b__");
        rep.distinct(&(runs.min(3), crate::features::kind_bit(&site), base.outcome.starts_with("V ")));
        if t.outcome != base.outcome {
            rep.violation("C04/trace-changes-outcome", format!("wrapping node {k} of `{}` in std.trace changes the outcome: {} vs {}", syntax::print(e, syntax::MINIMAL), t.outcome, base.outcome), case("trace", k, &traced));
            continue;
        }
        if use_model && base.outcome.starts_with("V ") {
            let m = refeval::run_ref(&traced);
            // (a tailstrict call forces its arguments in the specification, in the
            // implementation only in tail position: run counts are not compared then)
            if let (RefOutcome::Value(_), 0) = (&m.outcome, m.tailstrict_calls) {
                let want = count(&m.traces, "b__");
                rep.count("model_counts_compared", 1);
                if want != runs {
                    let sig = if runs > want { if want == 0 { "C04/unused-part-evaluated" } else { "C04/evaluated-more-than-once" } } else { "C04/evaluated-less-than-model" };
                    rep.violation(sig, format!("node {k} of `{}` runs {runs} times, the reference semantics runs it {want} times", syntax::print(e, syntax::MINIMAL)), case("count", k, &traced));
                }
            }
        }
        // ---------------- (B) never run => may be anything
        if runs == 0 && base.outcome.starts_with("V ") {
            let boom = replace_nth(e, k, &E::Error(b(strlit("BOOM__"))));
            let o = run_impl(p, &boom)?;
            rep.evaluations += 1;
            if o != base {
                rep.violation("C04/dead-part-changes-outcome", format!("node {k} of `{}` is never evaluated, but replacing it by an error changes the outcome: {} vs {}", syntax::print(e, syntax::MINIMAL), o.outcome, base.outcome), case("dead", k, &boom));
            }
        }
        // ---------------- (C) rewrites
        for (name, r) in rewrites(&site) {
            let rewritten = replace_nth(e, k, &r);
            let o = run_impl(p, &rewritten)?;
            rep.evaluations += 1;
            rep.transitions += 1;
            if o != base {
                rep.violation(format!("C04/rewrite/{name}"), format!("rewrite {name} at node {k} of `{}` gives {} traces {:?}, original {} traces {:?}", syntax::print(e, syntax::MINIMAL), o.outcome, o.traces, base.outcome, base.traces), case(name, k, &rewritten));
            }
        }
    }
    Ok(())
}

fn sweep(profile: Profile, n: usize, sh: &util::Shard) -> Report {
    let mut rep = Report::new();
    let mut batch: Vec<(u64, E)> = Vec::new();
    let process = |batch: &mut Vec<(u64, E)>, rep: &mut Report| {
        let arena = Arena::new();
        let mut p = Program::new(&arena);
        for (idx, e) in batch.drain(..) {
            if !sh.begin_case(idx, &|| syntax::print(&e, syntax::MINIMAL)) {
                continue;
            }
            if let Err(m) = check_program(&mut p, &e, rep, true) {
                rep.violation(format!("C04/panic/{}", util::panic_site(&m)), format!("panic on a variant of `{}`: {m}", syntax::print(&e, syntax::MINIMAL)), json!({"type":"lazy-base","base":syntax::print(&e, syntax::MINIMAL)}));
                return;
            }
            if idx % 3001 == 0 {
                rep.sample(json!({"base": syntax::print(&e, syntax::MINIMAL), "nodes": node_count(&e)}));
            }
        }
    };
    corpus::for_each_sharded(profile, n, sh.index, sh.n, &mut |idx, e| {
        batch.push((idx, e));
        if batch.len() >= 100 {
            while !batch.is_empty() {
                process(&mut batch, &mut rep);
            }
        }
    });
    while !batch.is_empty() {
        process(&mut batch, &mut rep);
    }
    rep
}

/// Hand-written seeds with builtins that take functions / build lazy structures: each marked
/// site `@{...}@` is a position that must (or must not) run; checked by (B)-style replacement.
pub const SEEDS: &[(&str, &str)] = &[
    ("std.map(function(x) x + 1, [1, @@])[0]", "2"),
    ("std.length(std.map(function(x) @@, [1, 2, 3]))", "3"),
    ("std.makeArray(3, function(i) if i == 1 then @@ else i)[2]", "2"),
    ("std.length(std.makeArray(3, function(i) @@))", "3"),
    ("std.mapWithKey(function(k, v) @@, {a: 1, b: 2}) == null", "false"),
    ("std.objectFields(std.mapWithKey(function(k, v) @@, {a: 1}))", "[\"a\"]"),
    ("std.foldl(function(acc, x) acc, [@@, @@], 7)", "7"),
    ("std.length(std.filter(function(x) true, [@@, @@]))", "2"),
    ("std.sort([3, 1, 2], keyF=function(x) x)[0] + std.length([@@])", "2"),
    ("std.length(std.flatMap(function(x) [@@, x], [1, 2]))", "4"),
    ("std.objectValues({a: 1, b: @@})[0]", "1"),
    ("std.length(std.objectValues({a: @@}))", "1"),
    ("std.objectFields({a: @@, b:: @@})", "[\"a\"]"),
    ("std.length({a: @@})", "1"),
    ("std.objectHas({a: @@}, \"a\")", "true"),
    ("\"a\" in {a: @@}", "true"),
    ("std.length([@@, @@])", "2"),
    ("[@@, 2][1]", "2"),
    ("{a: @@, b: 2}.b", "2"),
    ("local x = @@; 1", "1"),
    ("(function(x, y) y)(@@, 2)", "2"),
    ("(function(x, y=@@) x)(1)", "1"),
    ("(function(x=@@) x)(1)", "1"),
    ("if true then 1 else @@", "1"),
    ("true || @@", "true"),
    ("false && @@", "false"),
    ("std.type([@@])", "\"array\""),
    ("std.type({a: @@})", "\"object\""),
    ("std.type(function() @@)", "\"function\""),
    ("({a: 1} + {b: @@}).a", "1"),
    ("({a: @@} + {a: 2}).a", "2"),
    ("std.length(std.repeat([@@], 3))", "3"),
    ("std.length(std.reverse([@@, @@]))", "2"),
    ("std.reverse([1, @@])[1]", "1"),
    ("std.slice([@@, 2, @@], 1, 2, 1)", "[2]"),
    ("[@@, 2, 3][1:2]", "[2]"),
    ("std.length(std.range(1, 3) + [@@])", "4"),
    ("std.length(std.join([@@], [[1], [2]]))", "3"),
    ("std.objectFields(std.mergePatch({a: 1}, {b: 2}) + {c: @@})", "[\"a\", \"b\", \"c\"]"),
    ("std.length(std.objectKeysValues({a: @@}))", "1"),
    ("std.objectKeysValues({a: @@})[0].key", "\"a\""),
    ("std.length(std.mapWithIndex(function(i, x) @@, [1, 2]))", "2"),
    ("std.get({a: 1}, \"a\", @@)", "1"),
    ("std.get({a: @@}, \"b\", 2)", "2"),
    ("std.member([1, @@], 1)", "true"),
    ("std.count([1, 1], 1) + std.length([@@])", "3"),
    ("std.prune({a: 1}) == {a: 1} || @@", "true"),
    ("std.all([false, @@])", "false"),
    ("std.any([true, @@])", "true"),
    ("std.setMember(1, [1]) || @@", "true"),
    ("local f(n, acc) = if n == 0 then acc else f(n - 1, @@) tailstrict; 1", "1"),
    // builtins that pass an argument or an element through without looking at it
    ("std.foldl(function(acc, x) x, [1, 2], @@)", "2"),
    ("std.foldr(function(x, acc) x, [1, 2], @@)", "1"),
    ("std.foldl(function(acc, x) acc, [@@, @@], 5)", "5"),
    ("std.foldr(function(x, acc) acc, [@@, @@], 5)", "5"),
    ("std.foldl(function(a, x) a + 1, [@@, @@], 0)", "2"),
    ("std.length(std.filter(function(x) true, [@@]))", "1"),
    ("std.length(std.flatMap(function(x) [x], [@@]))", "1"),
    ("std.length(std.filterMap(function(x) true, function(x) x, [@@]))", "1"),
    ("std.length(std.flattenArrays([[@@], [@@]]))", "2"),
    ("std.objectRemoveKey({a: @@, b: 1}, \"a\").b", "1"),
    ("std.objectFields(std.objectRemoveKey({a: @@, b: 1}, \"b\"))", "[\"a\"]"),
    ("std.length(std.removeAt([@@, 1], 1))", "1"),
    ("std.length(std.sort([@@], function(x) 1))", "1"),
    ("std.length(std.makeArray(2, function(i) @@))", "2"),
    ("std.length(std.map(function(x) @@, [1, 2]))", "2"),
    ("std.length(std.mapWithKey(function(k, v) @@, {a: 1}))", "1"),
    ("std.length(std.objectValuesAll({a:: @@}))", "1"),
    ("std.length(std.objectKeysValuesAll({a:: @@}))", "1"),
    ("std.objectHasAll({a:: @@}, \"a\")", "true"),
    ("std.length(std.uniq([@@]))", "1"),
    ("std.length(std.set([@@]))", "1"),
    ("std.mapWithIndex(function(i, x) i, [@@])", "[0]"),
    ("std.length(std.setUnion([@@], []))", "1"),
    ("std.length(std.setDiff([@@], []))", "1"),
    ("std.length(std.setInter([@@], []))", "0"),
    ("std.objectFields(std.mergePatch({a: @@, b: 1}, {a: null}))", "[\"b\"]"),
    ("std.length(std.mergePatch({}, {a: {b: @@}}))", "1"),
    ("std.mergePatch({a: 1}, {b: @@}).a", "1"),
    ("[x for x in [@@, 2]][1]", "2"),
    ("[1 for x in [@@, @@]]", "[1, 1]"),
    ("std.length({[k]: @@ for k in [\"a\", \"b\"]})", "2"),
    ("std.length(std.reverse(std.makeArray(3, function(i) @@)))", "3"),
];

/// once-only evaluation through sharing: the traced expression is used several times
pub const ONCE_SEEDS: &[(&str, usize)] = &[
    ("local x = std.trace(\"b__\", 1); x + x + x", 1),
    ("(function(x) x + x)(std.trace(\"b__\", 1))", 1),
    ("local a = [std.trace(\"b__\", 1)]; a[0] + a[0] + (a + [])[0]", 1),
    ("local o = {f: std.trace(\"b__\", 1)}; o.f + o.f", 1),
    ("local o = {f: std.trace(\"b__\", 1), g: self.f + self.f}; o.g + o.f", 1),
    ("local o = {f: std.trace(\"b__\", 1)}; (o + {}).f + o.f", 2),
    ("local o = {f: std.trace(\"b__\", 1)}; local p = o + {}; p.f + p.f", 1),
    ("local a = std.map(function(x) std.trace(\"b__\", x), [1]); a[0] + a[0]", 1),
    ("local a = std.makeArray(2, function(i) std.trace(\"b__\", i)); a[1] + a[1] + a[0]", 2),
    ("local a = [std.trace(\"b__\", x) for x in [1, 2]]; a[0] + a[0] + std.length(a)", 1),
    ("local o = {[k]: std.trace(\"b__\", 1) for k in [\"p\", \"q\"]}; o.p + o.p", 1),
    ("local f(x=std.trace(\"b__\", 1)) = x + x; f() + f()", 2),
    ("local o = {f: std.trace(\"b__\", 1)}; std.length(std.toString(o)) * 0 + o.f", 1),
    ("local o = {f: std.trace(\"b__\", 1)}; [o == o, o.f][1]", 1),
    ("local a = [std.trace(\"b__\", 1)]; [std.sort(a), a][1][0] + std.sort(a)[0]", 1),
    ("local a = [std.trace(\"b__\", 1)]; std.foldl(function(acc, x) acc + x, a + a, 0)", 1),
    ("local o = std.mapWithKey(function(k, v) std.trace(\"b__\", v), {a: 1}); o.a + o.a", 1),
    ("local v = std.objectValues({a: std.trace(\"b__\", 1)}); v[0] + v[0]", 1),
    ("local t = std.trace(\"b__\", {a: 1}); t.a + t.a + std.length(t)", 1),
    ("local x = std.trace(\"b__\", 1); std.foldl(function(a, i) a + x, std.range(1, 10), 0)", 1),
];

/// Results whose parts were partly forced before being embedded: every std.trace sitting in a
/// position of the manifested result fires exactly once (labels are t1, t2, ...).
pub const DEEP_TRACE_SEEDS: &[(&str, &[&str])] = &[
    ("local a = { x: { y: std.trace(\"t1\", 1), z: std.trace(\"t2\", 2) } }; { p: a.x.y, q: a }", &["t1", "t2"]),
    ("local a = { x: { y: std.trace(\"t1\", 1), z: std.trace(\"t2\", 2) } }; { q: a, p: a.x.y }", &["t1", "t2"]),
    ("local a = { x: [std.trace(\"t1\", 1), std.trace(\"t2\", 2)] }; { p: a.x[0], q: a }", &["t1", "t2"]),
    ("local a = [{ y: std.trace(\"t1\", 1), z: std.trace(\"t2\", 2) }]; [a[0].y, a]", &["t1", "t2"]),
    ("local a = { x: { y: std.trace(\"t1\", 1), z: std.trace(\"t2\", 2) } }; local b = a.x.y; [b, a.x]", &["t1", "t2"]),
    ("local a = { x: { [k]: std.trace(\"t\" + k, 1) for k in [\"1\", \"2\"] } }; { p: a.x[\"1\"], q: a }", &["t1", "t2"]),
    ("local a = { x: std.mapWithKey(function(k, v) std.trace(\"t\" + v, v), { m: \"1\", n: \"2\" }) }; { p: a.x.m, q: a }", &["t1", "t2"]),
    ("local a = { assert self.x.y == 1, x: { y: std.trace(\"t1\", 1), z: std.trace(\"t2\", 2) } }; { q: a }", &["t1", "t2"]),
    ("local a = { x: { y: std.trace(\"t1\", 1), z: std.trace(\"t2\", 2) } }; local s = std.length(std.objectFields(a.x)); { s: s, q: a }", &["t1", "t2"]),
    ("local a = { x: { y: std.trace(\"t1\", 1), z: { w: std.trace(\"t2\", 2) } } }; { p: a.x.z, q: a.x.y, r: a }", &["t1", "t2"]),
    ("local a = { x: { y: std.trace(\"t1\", 1), z: std.trace(\"t2\", 2) } }; { p: a.x == { y: 1, z: 2 }, q: a }", &["t1", "t2"]),
    ("local a = { x: { y: std.trace(\"t1\", 1), z: std.trace(\"t2\", 2) } }; [std.toString(a.x.y), a + {}]", &["t1", "t1", "t2"]),
    ("local f(o) = { inner: o }; local a = { y: std.trace(\"t1\", 1), z: std.trace(\"t2\", 2) }; [a.y, f(a), f(a)]", &["t1", "t2"]),
];

/// Every pair of "users" of one object-level local (or of one outer local captured by the
/// object): the local must be evaluated once per object value whatever kinds of members use it.
fn shared_local_programs() -> Vec<(String, usize)> {
    // (member text using `x`, expression that forces the member on object `o`)
    let users: Vec<(&str, &str)> = vec![
        ("f1: x", "o.f1"),
        ("f2:: x + 0", "o.f2"),
        ("[\"c\" + \"1\"]: x", "o.c1"),
        ("[\"c2\"]:: [x]", "o.c2[0]"),
        ("m(p): x + p", "o.m(0)"),
        ("assert x == 1", "o.anchor"),
        ("p1+: x", "o.p1"),
        ("n: {inner: x}", "o.n.inner"),
        ("local y = x, viay: y", "o.viay"),
        ("arr: [x, x]", "o.arr[0] + o.arr[1]"),
        ("fn: function() x", "o.fn() + o.fn()"),
    ];
    let mut v = Vec::new();
    for (i, (m1, u1)) in users.iter().enumerate() {
        for (m2, u2) in users.iter().skip(i) {
            if m1 == m2 {
                continue;
            }
            // object-level local
            v.push((format!("local o = {{ local x = std.trace(\"b__\", 1), anchor: 0, {m1}, {m2} }}; [{u1}, {u2}, {u1}]"), 1));
            // the same object extended: one more object value, one more evaluation at most per value
            v.push((format!("local o = {{ local x = std.trace(\"b__\", 1), anchor: 0, {m1}, {m2} }}; local q = o + {{}}; [{u1}, {u2}, {}]", u1.replace("o.", "q.")), 2));
            // a local outside the object, captured by it: once overall
            v.push((format!("local x = std.trace(\"b__\", 1); local o = {{ anchor: 0, {m1}, {m2} }}; local q = o + {{}}; [{u1}, {u2}, {}, x]", u2.replace("o.", "q.")), 1));
        }
    }
    // comprehension objects: their locals belong to each field's body (the specification
    // desugars them into the body), so they run once per field, not once per object
    v.push(("local o = { local x = std.trace(\"b__\", 1), [k]: x for k in [\"a\", \"b\"] }; [o.a, o.b, o.a]".replace("\\\"", "\""), 2));
    v.push(("local o = { [k.n]: k.v for k in [{n: \"a\", v: std.trace(\"b__\", 1)}] }; [o.a, o.a, (o + {}).a]".replace("\\\"", "\""), 1));
    v
}


// ------------------------------------------------------------------ edited programs

/// Every single edit of the feature-interaction seed programs (C02's) that parses, passes the
/// static rules and yields a value: the full per-node treatment of `check_program`.
fn edit_sweep(two: bool, sh: &util::Shard) -> Report {
    let mut rep = Report::new();
    let mut n = 0u64;
    for seed in crate::c02::SEM_SEEDS {
        // quick tier: fragment edits only (member-/clause-sized pieces); thorough: all
        let alphabet: Vec<&str> = crate::c02::SEM_ALPHABET.iter().copied().filter(|a| two || a.contains(' ')).collect();
        let cases = crate::c01::edit_cases_with(seed, two, &alphabet);
        let base = n;
        n += cases.len() as u64;
        let mut start = 0usize;
        while start < cases.len() {
            let arena = Arena::new();
            let mut p = Program::new(&arena);
            let mut next = cases.len();
            for (ci, src) in cases.iter().enumerate().skip(start) {
                let id = base + ci as u64 + 1;
                if !sh.mine(id) || !sh.begin_case(id, &|| src.clone()) {
                    continue;
                }
                let e = match util::catch(|| crate::c15::impl_parse(src.as_bytes())) {
                    Ok(crate::c15::Parsed::Tree(e, _)) => crate::c15::plain_numbers(&syntax::strip_parens(&e)),
                    _ => continue,
                };
                if !syntax::static_check(&e, true).is_empty() || node_count(&e) > 40 {
                    continue;
                }
                // only programs that yield a value under the small frame limit (the others are C02's)
                match util::catch(|| rt::run_on(&mut p, src.as_bytes(), &RunCfg { max_stack: Some(200), ..Default::default() })) {
                    Ok(r) if r.outcome.is_value() => {}
                    Ok(_) => continue,
                    Err(_) => {
                        next = ci + 1;
                        break;
                    }
                }
                rep.count("edited_programs_treated", 1);
                if let Err(m) = check_program(&mut p, &e, &mut rep, true) {
                    rep.violation(format!("C04/panic/{}", util::panic_site(&m)), format!("panic on a variant of `{src}`: {m}"), json!({"type":"eval","source":src}));
                    next = ci + 1;
                    break;
                }
            }
            start = next;
        }
    }
    rep
}

pub fn run(ctx: &Ctx) -> i32 {
    let plan: Vec<(Profile, usize)> = if ctx.quick() {
        vec![(corpus::LAZY, 3), (corpus::FUNCTIONS, 3), (corpus::OBJECTS, 3), (corpus::COMPS, 3)]
    } else {
        vec![(corpus::LAZY, 4), (corpus::FUNCTIONS, 4), (corpus::OBJECTS, 4), (corpus::COMPS, 4), (corpus::FULL, 3)]
    };
    let mut total = Report::new();
    let cfg = util::ForkCfg { threads: ctx.threads, mem_bytes: 3 << 30, case_timeout_s: 60, died_signature: "C04/abort".into(), resource_is_violation: false };
    for (p, nmax) in plan {
        for n in 1..=nmax {
            corpus::warm(p, n);
            let shards = if n >= 4 { 256 } else { 32 };
            let r = util::par_forked(&cfg, shards, |sh| sweep(p, n, sh));
            total.extra.insert(format!("programs_{}_{}", p.name, n), json!(r.states));
            total.merge(r);
        }
    }
    {
        let r = util::par_forked(&cfg, 256, |sh| edit_sweep(!ctx.quick(), sh));
        total.extra.insert("edited_programs_treated".into(), json!(r.counters.get("edited_programs_treated").copied().unwrap_or(0)));
        total.merge(r);
    }
    // programs whose failing part is not an `error` expression: the rewrites must keep the failure
    {
        const FAILING_LEAVES: &[&str] = &[
            "-(1e400) < 0", "std.type(1e400)", "[1e400][0] < 0", "(1 / 0) < 0", "[][0] == 0", "{}.a == 0", "(\"a\" < 1) == true", "std.extVar(\"nope\") == 0",
            "std.length(1e400 + 0) == 0", "(1e308 * 10) < 0", "std.toString(1e400)", "\"\" + 1e400", "\"%s\" % 1e400", "{a: 1e400}.a < 0 || true", "local f(x) = x; f(1e400) < 0",
            "[x for x in [1e400]][0] < 0", "std.isNumber(1e400)", "(function(x=1e400) x)() < 0", "{local l = 1e400, a: l}.a < 0", "1e400 == 1e400",
        ];
        let arena = Arena::new();
        let mut p = Program::new(&arena);
        for src in FAILING_LEAVES {
            match crate::c15::impl_parse(src.as_bytes()) {
                crate::c15::Parsed::Tree(e, _) => {
                    let e = crate::c15::plain_numbers(&syntax::strip_parens(&e));
                    if let Err(m) = util::catch(|| check_program(&mut p, &e, &mut total, false)).and_then(|r| r) {
                        total.violation(format!("C04/panic/{}", util::panic_site(&m)), format!("panic on a variant of `{src}`: {m}"), json!({"type":"eval","source":src}));
                    }
                }
                _ => eprintln!("ENGINE-ERROR: C04 failing-leaf program does not parse: {src}"),
            }
        }
        total.extra.insert("failing_leaf_programs".into(), json!(FAILING_LEAVES.len()));
    }
    // a part the outcome does not depend on, in programs that FAIL: the failure must stay the
    // same failure whatever the part is, and the part must not run
    {
        const FAILING_TEMPLATES: &[&str] = &[
            "1 && @@", "null || @@", "\"a\" && @@", "[] || @@", "{} && @@", "(function() 1) || @@", "[1 && @@][0]", "{a: null || @@}.a",
            "if 1 then @@ else @@", "(error \"first\") + @@", "[error \"first\", @@][0]", "local x = @@; error \"e\"", "{a: error \"e\", b: @@}.a",
            "std.length(1, @@)", "(function(x) error \"e\")(@@)", "assert false : \"m\"; @@", "{assert false : \"m\", a: @@, b: 1}.b", "1 < \"a\" || @@",
        ];
        for tmpl in FAILING_TEMPLATES {
            let run = |fill: &str| rt::run_fresh(tmpl.replace("@@", fill).as_bytes(), &RunCfg::default());
            let base = run("0");
            let boom = run("(error \"BOOM__\")");
            let traced = run("std.trace(\"b__\", 0)");
            total.evaluations += 3;
            total.states += 1;
            let case = json!({"type":"eval","source":tmpl.replace("@@", "(error \"BOOM__\")")});
            if base.outcome.is_value() {
                total.violation("C04/seed-baseline", format!("`{tmpl}` with 0 should fail but gives {}", base.outcome.short()), case.clone());
                continue;
            }
            // the same failure: error kind and message (spans differ with the length of the part)
            let key = |o: &rt::Outcome| match o {
                rt::Outcome::Eval { kind, msg, detail, .. } => format!("{kind}/{msg:?}/{}", detail.split("message: ").nth(1).map(|m| m.split('"').nth(1).unwrap_or("").to_string()).unwrap_or_default()),
                other => other.exact(),
            };
            if key(&boom.outcome) != key(&base.outcome) {
                total.violation("C04/seed/unused-part-evaluated/in-failing-program", format!("`{tmpl}`: with a harmless part {}, with a failing part {}", base.outcome.short(), boom.outcome.short()), case.clone());
            }
            if !traced.traces.is_empty() {
                total.violation("C04/seed/unused-part-evaluated/in-failing-program", format!("`{tmpl}` evaluates the marked part {} times before failing", traced.traces.len()), case);
            }
        }
        total.extra.insert("failing_templates".into(), json!(FAILING_TEMPLATES.len()));
    }
    // seeds
    for (tmpl, want) in SEEDS {
        // the signature names the builtin nearest before the marked part
        let sig_unused = match tmpl[..tmpl.find("@@").unwrap_or(tmpl.len())].rfind("std.") {
            Some(i) => format!("C04/seed/unused-part-evaluated/std.{}", tmpl[i + 4..].chars().take_while(|c| c.is_ascii_alphanumeric() || *c == '_').collect::<String>()),
            None => "C04/seed/unused-part-evaluated".to_string(),
        };
        let ok_src = tmpl.replace("@@", "0");
        let boom = tmpl.replace("@@", "(error \"BOOM__\")");
        let slow = tmpl.replace("@@", "std.trace(\"b__\", 0)");
        let base = rt::run_fresh(ok_src.as_bytes(), &RunCfg::default());
        let want_norm = crate::c02::parse_json_tree(want).map(|t| t.show());
        let got_norm = match &base.outcome { rt::Outcome::Value(s) => crate::c02::parse_json_tree(s).map(|t| t.show()), _ => None };
        total.evaluations += 3;
        total.states += 1;
        if got_norm.is_none() || got_norm != want_norm {
            total.violation("C04/seed-baseline", format!("`{ok_src}` should be {want} but gives {}", base.outcome.short()), json!({"type":"eval","source":ok_src}));
            continue;
        }
        let b2 = rt::run_fresh(boom.as_bytes(), &RunCfg::default());
        if b2.outcome != base.outcome {
            total.violation(sig_unused.clone(), format!("`{boom}`: {} (with a harmless value instead: {})", b2.outcome.short(), base.outcome.short()), json!({"type":"eval","source":boom}));
        }
        let t = rt::run_fresh(slow.as_bytes(), &RunCfg::default());
        if !t.traces.is_empty() {
            total.violation(sig_unused.clone(), format!("`{slow}` evaluates the marked part {} times", t.traces.len()), json!({"type":"eval","source":slow}));
        }
    }
    for (src, want) in ONCE_SEEDS {
        let r = rt::run_fresh(src.as_bytes(), &RunCfg::default());
        total.evaluations += 1;
        total.states += 1;
        if !r.outcome.is_value() || r.traces.len() != *want {
            total.violation("C04/seed/evaluated-more-than-once", format!("`{src}`: traced part ran {} times (expected {want}), outcome {}", r.traces.len(), r.outcome.short()), json!({"type":"eval","source":src}));
        }
    }
    for (src, want) in DEEP_TRACE_SEEDS {
        let r = rt::run_fresh(src.as_bytes(), &RunCfg::default());
        total.evaluations += 1;
        total.states += 1;
        let mut got = r.traces.clone();
        got.sort();
        let mut w: Vec<String> = want.iter().map(|x| x.to_string()).collect();
        w.sort();
        if !r.outcome.is_value() {
            total.violation("C04/seed-baseline", format!("`{src}`: {}", r.outcome.short()), json!({"type":"eval","source":src}));
        } else if got != w {
            let sig = if got.len() < w.len() { "C04/seed/part-of-the-result-not-evaluated-observably" } else { "C04/seed/evaluated-more-than-once" };
            total.violation(sig, format!("`{src}`: std.trace output {got:?}, expected {w:?} (every traced part of the result exactly once)"), json!({"type":"eval","source":src}));
        }
    }
    let shared = shared_local_programs();
    for (src, max_runs) in &shared {
        let r = rt::run_fresh(src.as_bytes(), &RunCfg::default());
        total.evaluations += 1;
        total.states += 1;
        if !r.outcome.is_value() {
            total.violation("C04/seed-baseline", format!("`{src}`: {}", r.outcome.short()), json!({"type":"eval","source":src}));
        } else if r.traces.len() > *max_runs || r.traces.is_empty() {
            total.violation("C04/seed/evaluated-more-than-once", format!("`{src}`: the shared local ran {} times (expected {})", r.traces.len(), max_runs), json!({"type":"eval","source":src}));
        }
    }
    total.extra.insert("shared_local_programs".into(), json!(shared.len()));
    total.extra.insert("seed_templates".into(), json!(SEEDS.len() + ONCE_SEEDS.len()));
    util::finish(
        ctx,
        LevelInfo {
            level: "model_checking",
            rule: "every program of the lazy/functions/objects/comprehensions corpora up to the node bound, and every single edit of the 22 feature-interaction seed programs that parses, passes the static rules and yields a value, x every node: std.trace wrapping (run count vs reference interpreter), replacement of never-run nodes by a failing expression, 7-9 meaning-preserving rewrites; plus hand-written builtin seeds. distinct+nontrivial = distinct (run count, node kind, value/error)".into(),
            assumptions: vec!["run counts are compared with the model only for programs that yield a value (the order of evaluation before a failure is unspecified)".into()],
        },
        total,
    )
}

pub fn replay(v: &serde_json::Value) -> i32 {
    let c = &v["case"];
    for key in ["base", "variant", "source"] {
        if let Some(src) = c[key].as_str() {
            let r = rt::run_fresh(src.as_bytes(), &RunCfg { max_stack: Some(200), ..Default::default() });
            println!("{key}: {src}\n   => {} traces {:?}", r.outcome.short(), r.traces);
        }
    }
    1
}
