//! C03 — garbage collection is invisible and exact.
//! (a) every small heap shape, (b) every short operation sequence (explicit-state search over
//! the scripted-heap hook H1, conformance with ref_heap on every transition), (c) collections
//! placed between evaluator steps (hook H2), (d) exact return to the baseline object count.
use crate::corpus;
use crate::rt::{self, RunCfg};
use crate::syntax;
use crate::util::{self, Ctx, LevelInfo, Report};
use rsjsonnet_lang::arena::Arena;
use rsjsonnet_lang::program::{Program, VerifGcSchedule};
use rsjsonnet_lang::verif::gc::Heap;
use serde_json::json;

// ------------------------------------------------------------------ (a) heap shapes

/// external state per node: 0 none, 1 one weak, 2 two weak, 3 view, 4 view+weak
fn build_shape(n: usize, ext: &[u8], mult: &[u8]) -> Heap {
    let mut h = Heap::new();
    for i in 0..n {
        if ext[i] >= 3 {
            h.alloc_view();
        } else {
            h.alloc();
        }
    }
    for i in 0..n {
        for j in 0..n {
            for _ in 0..mult[i * n + j] {
                assert!(h.add_edge(i, j));
            }
        }
    }
    for i in 0..n {
        match ext[i] {
            0 => assert!(h.drop_handle(i)),
            2 | 4 => assert!(h.clone_handle(i)),
            _ => {}
        }
    }
    h
}

fn reach(n: usize, ext: &[u8], mult: &[u8]) -> Vec<bool> {
    let mut live = vec![false; n];
    let mut stack: Vec<usize> = (0..n).filter(|&i| ext[i] != 0).collect();
    for &r in &stack {
        live[r] = true;
    }
    while let Some(i) = stack.pop() {
        for j in 0..n {
            if mult[i * n + j] > 0 && !live[j] {
                live[j] = true;
                stack.push(j);
            }
        }
    }
    live
}

fn check_shape(n: usize, ext: &[u8], mult: &[u8], rep: &mut Report) {
    rep.evaluations += 1;
    rep.traces_validated += 1;
    rep.transitions += 2; // two collections
    let expect = reach(n, ext, mult);
    let r = util::catch(|| {
        let mut h = build_shape(n, ext, mult);
        h.gc();
        let live: Vec<bool> = (0..n).map(|i| h.is_live(i)).collect();
        let nlive = expect.iter().filter(|&&b| b).count();
        let flags = h.box_flags();
        let flags_ok = flags.iter().all(|&(v, m)| v == 0 && !m);
        let mut problems = Vec::new();
        if live != expect {
            problems.push(format!("survivors {live:?} but reachable {expect:?}"));
        }
        if h.num_objects() != nlive {
            problems.push(format!("num_objects {} but {} reachable", h.num_objects(), nlive));
        }
        if !flags_ok {
            problems.push(format!("visits/mark not reset: {flags:?}"));
        }
        if problems.is_empty() {
            h.gc();
            let live2: Vec<bool> = (0..n).map(|i| h.is_live(i)).collect();
            if live2 != expect || h.num_objects() != nlive {
                problems.push(format!("second collection changed the heap: {live2:?}"));
            }
            for i in 0..n {
                if ext[i] != 0 {
                    let e = h.edges_of(i).expect("rooted node must be accessible");
                    let want: Vec<usize> = (0..n)
                        .flat_map(|j| std::iter::repeat_n(j, mult[i * n + j] as usize))
                        .collect();
                    if e != want {
                        problems.push(format!("edges of {i} are {e:?}, expected {want:?}"));
                    }
                }
            }
        }
        problems
    });
    let garbage = expect.iter().any(|&b| !b);
    rep.outcome(if garbage { "shape-with-garbage" } else { "shape-all-reachable" });
    let problems = match r {
        Ok(p) => p,
        Err(m) => vec![format!("panic: {m}")],
    };
    if !problems.is_empty() {
        let kind = if problems[0].starts_with("survivors") {
            let under = (0..n).any(|i| expect[i]);
            let _ = under;
            "wrong-survivors"
        } else if problems[0].starts_with("panic") {
            "panic"
        } else {
            "bookkeeping"
        };
        rep.violation(
            format!("C03/shape/{kind}"),
            format!("heap shape n={n} ext={ext:?} edges={mult:?}: {}", problems.join("; ")),
            json!({"type":"gc-shape","n":n,"ext":ext,"mult":mult}),
        );
    }
}

fn shapes(n: usize, maxm: u8, max_edges: Option<usize>, shard: usize, nshards: usize) -> Report {
    let mut rep = Report::new();
    let ne = n * n;
    let mut ext = vec![0u8; n];
    let mut idx = 0u64;
    loop {
        let mut mult = vec![0u8; ne];
        loop {
            let edges: usize = mult.iter().map(|&m| m as usize).sum();
            if max_edges.is_none_or(|m| edges <= m) {
                if (idx % nshards as u64) as usize == shard {
                    check_shape(n, &ext, &mult, &mut rep);
                    rep.states += 1;
                    if idx % 1_000_003 == 7 {
                        rep.sample(json!({"shape": {"n": n, "ext": ext, "edge_multiplicity": mult}}));
                    }
                }
                idx += 1;
            }
            let mut k = 0;
            loop {
                if k == ne {
                    break;
                }
                if mult[k] < maxm {
                    mult[k] += 1;
                    break;
                }
                mult[k] = 0;
                k += 1;
            }
            if k == ne {
                break;
            }
        }
        let mut k = 0;
        loop {
            if k == n {
                break;
            }
            if ext[k] < 4 {
                ext[k] += 1;
                break;
            }
            ext[k] = 0;
            k += 1;
        }
        if k == n {
            break;
        }
    }
    rep
}

// ------------------------------------------------------------------ (b) operation sequences

#[derive(Clone, Copy, Debug, PartialEq, Eq, Hash)]
enum Op {
    A,
    V,
    E(usize, usize),
    D(usize),
    C(usize),
    H(usize),
    W(usize),
    X(usize),
    G,
}

fn op_json(op: Op) -> serde_json::Value {
    json!(format!("{op:?}"))
}

fn parse_op(s: &str) -> Option<Op> {
    let nums: Vec<usize> = s
        .split(|c: char| !c.is_ascii_digit())
        .filter(|x| !x.is_empty())
        .map(|x| x.parse().unwrap())
        .collect();
    Some(match s.chars().next()? {
        'A' => Op::A,
        'V' => Op::V,
        'G' => Op::G,
        'E' => Op::E(nums[0], nums[1]),
        'D' => Op::D(nums[0]),
        'C' => Op::C(nums[0]),
        'H' => Op::H(nums[0]),
        'W' => Op::W(nums[0]),
        'X' => Op::X(nums[0]),
        _ => return None,
    })
}

const MAX_NODES: usize = 3;

#[derive(Clone, Default, Hash, PartialEq, Eq, Debug)]
struct Model {
    edges: Vec<Vec<usize>>,
    weak: Vec<usize>,
    views: Vec<usize>,
    live: Vec<bool>,
}

impl Model {
    fn ext(&self, i: usize) -> bool {
        self.live[i] && (self.weak[i] > 0 || self.views[i] > 0)
    }
    /// applies `op` if enabled
    fn apply(&mut self, op: Op) -> bool {
        let n = self.live.len();
        match op {
            Op::A | Op::V => {
                if n >= MAX_NODES {
                    return false;
                }
                self.edges.push(vec![]);
                self.weak.push(if op == Op::A { 1 } else { 0 });
                self.views.push(if op == Op::V { 1 } else { 0 });
                self.live.push(true);
                true
            }
            Op::E(i, j) => {
                if i >= n || j >= n || !self.ext(i) || !self.ext(j) || self.edges[i].len() >= 3 {
                    return false;
                }
                self.edges[i].push(j);
                true
            }
            Op::D(i) => {
                if i >= n || !self.ext(i) || self.edges[i].is_empty() {
                    return false;
                }
                self.edges[i].remove(0);
                true
            }
            Op::C(i) => {
                if i >= n || !self.ext(i) || self.weak[i] >= 2 {
                    return false;
                }
                self.weak[i] += 1;
                true
            }
            Op::H(i) => {
                if i >= n || !self.live[i] || self.weak[i] == 0 {
                    return false;
                }
                self.weak[i] -= 1;
                true
            }
            Op::W(i) => {
                if i >= n || !self.live[i] || self.weak[i] == 0 || self.views[i] >= 1 {
                    return false;
                }
                self.views[i] += 1;
                true
            }
            Op::X(i) => {
                if i >= n || !self.live[i] || self.views[i] == 0 {
                    return false;
                }
                self.views[i] -= 1;
                true
            }
            Op::G => {
                let mut mark = vec![false; n];
                let mut st: Vec<usize> = (0..n).filter(|&i| self.ext(i)).collect();
                for &r in &st {
                    mark[r] = true;
                }
                while let Some(i) = st.pop() {
                    for &j in &self.edges[i] {
                        if self.live[j] && !mark[j] {
                            mark[j] = true;
                            st.push(j);
                        }
                    }
                }
                for i in 0..n {
                    if self.live[i] && !mark[i] {
                        self.live[i] = false;
                        // the handles to a destroyed object stay around (dangling), its own
                        // edges are gone with it
                        self.edges[i].clear();
                    }
                }
                true
            }
        }
    }
}

fn exec(h: &mut Heap, op: Op) {
    match op {
        Op::A => {
            h.alloc();
        }
        Op::V => {
            h.alloc_view();
        }
        Op::E(i, j) => assert!(h.add_edge(i, j)),
        Op::D(i) => assert!(h.del_edge(i, 0)),
        Op::C(i) => assert!(h.clone_handle(i)),
        Op::H(i) => assert!(h.drop_handle(i)),
        Op::W(i) => assert!(h.view_from_handle(i)),
        Op::X(i) => assert!(h.drop_view(i)),
        Op::G => h.gc(),
    }
}

fn all_ops() -> Vec<Op> {
    let mut v = vec![Op::A, Op::V, Op::G];
    for i in 0..MAX_NODES {
        v.push(Op::D(i));
        v.push(Op::C(i));
        v.push(Op::H(i));
        v.push(Op::W(i));
        v.push(Op::X(i));
        for j in 0..MAX_NODES {
            v.push(Op::E(i, j));
        }
    }
    v
}

/// Compares the implementation heap with the model; returns a description of the first
/// difference.
fn conform(h: &Heap, m: &Model) -> Option<String> {
    let n = m.live.len();
    let live: Vec<bool> = (0..n).map(|i| h.is_live(i)).collect();
    if live != m.live {
        return Some(format!("live objects {live:?}, model {:?}", m.live));
    }
    let cnt = m.live.iter().filter(|&&b| b).count();
    if h.num_objects() != cnt {
        return Some(format!("num_objects {} but model has {cnt}", h.num_objects()));
    }
    let flags = h.box_flags();
    if !flags.iter().all(|&(v, mk)| v == 0 && !mk) {
        return Some(format!("visits/mark not reset: {flags:?}"));
    }
    for i in 0..n {
        if m.ext(i) {
            match h.edges_of(i) {
                Some(e) if e == m.edges[i] => {}
                other => return Some(format!("edges of {i}: {other:?}, model {:?}", m.edges[i])),
            }
        }
    }
    None
}

fn run_history(hist: &[Op]) -> Result<Option<String>, String> {
    util::catch(|| {
        let mut h = Heap::new();
        let mut m = Model::default();
        for (k, &op) in hist.iter().enumerate() {
            if !m.apply(op) {
                return Some(format!("op {k} {op:?} not enabled in the model"));
            }
            exec(&mut h, op);
            if let Some(d) = conform(&h, &m) {
                return Some(format!("after op {k} {op:?}: {d}"));
            }
        }
        None
    })
}

fn sequences(prefix: &[Op], depth: usize, rep: &mut Report) {
    let ops = all_ops();
    // iterative DFS; each node replays its history on a fresh heap (live objects do not clone)
    let mut m0 = Model::default();
    for &op in prefix {
        if !m0.apply(op) {
            return;
        }
    }
    let mut stack: Vec<(Vec<Op>, Model)> = vec![(prefix.to_vec(), m0)];
    while let Some((hist, model)) = stack.pop() {
        if hist.len() >= depth {
            continue;
        }
        for &op in &ops {
            let mut m2 = model.clone();
            if !m2.apply(op) {
                continue;
            }
            rep.transitions += 1;
            rep.traces_validated += 1;
            rep.evaluations += 1;
            let r = util::catch(|| {
                let mut h = Heap::new();
                for &o in &hist {
                    exec(&mut h, o);
                }
                exec(&mut h, op);
                conform(&h, &m2)
            });
            let bad = match r {
                Ok(None) => None,
                Ok(Some(d)) => Some(d),
                Err(p) => Some(format!("panic: {p}")),
            };
            if op == Op::G {
                rep.outcome(if model.live != m2.live { "gc-freed-something" } else { "gc-freed-nothing" });
            }
            rep.distinct(&m2);
            let mut h2 = hist.clone();
            h2.push(op);
            if let Some(d) = bad {
                rep.violation(
                    format!("C03/sequence/{}", if d.starts_with("panic") { "panic" } else if d.starts_with("live") { "wrong-survivors" } else { "bookkeeping" }),
                    format!("history {h2:?}: {d}"),
                    json!({"type":"gc-ops","ops": h2.iter().map(|o| op_json(*o)).collect::<Vec<_>>()}),
                );
                continue;
            }
            if rep.transitions % 5_000_011 == 1 {
                rep.sample(json!({"history": h2.iter().map(|o| op_json(*o)).collect::<Vec<_>>()}));
            }
            stack.push((h2, m2));
        }
    }
}

// ------------------------------------------------------------------ (c),(d) evaluator schedules

fn observe(src: &[u8], sched: VerifGcSchedule) -> (String, Vec<String>, u64, u64) {
    let r = rt::run_fresh(
        src,
        &RunCfg {
            gc: Some(sched),
            max_stack: Some(40),
            ..Default::default()
        },
    );
    (r.outcome.exact(), r.traces, r.steps, r.gc_runs)
}

pub fn schedule_check(src: &str, pair_limit: u64, single_limit: u64, rep: &mut Report) {
    let (base, base_tr, steps, _) = observe(src.as_bytes(), VerifGcSchedule::Never);
    rep.states += 1;
    let mut scheds: Vec<(String, VerifGcSchedule)> = vec![
        ("default".into(), VerifGcSchedule::Default),
        ("every-step".into(), VerifGcSchedule::Every(1)),
        ("every-2".into(), VerifGcSchedule::Every(2)),
        ("every-3".into(), VerifGcSchedule::Every(3)),
    ];
    if steps <= single_limit {
        for s in 0..steps {
            scheds.push((format!("at[{s}]"), VerifGcSchedule::AtSteps(vec![s])));
        }
    } else {
        rep.count("programs_without_single_placements(too many steps)", 1);
    }
    if steps <= pair_limit {
        for a in 0..steps {
            for b in (a + 1)..steps {
                scheds.push((format!("at[{a},{b}]"), VerifGcSchedule::AtSteps(vec![a, b])));
            }
        }
    }
    rep.outcome(if base.starts_with("V ") { "value" } else if base.starts_with("P ") { "panic" } else { "error" });
    rep.distinct(&(base.len(), steps, base.split(' ').nth(1).map(|s| s.chars().take(12).collect::<String>())));
    for (name, sched) in scheds {
        let (o, tr, st, runs) = observe(src.as_bytes(), sched);
        rep.evaluations += 1;
        rep.transitions += st;
        rep.traces_validated += 1;
        rep.count("collections_run", runs);
        if o != base || tr != base_tr || st != steps {
            let kind = if o.contains("destroyed object") {
                "reachable-object-reclaimed"
            } else if o.starts_with("P ") {
                "panic"
            } else {
                "outcome-differs"
            };
            rep.violation(
                format!("C03/schedule/{kind}"),
                format!(
                    "`{src}` under collection schedule {name}: {} (steps {st}) but without collection {} (steps {steps})",
                    util::truncate(&o, 300),
                    util::truncate(&base, 300)
                ),
                json!({"type":"gc-schedule","source":src,"schedule":name}),
            );
            break;
        }
    }
}

/// (d): after dropping every handle one collection must return to the exact baseline.
pub fn leak_check_batch(sources: &[String], rep: &mut Report) {
    let arena = Arena::new();
    let mut p = Program::new(&arena);
    p.gc();
    let base = p.verif_num_objects();
    for src in sources {
        let r = util::catch(|| {
            let _ = rt::run_on(
                &mut p,
                src.as_bytes(),
                &RunCfg {
                    max_stack: Some(40),
                    ..Default::default()
                },
            );
            let peak = p.verif_num_objects();
            p.gc();
            (peak, p.verif_num_objects())
        });
        rep.evaluations += 1;
        rep.traces_validated += 1;
        match r {
            Ok((peak, after)) => {
                if after != base {
                    rep.violation(
                        "C03/leak/not-back-to-baseline",
                        format!("`{src}`: {after} objects after dropping all results and one collection, baseline {base} (peak {peak})"),
                        json!({"type":"gc-leak","source":src}),
                    );
                    return; // later counts would all be off by the leak
                }
                if peak > base {
                    rep.count("leak_checks_with_garbage", 1);
                }
            }
            Err(m) => {
                rep.violation(
                    format!("C03/leak/panic/{}", util::panic_site(&m)),
                    format!("`{src}`: {m}"),
                    json!({"type":"gc-leak","source":src}),
                );
                return;
            }
        }
    }
}

pub const SEEDS: &[&str] = &[
    "local o={a:1,b:self}; o.b.b.a",
    "local f(x)=if x==0 then 0 else f(x-1); f(10)",
    "{a:{b:$}}.a.b.a.b == null || true",
    "local a=[b[0]], b=[a[0]]; 1",
    "local o = {x: self, y: [self.x], f(z): self}; o.f(1).y[0].x.f(2) == null || true",
    "{[k]: self for k in ['a','b']}.a.b == 1 || true",
    "std.map(function(x) x, [1,2])",
    "{a: error 'x', b: self.a}",
    "local x = x; x",
    "[x for x in [1,2] if x > 1]",
    "std.sort([3,1,2])",
    "{a:1} + {a+: 2, b: super.a}",
    "std.foldl(function(a,i) [a], std.range(1,20), 0)",
    "local f = function(a, b=a) [a,b]; f(1)",
    "std.objectRemoveKey({a:1,b:self.a},'a')",
    "std.mergePatch({a:{b:1}},{a:{c:2}})",
    "std.makeArray(3, function(i) {i: i, s: self})[1].s.i",
    "'%s' % [[1,{a:2}]]",
    "std.manifestYamlDoc({a:[1,{b:2}]})",
    "std.prune({a:null,b:[{}]})",
    "std.set([3,1,3])",
    "{assert self.a == 1, a: 1}",
    "{assert self.a == 2, a: 1}",
    "std.trace('t1', [std.trace('t2', 1), error 'e'])",
    "local o = {a: [self, $], b: {c: $.a}}; std.length(o.b.c) + std.length(std.toString(o.a[0].b.c[1].a) % [])",
    "std.sort([[2, {a: 1}], [1, {b: 2}]], function(p) p[0])",
    "std.join(',', [std.toString(x) for x in std.objectValues({a: {b: 1}, c: [1, 2]})])",
    "std.parseJson('{\"a\":[1,2,{\"b\":null}]}').a[2]",
    "std.parseYaml('a: [1, 2]\\nb: {c: d}')",
    "std.mapWithKey(function(k, v) [k, v], {a: 1, b: {c: 2}})",
    "std.flattenDeepArray([[1, [2, [3, [4]]]], 5])",
    "local a = {x: b}, b = {y: a}; [a.x.y.x == null, 1]",
    "std.manifestJsonEx({a: [1, {b: [2, 3]}], c: 'x'}, '  ')",
    "std.foldr(function(x, acc) {v: x, next: acc}, [1,2,3], null)",
    "std.uniq(std.sort([{k: 2}, {k: 1}, {k: 2}], function(o) o.k), function(o) o.k)",
];

fn program_sources(ctx: &Ctx) -> Vec<String> {
    let mut v: Vec<String> = SEEDS.iter().map(|s| s.to_string()).collect();
    let plan: Vec<(corpus::Profile, usize)> = if ctx.quick() {
        vec![
            (corpus::FULL, 3),
            (corpus::LAZY, 3),
            (corpus::OBJECTS, 3),
            (corpus::FUNCTIONS, 3),
            (corpus::COMPS, 3),
        ]
    } else {
        vec![
            (corpus::FULL, 3),
            (corpus::LAZY, 4),
            (corpus::OBJECTS, 4),
            (corpus::FUNCTIONS, 4),
            (corpus::COMPS, 4),
        ]
    };
    for (p, nmax) in plan {
        let mut g = corpus::Gen::new(p);
        for n in 1..=nmax {
            g.for_each(n, corpus::ROOT, &mut |e| v.push(syntax::print(&e, syntax::MINIMAL)));
        }
    }
    v
}

pub fn run(ctx: &Ctx) -> i32 {
    let mut total = Report::new();
    let parts = std::env::var("VERIF_PARTS").unwrap_or_else(|_| "abcd".into());
    // (a)
    let shape_plan: Vec<(usize, u8, Option<usize>)> = if ctx.quick() {
        vec![(0, 2, None), (1, 2, None), (2, 2, None), (3, 2, None), (4, 1, Some(5))]
    } else {
        vec![(0, 2, None), (1, 3, None), (2, 3, None), (3, 2, None), (4, 1, None), (5, 1, Some(5))]
    };
    for (n, maxm, max_edges) in shape_plan {
        if !parts.contains('a') {
            break;
        }
        let r = util::par_shards(ctx.threads, 64, |s, ns| shapes(n, maxm, max_edges, s, ns));
        total.extra.insert(
            format!("shapes_n{n}_mult{maxm}{}", max_edges.map(|m| format!("_edges<={m}")).unwrap_or_default()),
            json!(r.evaluations),
        );
        total.merge(r);
    }
    let shapes_done = total.evaluations;
    // (b)
    let depth = if ctx.quick() { 8 } else { 9 };
    let ops = all_ops();
    let mut prefixes: Vec<Vec<Op>> = Vec::new();
    for &a in &ops {
        for &b in &ops {
            prefixes.push(vec![a, b]);
        }
    }
    // non-initial start states: residue of earlier collections (swapped order, freed cycles)
    let residues: Vec<Vec<Op>> = vec![
        vec![Op::A, Op::A, Op::E(0, 1), Op::E(1, 0), Op::H(0), Op::H(1), Op::G],
        vec![Op::A, Op::V, Op::E(1, 0), Op::H(0), Op::G],
        vec![Op::V, Op::A, Op::A, Op::E(1, 2), Op::E(2, 1), Op::E(0, 1), Op::H(1), Op::H(2), Op::G, Op::D(0), Op::G],
        vec![Op::A, Op::A, Op::A, Op::E(0, 1), Op::E(1, 2), Op::E(2, 0), Op::H(1), Op::H(2), Op::G],
    ];
    if !parts.contains('b') {
        prefixes.clear();
    }
    let r = util::par_shards(ctx.threads, prefixes.len(), |s, _| {
        let mut rep = Report::new();
        // the two prefix transitions themselves are validated by run_history
        if let Ok(Some(d)) | Err(d) = run_history(&prefixes[s]).map(|o| o.filter(|d| !d.contains("not enabled"))) {
            rep.violation("C03/sequence/prefix", format!("{:?}: {d}", prefixes[s]), json!({"type":"gc-ops","ops": prefixes[s].iter().map(|o| op_json(*o)).collect::<Vec<_>>()}));
        }
        sequences(&prefixes[s], depth, &mut rep);
        rep
    });
    total.extra.insert("sequence_depth".into(), json!(depth));
    total.extra.insert("sequence_transitions".into(), json!(r.transitions));
    total.merge(r);
    let rdepth = if ctx.quick() { 4 } else { 5 };
    let nres = if parts.contains('b') { residues.len() * ops.len() } else { 0 };
    let r = util::par_shards(ctx.threads, nres, |s, _| {
        let mut rep = Report::new();
        let mut pre = residues[s / ops.len()].clone();
        pre.push(ops[s % ops.len()]);
        if let Ok(Some(d)) | Err(d) = run_history(&pre).map(|o| o.filter(|d| !d.contains("not enabled"))) {
            rep.violation("C03/sequence/prefix", format!("{pre:?}: {d}"), json!({"type":"gc-ops","ops": pre.iter().map(|o| op_json(*o)).collect::<Vec<_>>()}));
        }
        let d = pre.len() + rdepth;
        sequences(&pre, d, &mut rep);
        rep
    });
    total.extra.insert("sequence_depth_from_residue_states".into(), json!(rdepth + 1));
    total.merge(r);
    let seq_done = total.evaluations - shapes_done;
    // (c), (d)
    let sources = if parts.contains('c') { program_sources(ctx) } else { Vec::new() };
    let (single_limit, pair_limit) = if ctx.quick() { (60, 14) } else { (400, 40) };
    let chunks: Vec<&[String]> = sources.chunks(200).collect();
    let r = util::par_shards(ctx.threads, chunks.len(), |s, _| {
        let mut rep = Report::new();
        for src in chunks[s] {
            schedule_check(src, pair_limit, single_limit, &mut rep);
        }
        leak_check_batch(chunks[s], &mut rep);
        // the same programs observed WITHOUT forcing their parts (pending thunks of every kind
        // stay in the heap when the results are dropped) and inside failing evaluations
        let mut lazy_views: Vec<String> = Vec::new();
        for src in chunks[s] {
            for w in [
                "std.type(@)",
                "std.length(std.objectValuesAll(@))",
                "std.length(std.mapWithKey(function(k, v) v, @))",
                "std.length(std.map(function(x) x, @))",
                "[std.type(@), error \"stop\"]",
                "local v = @; std.length([v, v, function() v])",
                "std.objectFields(@ + {zz+: [1]})",
            ] {
                lazy_views.push(w.replace('@', &format!("({src})")));
            }
        }
        leak_check_batch(&lazy_views, &mut rep);
        rep
    });
    total.extra.insert("programs_scheduled".into(), json!(sources.len()));
    total.merge(r);
    // the repository's own ui-test programs (every builtin, big programs): never vs every step
    let mut ui: Vec<String> = Vec::new();
    fn walk(dir: &std::path::Path, out: &mut Vec<String>) {
        if let Ok(rd) = std::fs::read_dir(dir) {
            let mut entries: Vec<_> = rd.flatten().map(|e| e.path()).collect();
            entries.sort();
            for p in entries {
                if p.is_dir() {
                    walk(&p, out);
                } else if p.extension().is_some_and(|e| e == "jsonnet") {
                    if let Ok(t) = std::fs::read_to_string(&p) {
                        out.push(t);
                    }
                }
            }
        }
    }
    if parts.contains('c') {
        walk(std::path::Path::new("/repo/ui-tests/pass"), &mut ui);
        walk(std::path::Path::new("/repo/ui-tests/fail"), &mut ui);
    }
    let ui: Vec<String> = if ctx.quick() { ui.into_iter().step_by(5).collect() } else { ui };
    let ucfg = util::ForkCfg { threads: ctx.threads, mem_bytes: 4 << 30, case_timeout_s: 120, died_signature: "C03/abort".into(), resource_is_violation: false };
    let r = util::par_forked(&ucfg, 64, |sh| {
        let mut rep = Report::new();
        for (i, src) in ui.iter().enumerate() {
            if !sh.mine(i as u64) || !sh.begin_case(i as u64, &|| util::truncate(src, 200)) {
                continue;
            }
            let obs = |sched: VerifGcSchedule| {
                let r = rt::run_fresh(src.as_bytes(), &RunCfg { gc: Some(sched), ..Default::default() });
                (r.outcome.exact(), r.traces, r.steps)
            };
            let base = obs(VerifGcSchedule::Never);
            rep.states += 1;
            rep.outcome(if base.0.starts_with("V ") { "ui:value" } else { "ui:error" });
            for (name, sched) in [("every-step", VerifGcSchedule::Every(1)), ("every-7", VerifGcSchedule::Every(7)), ("default", VerifGcSchedule::Default)] {
                if name == "every-step" && base.2 > 400_000 {
                    rep.count("ui_programs_too_long_for_every_step", 1);
                    continue;
                }
                let o = obs(sched);
                rep.evaluations += 1;
                rep.transitions += o.2;
                rep.traces_validated += 1;
                if o != base {
                    rep.violation(
                        format!("C03/schedule/{}", if o.0.contains("destroyed object") { "reachable-object-reclaimed" } else { "outcome-differs" }),
                        format!("ui-test program under schedule {name}: {} but without collection {}", util::truncate(&o.0, 200), util::truncate(&base.0, 200)),
                        json!({"type":"gc-schedule","source":src,"schedule":name}),
                    );
                    break;
                }
            }
            leak_check_batch(std::slice::from_ref(src), &mut rep);
        }
        rep
    });
    total.extra.insert("ui_test_programs".into(), json!(ui.len()));
    total.merge(r);
    total.extra.insert("shape_cases".into(), json!(shapes_done));
    total.extra.insert("sequence_cases".into(), json!(seq_done));
    util::finish(
        ctx,
        LevelInfo {
            level: "model_checking",
            rule: "(a) every labelled heap multigraph within the stated node/multiplicity bounds x external-handle states; (b) every enabled operation sequence up to the depth over 27 heap operations on <=3 nodes, from the empty heap and from residue states, conformance with the reachability model after every transition (distinct = distinct model states reached); (c) every program of the corpora under collection schedules never/default/every k/every single step/every pair of steps; (d) object count back to baseline after one collection".into(),
            assumptions: vec![
                "hook H1 drives the real collector with a test node type; hook H2 only decides when maybe_gc collects".into(),
                "heaps above the node bound and schedules with >=3 chosen collection points are covered only by every-step collection".into(),
            ],
        },
        total,
    )
}

pub fn replay(v: &serde_json::Value) -> i32 {
    let c = &v["case"];
    match c["type"].as_str().unwrap_or("") {
        "gc-ops" => {
            let ops: Vec<Op> = c["ops"].as_array().unwrap().iter().filter_map(|o| parse_op(o.as_str().unwrap())).collect();
            match run_history(&ops) {
                Ok(None) => {
                    println!("history {ops:?}: conforms");
                    0
                }
                Ok(Some(d)) | Err(d) => {
                    println!("history {ops:?}: {d}");
                    1
                }
            }
        }
        "gc-shape" => {
            let n = c["n"].as_u64().unwrap() as usize;
            let ext: Vec<u8> = c["ext"].as_array().unwrap().iter().map(|x| x.as_u64().unwrap() as u8).collect();
            let mult: Vec<u8> = c["mult"].as_array().unwrap().iter().map(|x| x.as_u64().unwrap() as u8).collect();
            let mut rep = Report::new();
            check_shape(n, &ext, &mult, &mut rep);
            for v in &rep.violations {
                println!("{}", v.what);
            }
            if rep.violations.is_empty() { println!("shape conforms"); 0 } else { 1 }
        }
        "gc-schedule" => {
            let mut rep = Report::new();
            schedule_check(c["source"].as_str().unwrap(), 40, 400, &mut rep);
            for v in &rep.violations {
                println!("{}", v.what);
            }
            if rep.violations.is_empty() { println!("all schedules agree"); 0 } else { 1 }
        }
        "gc-leak" => {
            let mut rep = Report::new();
            leak_check_batch(&[c["source"].as_str().unwrap().to_string()], &mut rep);
            for v in &rep.violations {
                println!("{}", v.what);
            }
            if rep.violations.is_empty() { println!("back to baseline"); 0 } else { 1 }
        }
        _ => 3,
    }
}
