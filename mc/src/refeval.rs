//! ref_eval: a deliberately boring lazy interpreter of the Jsonnet core language, written
//! from the specification's operational semantics (desugaring + big-step rules), not from the
//! implementation. Everything lives in index arenas owned by one `Interp`, dropped per program.
use crate::syntax::*;
use std::collections::{BTreeMap, HashMap};
use std::rc::Rc;

#[derive(Clone, Debug, PartialEq)]
pub enum JT {
    Null,
    Bool(bool),
    Num(f64),
    Str(String),
    Arr(Vec<JT>),
    Obj(Vec<(String, JT)>),
}

impl JT {
    pub fn from_serde(v: &serde_json::Value) -> JT {
        match v {
            serde_json::Value::Null => JT::Null,
            serde_json::Value::Bool(b) => JT::Bool(*b),
            serde_json::Value::Number(n) => JT::Num(n.as_f64().unwrap_or(f64::NAN)),
            serde_json::Value::String(s) => JT::Str(s.clone()),
            serde_json::Value::Array(a) => JT::Arr(a.iter().map(JT::from_serde).collect()),
            serde_json::Value::Object(o) => {
                let mut v: Vec<(String, JT)> =
                    o.iter().map(|(k, v)| (k.clone(), JT::from_serde(v))).collect();
                v.sort_by(|a, b| a.0.cmp(&b.0));
                JT::Obj(v)
            }
        }
    }
    /// equality with numbers compared by bit pattern except that all zeros agree in sign?  No:
    /// exact bits (the emitter prints -0 as -0).
    pub fn same(&self, o: &JT) -> bool {
        match (self, o) {
            (JT::Num(a), JT::Num(b)) => a.to_bits() == b.to_bits() || (a == b && *a != 0.0),
            (JT::Arr(a), JT::Arr(b)) => a.len() == b.len() && a.iter().zip(b).all(|(x, y)| x.same(y)),
            (JT::Obj(a), JT::Obj(b)) => {
                a.len() == b.len() && a.iter().zip(b).all(|(x, y)| x.0 == y.0 && x.1.same(&y.1))
            }
            (a, b) => a == b,
        }
    }
    pub fn show(&self) -> String {
        match self {
            JT::Null => "null".into(),
            JT::Bool(b) => b.to_string(),
            JT::Num(n) => format!("{n:?}"),
            JT::Str(s) => format!("{s:?}"),
            JT::Arr(a) => format!("[{}]", a.iter().map(|x| x.show()).collect::<Vec<_>>().join(",")),
            JT::Obj(o) => format!(
                "{{{}}}",
                o.iter().map(|(k, v)| format!("{k:?}:{}", v.show())).collect::<Vec<_>>().join(",")
            ),
        }
    }
}

#[derive(Clone, Debug, PartialEq)]
pub enum RErr {
    /// `error e` with its message
    Explicit(String),
    /// failed assertion with its message (None when the assert has none)
    Assert(Option<String>),
    /// any other failure the specification defines (no message specified)
    Other(&'static str),
    /// a value that depends on itself
    InfRec,
    /// budget exhausted: the program diverges or needs unbounded resources
    Diverge,
    /// the program uses something outside the model (never compared)
    Unsupported(&'static str),
}

type R<T> = Result<T, RErr>;
type ThId = usize;
type EnvId = usize;
type ObjId = usize;
type FnId = usize;

#[derive(Clone, Debug)]
pub enum V {
    Null,
    Bool(bool),
    Num(f64),
    Str(Rc<str>),
    Arr(Rc<Vec<ThId>>),
    Obj(ObjId),
    Func(FnId),
    Builtin(&'static str),
    StdObj,
}

enum Th<'a> {
    Expr(&'a E, EnvId),
    InProgress(Box<Th<'a>>),
    Done(V),
    /// field `name` of layer `idx` of object (computed on demand, cached here)
    Field(ObjId, usize, String),
    /// apply function value thunk `f` to thunks
    Apply(V, Vec<ThId>),
}

#[derive(Clone)]
enum Body<'a> {
    Expr(&'a E),
    Method(&'a [Param], &'a E),
}

#[derive(Clone)]
struct FieldDef<'a> {
    vis: Vis,
    plus: bool,
    body: Body<'a>,
    extra_env: Option<EnvId>,
}

struct Layer<'a> {
    fields: BTreeMap<String, FieldDef<'a>>,
    asserts: Vec<(&'a E, Option<&'a E>)>,
    locals: Vec<&'a Bind>,
    env: EnvId,
    is_top: bool,
}

struct Obj<'a> {
    layers: Vec<Rc<Layer<'a>>>,
    envs: HashMap<(usize, Option<EnvId>), EnvId>,
    cache: HashMap<(usize, String), ThId>,
    /// 0 unchecked, 1 in progress, 2 done
    asserts_state: u8,
}

struct Env<'a> {
    parent: Option<EnvId>,
    binds: Vec<(&'a str, ThId)>,
    self_obj: Option<(ObjId, usize)>,
    top: Option<ObjId>,
}

struct Func<'a> {
    params: &'a [Param],
    body: &'a E,
    env: EnvId,
}

pub struct Interp<'a> {
    thunks: Vec<Th<'a>>,
    envs: Vec<Env<'a>>,
    objs: Vec<Obj<'a>>,
    funcs: Vec<Func<'a>>,
    depth: usize,
    pub max_depth: usize,
    alloc: usize,
    pub max_alloc: usize,
    pub traces: Vec<String>,
    /// number of times each `std.trace` message was emitted is derivable from `traces`
    pub steps: u64,
    pub tailstrict_calls: u64,
    pub max_steps: u64,
    /// evaluate the operands of strict binary forms right-to-left (the order is unspecified)
    pub mirror: bool,
}

fn is_int(x: f64) -> bool {
    x == x.trunc() && x.is_finite()
}

pub fn num_to_string(v: f64) -> String {
    if v == 0.0 {
        return if v.is_sign_negative() { "-0".into() } else { "0".into() };
    }
    if is_int(v) && v.abs() < 1e17 {
        return format!("{}", v as i64);
    }
    // outside the corpora's trivially printable numbers; callers avoid depending on this
    format!("{v:?}")
}

impl<'a> Interp<'a> {
    pub fn new() -> Self {
        Interp {
            thunks: Vec::new(),
            envs: Vec::new(),
            objs: Vec::new(),
            funcs: Vec::new(),
            depth: 0,
            max_depth: 250,
            alloc: 0,
            max_alloc: 200_000,
            traces: Vec::new(),
            steps: 0,
            tailstrict_calls: 0,
            max_steps: 2_000_000,
            mirror: false,
        }
    }

    fn charge(&mut self, n: usize) -> R<()> {
        self.alloc += n;
        if self.alloc > self.max_alloc {
            return Err(RErr::Diverge);
        }
        Ok(())
    }

    fn new_thunk(&mut self, t: Th<'a>) -> ThId {
        self.alloc += 1;
        self.thunks.push(t);
        self.thunks.len() - 1
    }
    fn done(&mut self, v: V) -> ThId {
        self.new_thunk(Th::Done(v))
    }
    fn new_env(&mut self, parent: EnvId) -> EnvId {
        let (s, t) = (self.envs[parent].self_obj, self.envs[parent].top);
        self.envs.push(Env {
            parent: Some(parent),
            binds: Vec::new(),
            self_obj: s,
            top: t,
        });
        self.envs.len() - 1
    }
    fn lookup(&self, mut env: EnvId, name: &str) -> Option<ThId> {
        loop {
            let e = &self.envs[env];
            for (n, t) in e.binds.iter().rev() {
                if *n == name {
                    return Some(*t);
                }
            }
            env = e.parent?;
        }
    }

    pub fn force(&mut self, t: ThId) -> R<V> {
        match &self.thunks[t] {
            Th::Done(v) => return Ok(v.clone()),
            Th::InProgress(_) => return Err(RErr::InfRec),
            _ => {}
        }
        let pending = std::mem::replace(&mut self.thunks[t], Th::Done(V::Null));
        let r = match &pending {
            Th::Expr(e, env) => {
                let (e, env) = (*e, *env);
                self.thunks[t] = Th::InProgress(Box::new(pending));
                self.ev(e, env)
            }
            Th::Field(o, idx, name) => {
                let (o, idx, name) = (*o, *idx, name.clone());
                self.thunks[t] = Th::InProgress(Box::new(pending));
                self.eval_field(o, idx, &name)
            }
            Th::Apply(f, args) => {
                let (f, args) = (f.clone(), args.clone());
                self.thunks[t] = Th::InProgress(Box::new(pending));
                self.apply(&f, &args, &[])
            }
            _ => unreachable!(),
        };
        match r {
            Ok(v) => {
                self.thunks[t] = Th::Done(v.clone());
                Ok(v)
            }
            Err(e) => {
                // reference semantics: a failed evaluation leaves the thunk pending
                if let Th::InProgress(p) = std::mem::replace(&mut self.thunks[t], Th::Done(V::Null)) {
                    self.thunks[t] = *p;
                }
                Err(e)
            }
        }
    }

    pub fn ev(&mut self, e: &'a E, env: EnvId) -> R<V> {
        self.depth += 1;
        self.steps += 1;
        if self.depth > self.max_depth || self.steps > self.max_steps {
            self.depth -= 1;
            return Err(RErr::Diverge);
        }
        let r = self.ev_inner(e, env);
        self.depth -= 1;
        r
    }

    fn lazy(&mut self, e: &'a E, env: EnvId) -> ThId {
        self.new_thunk(Th::Expr(e, env))
    }

    fn bind_locals(&mut self, binds: impl Iterator<Item = &'a Bind>, env: EnvId) {
        for bd in binds {
            let t = match &bd.params {
                None => self.lazy(&bd.body, env),
                Some(ps) => {
                    self.funcs.push(Func {
                        params: ps,
                        body: &bd.body,
                        env,
                    });
                    let f = self.funcs.len() - 1;
                    self.done(V::Func(f))
                }
            };
            self.envs[env].binds.push((&bd.name, t));
        }
    }

    fn expect_bool(&self, v: &V) -> R<bool> {
        match v {
            V::Bool(b) => Ok(*b),
            _ => Err(RErr::Other("type")),
        }
    }
    fn expect_str(&self, v: &V) -> R<Rc<str>> {
        match v {
            V::Str(s) => Ok(s.clone()),
            _ => Err(RErr::Other("type")),
        }
    }

    fn ev_inner(&mut self, e: &'a E, env: EnvId) -> R<V> {
        match e {
            E::Null => Ok(V::Null),
            E::True => Ok(V::Bool(true)),
            E::False => Ok(V::Bool(false)),
            E::Num(t) => {
                let clean: String = t.chars().filter(|c| *c != '_').collect();
                let v: f64 = clean.parse().map_err(|_| RErr::Unsupported("number text"))?;
                if !v.is_finite() {
                    return Err(RErr::Other("overflow"));
                }
                Ok(V::Num(v))
            }
            E::Str(s) | E::TextBlock(s) => Ok(V::Str(s.as_str().into())),
            E::Var(v) => {
                if let Some(t) = self.lookup(env, v) {
                    self.force(t)
                } else if v == "std" {
                    Ok(V::StdObj)
                } else {
                    Err(RErr::Unsupported("unbound variable"))
                }
            }
            E::SelfE => match self.envs[env].self_obj {
                Some((o, _)) => Ok(V::Obj(o)),
                None => Err(RErr::Unsupported("self outside object")),
            },
            E::Dollar => match self.envs[env].top {
                Some(o) => Ok(V::Obj(o)),
                None => Err(RErr::Unsupported("$ outside object")),
            },
            E::SuperField(name) => {
                let (o, idx) = self.envs[env].self_obj.ok_or(RErr::Unsupported("super"))?;
                if idx == 0 {
                    return Err(RErr::Other("nosuper"));
                }
                self.obj_field_from(o, name, idx - 1)
            }
            E::SuperIndex(i) => {
                let (o, idx) = self.envs[env].self_obj.ok_or(RErr::Unsupported("super"))?;
                // operand order between "no super" and a failing index expression is not fixed
                let n = self.ev(i, env)?;
                let n = self.expect_str(&n)?;
                if idx == 0 {
                    return Err(RErr::Other("nosuper"));
                }
                self.obj_field_from(o, &n, idx - 1)
            }
            E::InSuper(l) => {
                let n = self.ev(l, env)?;
                let n = self.expect_str(&n)?;
                let (o, idx) = self.envs[env].self_obj.ok_or(RErr::Unsupported("super"))?;
                Ok(V::Bool(idx > 0 && self.find(o, &n, idx - 1).is_some()))
            }
            E::Local(binds, body) => {
                let new = self.new_env(env);
                self.bind_locals(binds.iter(), new);
                self.ev(body, new)
            }
            E::Func(ps, body) => {
                self.funcs.push(Func {
                    params: ps,
                    body,
                    env,
                });
                Ok(V::Func(self.funcs.len() - 1))
            }
            E::Call(f, args, tailstrict) => {
                let fv = self.ev(f, env)?;
                let mut pos = Vec::new();
                let mut named = Vec::new();
                for a in args {
                    match a {
                        Arg::Pos(x) => pos.push(self.lazy(x, env)),
                        Arg::Named(n, x) => {
                            let t = self.lazy(x, env);
                            named.push((n.as_str(), t));
                        }
                    }
                }
                if *tailstrict {
                    // The specification forces the arguments of a tailstrict call; the
                    // implementation does so only for calls in tail position of a function
                    // body. tailstrict is not among the features the properties list, so a
                    // program whose outcome depends on that forcing is outside the model.
                    self.tailstrict_calls += 1;
                    for t in pos.iter().chain(named.iter().map(|(_, t)| t)) {
                        match self.force(*t) {
                            Ok(_) => {}
                            Err(RErr::Unsupported(w)) => return Err(RErr::Unsupported(w)),
                            Err(_) => return Err(RErr::Unsupported("tailstrict call with a failing argument")),
                        }
                    }
                }
                self.apply(&fv, &pos, &named)
            }
            E::If(c, t, f) => {
                let cv = self.ev(c, env)?;
                if self.expect_bool(&cv)? {
                    self.ev(t, env)
                } else if let Some(f) = f {
                    self.ev(f, env)
                } else {
                    Ok(V::Null)
                }
            }
            E::Bin(op, l, r) => self.binop(*op, l, r, env),
            E::Un(op, x) => {
                let v = self.ev(x, env)?;
                match (op, &v) {
                    (UnOp::Not, V::Bool(b)) => Ok(V::Bool(!b)),
                    (UnOp::Neg, V::Num(n)) => Ok(V::Num(-n)),
                    (UnOp::Pos, V::Num(n)) => Ok(V::Num(*n)),
                    (UnOp::BitNot, V::Num(n)) => {
                        if !is_int(*n) || n.abs() >= 9007199254740992.0 {
                            return Err(RErr::Unsupported("bitwise on non-safe integer"));
                        }
                        Ok(V::Num(!(*n as i64) as f64))
                    }
                    _ => Err(RErr::Other("type")),
                }
            }
            E::Array(items) => {
                let ts: Vec<ThId> = items.iter().map(|it| self.lazy(it, env)).collect();
                Ok(V::Arr(Rc::new(ts)))
            }
            E::ArrComp(body, specs) => {
                let envs = self.comp_envs(specs, env)?;
                let ts: Vec<ThId> = envs.into_iter().map(|en| self.lazy(body, en)).collect();
                Ok(V::Arr(Rc::new(ts)))
            }
            E::Index(o, i) => {
                let (ov, iv) = if self.mirror {
                    let iv = self.ev(i, env)?;
                    (self.ev(o, env)?, iv)
                } else {
                    let ov = self.ev(o, env)?;
                    (ov, self.ev(i, env)?)
                };
                self.index(&ov, &iv)
            }
            E::Field(o, name) => {
                let ov = self.ev(o, env)?;
                match ov {
                    V::Obj(o) => self.obj_get(o, name),
                    V::StdObj => self.std_member(name),
                    _ => Err(RErr::Other("type")),
                }
            }
            E::Slice(o, a, bb, c) => {
                let ov = self.ev(o, env)?;
                let mut parts = [V::Null, V::Null, V::Null];
                for (k, x) in [a, bb, c].into_iter().enumerate() {
                    if let Some(x) = x {
                        parts[k] = self.ev(x, env)?;
                    }
                }
                self.slice(&ov, &parts[0], &parts[1], &parts[2])
            }
            E::Object(ms) => {
                let o = self.mk_object(ms, env)?;
                Ok(V::Obj(o))
            }
            E::ObjComp { .. } => {
                let o = self.mk_objcomp(e, env)?;
                Ok(V::Obj(o))
            }
            E::ObjExt(base, inside) => {
                let l = self.ev(base, env)?;
                let r = self.ev(inside, env)?;
                self.add(&l, &r)
            }
            E::Error(x) => {
                let m = self.ev(x, env)?;
                let s = self.to_string(&m)?;
                Err(RErr::Explicit(s))
            }
            E::Assert(c, m, body) => {
                let cv = self.ev(c, env)?;
                if self.expect_bool(&cv)? {
                    self.ev(body, env)
                } else {
                    match m {
                        None => Err(RErr::Assert(None)),
                        Some(m) => {
                            let mv = self.ev(m, env)?;
                            let s = self.to_string(&mv)?;
                            Err(RErr::Assert(Some(s)))
                        }
                    }
                }
            }
            E::Import(..) => Err(RErr::Unsupported("import")),
            E::Paren(x) => self.ev(x, env),
        }
    }

    fn comp_envs(&mut self, specs: &'a [Spec], env: EnvId) -> R<Vec<EnvId>> {
        let mut envs = vec![env];
        for s in specs {
            let mut next = Vec::new();
            match s {
                Spec::For(v, e) => {
                    for en in envs {
                        let a = self.ev(e, en)?;
                        let V::Arr(items) = a else {
                            return Err(RErr::Other("type"));
                        };
                        self.charge(items.len())?;
                        for t in items.iter() {
                            let ne = self.new_env(en);
                            self.envs[ne].binds.push((v.as_str(), *t));
                            next.push(ne);
                        }
                    }
                }
                Spec::If(e) => {
                    for en in envs {
                        let c = self.ev(e, en)?;
                        if self.expect_bool(&c)? {
                            next.push(en);
                        }
                    }
                }
            }
            envs = next;
        }
        Ok(envs)
    }

    pub fn apply(&mut self, f: &V, pos: &[ThId], named: &[(&str, ThId)]) -> R<V> {
        match f {
            V::Func(fid) => {
                let (params, body, fenv) = {
                    let f = &self.funcs[*fid];
                    (f.params, f.body, f.env)
                };
                if pos.len() > params.len() {
                    return Err(RErr::Other("args"));
                }
                let mut bound: Vec<Option<ThId>> = vec![None; params.len()];
                for (i, t) in pos.iter().enumerate() {
                    bound[i] = Some(*t);
                }
                for (n, t) in named {
                    let Some(i) = params.iter().position(|p| p.name == *n) else {
                        return Err(RErr::Other("args"));
                    };
                    if bound[i].is_some() {
                        return Err(RErr::Other("args"));
                    }
                    bound[i] = Some(*t);
                }
                let new = self.new_env(fenv);
                for (i, p) in params.iter().enumerate() {
                    let t = match bound[i] {
                        Some(t) => t,
                        None => match &p.default {
                            Some(d) => self.lazy(d, new),
                            None => return Err(RErr::Other("args")),
                        },
                    };
                    self.envs[new].binds.push((p.name.as_str(), t));
                }
                self.ev(body, new)
            }
            V::Builtin(name) => {
                if !named.is_empty() {
                    return Err(RErr::Unsupported("named args to builtin"));
                }
                self.builtin(name, pos)
            }
            _ => Err(RErr::Other("type")),
        }
    }

    fn mk_object(&mut self, ms: &'a [Member], env: EnvId) -> R<ObjId> {
        let mut fields = BTreeMap::new();
        let mut asserts = Vec::new();
        let mut locals = Vec::new();
        for m in ms {
            match m {
                Member::Field {
                    name,
                    plus,
                    vis,
                    params,
                    body,
                } => {
                    let n: String = match name {
                        FieldName::Id(s) | FieldName::Str(s) => s.clone(),
                        FieldName::Expr(e) => match self.ev(e, env)? {
                            V::Null => continue,
                            V::Str(s) => s.to_string(),
                            _ => return Err(RErr::Other("type")),
                        },
                    };
                    if fields.contains_key(&n) {
                        return Err(RErr::Other("dupfield"));
                    }
                    let body = match params {
                        Some(ps) => Body::Method(ps, body),
                        None => Body::Expr(body),
                    };
                    fields.insert(
                        n,
                        FieldDef {
                            vis: *vis,
                            plus: *plus,
                            body,
                            extra_env: None,
                        },
                    );
                }
                Member::Local(bd) => locals.push(bd),
                Member::Assert(c, m) => asserts.push((c, m.as_ref())),
            }
        }
        let is_top = self.envs[env].self_obj.is_none();
        self.charge(1)?;
        self.objs.push(Obj {
            layers: vec![Rc::new(Layer {
                fields,
                asserts,
                locals,
                env,
                is_top,
            })],
            envs: HashMap::new(),
            cache: HashMap::new(),
            asserts_state: 0,
        });
        Ok(self.objs.len() - 1)
    }

    fn mk_objcomp(&mut self, e: &'a E, env: EnvId) -> R<ObjId> {
        let E::ObjComp {
            locals1,
            name,
            plus,
            body,
            locals2,
            specs,
        } = e
        else {
            unreachable!()
        };
        let envs = self.comp_envs(specs, env)?;
        let mut fields = BTreeMap::new();
        for en in envs {
            let n = match self.ev(name, en)? {
                V::Null => continue,
                V::Str(s) => s.to_string(),
                _ => return Err(RErr::Other("type")),
            };
            if fields.contains_key(&n) {
                return Err(RErr::Other("dupfield"));
            }
            fields.insert(
                n,
                FieldDef {
                    vis: Vis::Default,
                    plus: *plus,
                    body: Body::Expr(body),
                    extra_env: Some(en),
                },
            );
        }
        let is_top = self.envs[env].self_obj.is_none();
        let locals: Vec<&'a Bind> = locals1.iter().chain(locals2.iter()).collect();
        self.charge(1)?;
        self.objs.push(Obj {
            layers: vec![Rc::new(Layer {
                fields,
                asserts: Vec::new(),
                locals,
                env,
                is_top,
            })],
            envs: HashMap::new(),
            cache: HashMap::new(),
            asserts_state: 0,
        });
        Ok(self.objs.len() - 1)
    }

    fn find(&self, o: ObjId, name: &str, top: usize) -> Option<usize> {
        let obj = &self.objs[o];
        (0..=top).rev().find(|&i| obj.layers[i].fields.contains_key(name))
    }

    /// environment of layer `idx` of object `o` (self/super/$ and object locals bound)
    fn layer_env(&mut self, o: ObjId, idx: usize, extra: Option<EnvId>) -> EnvId {
        if let Some(e) = self.objs[o].envs.get(&(idx, extra)) {
            return *e;
        }
        let layer = self.objs[o].layers[idx].clone();
        let base = extra.unwrap_or(layer.env);
        let new = self.new_env(base);
        self.envs[new].self_obj = Some((o, idx));
        if layer.is_top {
            self.envs[new].top = Some(o);
        }
        self.bind_locals(layer.locals.iter().copied(), new);
        self.objs[o].envs.insert((idx, extra), new);
        new
    }

    fn eval_field(&mut self, o: ObjId, idx: usize, name: &str) -> R<V> {
        let layer = self.objs[o].layers[idx].clone();
        let def = layer.fields.get(name).expect("field").clone();
        let env = self.layer_env(o, idx, def.extra_env);
        let own = |me: &mut Self| -> R<V> {
            match &def.body {
                Body::Expr(e) => me.ev(e, env),
                Body::Method(ps, body) => {
                    me.funcs.push(Func {
                        params: ps,
                        body,
                        env,
                    });
                    Ok(V::Func(me.funcs.len() - 1))
                }
            }
        };
        if def.plus && idx > 0 && self.find(o, name, idx - 1).is_some() {
            let l = self.obj_field_from(o, name, idx - 1)?;
            let r = own(self)?;
            self.add(&l, &r)
        } else {
            own(self)
        }
    }

    fn obj_field_from(&mut self, o: ObjId, name: &str, top: usize) -> R<V> {
        let Some(idx) = self.find(o, name, top) else {
            return Err(RErr::Other("nofield"));
        };
        let key = (idx, name.to_string());
        let t = match self.objs[o].cache.get(&key) {
            Some(t) => *t,
            None => {
                let t = self.new_thunk(Th::Field(o, idx, name.to_string()));
                self.objs[o].cache.insert(key, t);
                t
            }
        };
        self.depth += 1;
        if self.depth > self.max_depth {
            self.depth -= 1;
            return Err(RErr::Diverge);
        }
        let r = self.force(t);
        self.depth -= 1;
        r
    }

    fn check_asserts(&mut self, o: ObjId) -> R<()> {
        if self.objs[o].asserts_state != 0 {
            return Ok(());
        }
        self.objs[o].asserts_state = 1;
        let r = (|| -> R<()> {
            let n = self.objs[o].layers.len();
            for k in 0..n {
                // which layer's assertions are checked first is not specified
                let idx = if self.mirror { n - 1 - k } else { k };
                let layer = self.objs[o].layers[idx].clone();
                if layer.asserts.is_empty() {
                    continue;
                }
                let env = self.layer_env(o, idx, None);
                for (c, m) in layer.asserts.iter() {
                    let v = self.ev(c, env)?;
                    if !self.expect_bool(&v)? {
                        return match m {
                            None => Err(RErr::Assert(None)),
                            Some(m) => {
                                let mv = self.ev(m, env)?;
                                let s = self.to_string(&mv)?;
                                Err(RErr::Assert(Some(s)))
                            }
                        };
                    }
                }
            }
            Ok(())
        })();
        match r {
            Ok(()) => {
                self.objs[o].asserts_state = 2;
                Ok(())
            }
            Err(e) => {
                self.objs[o].asserts_state = 0;
                Err(e)
            }
        }
    }

    fn top_layer(&self, o: ObjId) -> usize {
        self.objs[o].layers.len() - 1
    }

    fn obj_get(&mut self, o: ObjId, name: &str) -> R<V> {
        let top = self.top_layer(o);
        if self.find(o, name, top).is_none() {
            return Err(RErr::Other("nofield"));
        }
        self.check_asserts(o)?;
        self.obj_field_from(o, name, top)
    }

    /// name -> visible?  (specification's visibility merge)
    fn all_fields(&self, o: ObjId) -> BTreeMap<String, bool> {
        let mut res: BTreeMap<String, bool> = BTreeMap::new();
        for l in &self.objs[o].layers {
            for (n, d) in &l.fields {
                match d.vis {
                    Vis::Hidden => {
                        res.insert(n.clone(), false);
                    }
                    Vis::Forced => {
                        res.insert(n.clone(), true);
                    }
                    Vis::Default => {
                        res.entry(n.clone()).or_insert(true);
                    }
                }
            }
        }
        res
    }
    fn visible(&self, o: ObjId) -> Vec<String> {
        self.all_fields(o).into_iter().filter(|(_, v)| *v).map(|(n, _)| n).collect()
    }

    fn index(&mut self, o: &V, i: &V) -> R<V> {
        match (o, i) {
            (V::Obj(o), V::Str(s)) => self.obj_get(*o, s),
            (V::Obj(_), _) => Err(RErr::Other("type")),
            (V::StdObj, V::Str(s)) => self.std_member(s),
            (V::Arr(a), V::Num(n)) => {
                if !is_int(*n) || *n < 0.0 || *n >= a.len() as f64 {
                    return Err(RErr::Other("index"));
                }
                let t = a[*n as usize];
                self.force(t)
            }
            (V::Str(s), V::Num(n)) => {
                let cs: Vec<char> = s.chars().collect();
                if !is_int(*n) || *n < 0.0 || *n >= cs.len() as f64 {
                    return Err(RErr::Other("index"));
                }
                Ok(V::Str(cs[*n as usize].to_string().into()))
            }
            _ => Err(RErr::Other("type")),
        }
    }

    fn slice(&mut self, o: &V, a: &V, b: &V, c: &V) -> R<V> {
        // std.slice of the specification's standard library, for non-negative integer bounds
        let len = match o {
            V::Arr(x) => x.len(),
            V::Str(s) => s.chars().count(),
            _ => return Err(RErr::Other("type")),
        } as f64;
        let get = |v: &V, default: f64| -> R<f64> {
            match v {
                V::Null => Ok(default),
                V::Num(n) => Ok(*n),
                _ => Err(RErr::Other("type")),
            }
        };
        let start = get(a, 0.0)?;
        let end = get(b, len)?;
        let step = get(c, 1.0)?;
        if start < 0.0 || end < 0.0 {
            return Err(RErr::Unsupported("negative slice bound"));
        }
        if !is_int(start) || !is_int(end) || !is_int(step) {
            return Err(RErr::Unsupported("fractional slice bound"));
        }
        if step <= 0.0 {
            return Err(RErr::Other("step"));
        }
        let mut idx = Vec::new();
        let mut cur = start;
        while cur < end && cur < len {
            idx.push(cur as usize);
            cur += step;
        }
        match o {
            V::Arr(x) => Ok(V::Arr(Rc::new(idx.into_iter().map(|i| x[i]).collect()))),
            V::Str(s) => {
                let cs: Vec<char> = s.chars().collect();
                Ok(V::Str(idx.into_iter().map(|i| cs[i]).collect::<String>().into()))
            }
            _ => unreachable!(),
        }
    }

    fn extend(&mut self, a: ObjId, b: ObjId) -> R<ObjId> {
        let mut layers = self.objs[a].layers.clone();
        layers.extend(self.objs[b].layers.iter().cloned());
        self.charge(layers.len())?;
        if layers.len() > 4096 {
            return Err(RErr::Diverge);
        }
        self.objs.push(Obj {
            layers,
            envs: HashMap::new(),
            cache: HashMap::new(),
            asserts_state: 0,
        });
        Ok(self.objs.len() - 1)
    }

    fn add(&mut self, l: &V, r: &V) -> R<V> {
        match (l, r) {
            (V::Num(a), V::Num(b)) => {
                let v = a + b;
                if !v.is_finite() {
                    return Err(RErr::Other("overflow"));
                }
                Ok(V::Num(v))
            }
            (V::Str(a), V::Str(b)) => Ok(V::Str(format!("{a}{b}").into())),
            (V::Str(a), other) => {
                let s = self.to_string(other)?;
                Ok(V::Str(format!("{a}{s}").into()))
            }
            (other, V::Str(b)) => {
                let s = self.to_string(other)?;
                Ok(V::Str(format!("{s}{b}").into()))
            }
            (V::Arr(a), V::Arr(b)) => {
                let mut v = (**a).clone();
                v.extend(b.iter().copied());
                self.charge(v.len())?;
                Ok(V::Arr(Rc::new(v)))
            }
            (V::Obj(a), V::Obj(b)) => Ok(V::Obj(self.extend(*a, *b)?)),
            (V::StdObj, V::Obj(_) | V::StdObj) | (V::Obj(_), V::StdObj) => Err(RErr::Unsupported("std as an operand of +")),
            _ => Err(RErr::Other("type")),
        }
    }

    fn binop(&mut self, op: BinOp, le: &'a E, re: &'a E, env: EnvId) -> R<V> {
        match op {
            BinOp::And => {
                let l = self.ev(le, env)?;
                if !self.expect_bool(&l)? {
                    return Ok(V::Bool(false));
                }
                let r = self.ev(re, env)?;
                return Ok(V::Bool(self.expect_bool(&r)?));
            }
            BinOp::Or => {
                let l = self.ev(le, env)?;
                if self.expect_bool(&l)? {
                    return Ok(V::Bool(true));
                }
                let r = self.ev(re, env)?;
                return Ok(V::Bool(self.expect_bool(&r)?));
            }
            _ => {}
        }
        let (l, r) = if self.mirror {
            let r = self.ev(re, env)?;
            (self.ev(le, env)?, r)
        } else {
            let l = self.ev(le, env)?;
            (l, self.ev(re, env)?)
        };
        self.binop_values(op, &l, &r)
    }

    pub fn binop_values(&mut self, op: BinOp, l: &V, r: &V) -> R<V> {
        match op {
            BinOp::Add => return self.add(l, r),
            BinOp::Eq => return Ok(V::Bool(self.equals(l, r)?)),
            BinOp::Ne => return Ok(V::Bool(!self.equals(l, r)?)),
            BinOp::Lt | BinOp::Le | BinOp::Gt | BinOp::Ge => {
                let c = self.compare(l, r)?;
                return Ok(V::Bool(match op {
                    BinOp::Lt => c < 0,
                    BinOp::Le => c <= 0,
                    BinOp::Gt => c > 0,
                    _ => c >= 0,
                }));
            }
            BinOp::In => {
                return match (l, r) {
                    (V::Str(s), V::Obj(o)) => {
                        let top = self.top_layer(*o);
                        Ok(V::Bool(self.find(*o, s, top).is_some()))
                    }
                    (V::Str(_), V::StdObj) => Err(RErr::Unsupported("in std")),
                    _ => Err(RErr::Other("type")),
                };
            }
            _ => {}
        }
        if op == BinOp::Rem && matches!(l, V::Str(_)) {
            return Err(RErr::Unsupported("format"));
        }
        let (V::Num(a), V::Num(b)) = (l, r) else {
            return Err(RErr::Other("type"));
        };
        let (a, b) = (*a, *b);
        let safe = |x: f64| is_int(x) && x.abs() < 9007199254740992.0;
        let v = match op {
            BinOp::Sub => a - b,
            BinOp::Mul => a * b,
            BinOp::Div => {
                if b == 0.0 {
                    return Err(RErr::Other("div0"));
                }
                a / b
            }
            BinOp::Rem => {
                if b == 0.0 {
                    return Err(RErr::Other("div0"));
                }
                a % b
            }
            BinOp::BitAnd | BinOp::BitOr | BinOp::BitXor => {
                if !safe(a) || !safe(b) {
                    return Err(RErr::Unsupported("bitwise on non-safe integer"));
                }
                let (x, y) = (a as i64, b as i64);
                (match op {
                    BinOp::BitAnd => x & y,
                    BinOp::BitOr => x | y,
                    _ => x ^ y,
                }) as f64
            }
            BinOp::Shl | BinOp::Shr => {
                if !safe(a) || !safe(b) {
                    return Err(RErr::Unsupported("bitwise on non-safe integer"));
                }
                if b < 0.0 {
                    return Err(RErr::Other("shift"));
                }
                let (x, y) = (a as i64, (b as i64) & 63);
                if op == BinOp::Shl {
                    if y >= 10 || x.abs() >= 1 << 20 {
                        return Err(RErr::Unsupported("large shift"));
                    }
                    (x << y) as f64
                } else {
                    (x >> y) as f64
                }
            }
            _ => unreachable!(),
        };
        if !v.is_finite() {
            return Err(RErr::Other("overflow"));
        }
        Ok(V::Num(v))
    }

    pub fn type_of(&self, v: &V) -> &'static str {
        match v {
            V::Null => "null",
            V::Bool(_) => "boolean",
            V::Num(_) => "number",
            V::Str(_) => "string",
            V::Arr(_) => "array",
            V::Obj(_) | V::StdObj => "object",
            V::Func(_) | V::Builtin(_) => "function",
        }
    }

    pub fn equals(&mut self, l: &V, r: &V) -> R<bool> {
        self.depth += 1;
        if self.depth > self.max_depth {
            self.depth -= 1;
            return Err(RErr::Diverge);
        }
        let res = self.equals_inner(l, r);
        self.depth -= 1;
        res
    }
    fn equals_inner(&mut self, l: &V, r: &V) -> R<bool> {
        let (tl, tr) = (self.type_of(l), self.type_of(r));
        if tl != tr {
            return Ok(false);
        }
        match (l, r) {
            (V::Func(_) | V::Builtin(_), _) => Err(RErr::Other("cmpfn")),
            (V::Arr(a), V::Arr(b)) => {
                if a.len() != b.len() {
                    return Ok(false);
                }
                for (x, y) in a.iter().zip(b.iter()) {
                    let xv = self.force(*x)?;
                    let yv = self.force(*y)?;
                    if !self.equals(&xv, &yv)? {
                        return Ok(false);
                    }
                }
                Ok(true)
            }
            (V::Obj(a), V::Obj(b)) => {
                let (fa, fb) = (self.visible(*a), self.visible(*b));
                if fa != fb {
                    return Ok(false);
                }
                for n in fa {
                    let x = self.obj_get(*a, &n)?;
                    let y = self.obj_get(*b, &n)?;
                    if !self.equals(&x, &y)? {
                        return Ok(false);
                    }
                }
                Ok(true)
            }
            (V::Null, V::Null) => Ok(true),
            (V::Bool(a), V::Bool(b)) => Ok(a == b),
            (V::Num(a), V::Num(b)) => Ok(a == b),
            (V::Str(a), V::Str(b)) => Ok(a == b),
            _ => Err(RErr::Unsupported("equals on std")),
        }
    }

    pub fn compare(&mut self, l: &V, r: &V) -> R<i32> {
        self.depth += 1;
        if self.depth > self.max_depth {
            self.depth -= 1;
            return Err(RErr::Diverge);
        }
        let res = match (l, r) {
            (V::Num(a), V::Num(b)) => Ok(if a < b {
                -1
            } else if a > b {
                1
            } else {
                0
            }),
            (V::Str(a), V::Str(b)) => {
                let (x, y): (Vec<char>, Vec<char>) = (a.chars().collect(), b.chars().collect());
                Ok(match x.cmp(&y) {
                    std::cmp::Ordering::Less => -1,
                    std::cmp::Ordering::Equal => 0,
                    std::cmp::Ordering::Greater => 1,
                })
            }
            (V::Arr(a), V::Arr(b)) => {
                let mut res = 0;
                for (x, y) in a.iter().zip(b.iter()) {
                    let xv = self.force(*x);
                    let xv = match xv {
                        Ok(v) => v,
                        Err(e) => {
                            self.depth -= 1;
                            return Err(e);
                        }
                    };
                    let yv = match self.force(*y) {
                        Ok(v) => v,
                        Err(e) => {
                            self.depth -= 1;
                            return Err(e);
                        }
                    };
                    match self.compare(&xv, &yv) {
                        Ok(0) => {}
                        Ok(c) => {
                            res = c;
                            break;
                        }
                        Err(e) => {
                            self.depth -= 1;
                            return Err(e);
                        }
                    }
                }
                if res == 0 {
                    res = (a.len() as i64 - b.len() as i64).signum() as i32;
                }
                Ok(res)
            }
            _ => Err(RErr::Other("type")),
        };
        self.depth -= 1;
        res
    }

    pub fn to_string(&mut self, v: &V) -> R<String> {
        match v {
            V::Str(s) => Ok(s.to_string()),
            _ => self.manifest_str(v),
        }
    }

    fn manifest_str(&mut self, v: &V) -> R<String> {
        self.depth += 1;
        if self.depth > self.max_depth {
            self.depth -= 1;
            return Err(RErr::Diverge);
        }
        let r = self.manifest_str_inner(v);
        self.depth -= 1;
        r
    }
    fn manifest_str_inner(&mut self, v: &V) -> R<String> {
        match v {
            V::Null => Ok("null".into()),
            V::Bool(b) => Ok(b.to_string()),
            V::Num(n) => Ok(num_to_string(*n)),
            V::Str(s) => Ok(escape_str(s)),
            V::Func(_) | V::Builtin(_) => Err(RErr::Other("manifestfn")),
            V::StdObj => Err(RErr::Unsupported("manifest std")),
            V::Arr(a) => {
                if a.is_empty() {
                    return Ok("[ ]".into());
                }
                let mut parts = Vec::new();
                for t in a.iter() {
                    let x = self.force(*t)?;
                    parts.push(self.manifest_str(&x)?);
                    self.charge(1)?;
                }
                Ok(format!("[{}]", parts.join(", ")))
            }
            V::Obj(o) => {
                self.check_asserts(*o)?;
                let vis = self.visible(*o);
                if vis.is_empty() {
                    return Ok("{ }".into());
                }
                let mut parts = Vec::new();
                let top = self.top_layer(*o);
                for n in vis {
                    let x = self.obj_field_from(*o, &n, top)?;
                    parts.push(format!("{}: {}", escape_str(&n), self.manifest_str(&x)?));
                    self.charge(1)?;
                }
                Ok(format!("{{{}}}", parts.join(", ")))
            }
        }
    }

    pub fn to_json(&mut self, v: &V) -> R<JT> {
        self.depth += 1;
        if self.depth > self.max_depth {
            self.depth -= 1;
            return Err(RErr::Diverge);
        }
        let r = self.to_json_inner(v);
        self.depth -= 1;
        r
    }
    fn to_json_inner(&mut self, v: &V) -> R<JT> {
        match v {
            V::Null => Ok(JT::Null),
            V::Bool(b) => Ok(JT::Bool(*b)),
            V::Num(n) => Ok(JT::Num(*n)),
            V::Str(s) => Ok(JT::Str(s.to_string())),
            V::Func(_) | V::Builtin(_) => Err(RErr::Other("manifestfn")),
            V::StdObj => Err(RErr::Unsupported("manifest std")),
            V::Arr(a) => {
                let mut out = Vec::new();
                for t in a.iter() {
                    let x = self.force(*t)?;
                    out.push(self.to_json(&x)?);
                    self.charge(1)?;
                }
                Ok(JT::Arr(out))
            }
            V::Obj(o) => {
                self.check_asserts(*o)?;
                let top = self.top_layer(*o);
                let mut out = Vec::new();
                for n in self.visible(*o) {
                    let x = self.obj_field_from(*o, &n, top)?;
                    out.push((n, self.to_json(&x)?));
                    self.charge(1)?;
                }
                Ok(JT::Obj(out))
            }
        }
    }

    fn std_member(&mut self, name: &str) -> R<V> {
        const KNOWN: &[&str] = &[
            "length",
            "type",
            "objectFields",
            "objectFieldsAll",
            "objectHas",
            "objectHasAll",
            "toString",
            "trace",
            "makeArray",
            "map",
            "filter",
            "foldl",
            "foldr",
            "range",
            "equals",
            "objectValues",
            "objectValuesAll",
            "isString",
            "isNumber",
            "isBoolean",
            "isObject",
            "isArray",
            "isFunction",
            "join",
            "reverse",
            "count",
            "all",
            "any",
            "flatMap",
            "mapWithKey",
            "get",
            "primitiveEquals",
            "repeat",
            "member",
            "mapWithIndex",
            "filterMap",
            "slice",
            "objectKeysValues",
        ];
        match KNOWN.iter().find(|k| **k == name) {
            Some(k) => Ok(V::Builtin(k)),
            None => Err(RErr::Unsupported("std member outside the model")),
        }
    }

    fn arg(&mut self, args: &[ThId], i: usize) -> R<V> {
        match args.get(i) {
            Some(t) => self.force(*t),
            None => Err(RErr::Other("args")),
        }
    }
    fn arity(&self, args: &[ThId], n: usize) -> R<()> {
        if args.len() == n { Ok(()) } else { Err(RErr::Other("args")) }
    }

    fn call1(&mut self, f: &V, a: ThId) -> R<V> {
        self.depth += 1;
        if self.depth > self.max_depth {
            self.depth -= 1;
            return Err(RErr::Diverge);
        }
        let r = self.apply(f, &[a], &[]);
        self.depth -= 1;
        r
    }

    fn builtin(&mut self, name: &'static str, args: &[ThId]) -> R<V> {
        match name {
            "length" => {
                self.arity(args, 1)?;
                let v = self.arg(args, 0)?;
                Ok(V::Num(match &v {
                    V::Str(s) => s.chars().count(),
                    V::Arr(a) => a.len(),
                    V::Obj(o) => self.visible(*o).len(),
                    V::Func(f) => self.funcs[*f].params.len(),
                    _ => return Err(RErr::Other("type")),
                } as f64))
            }
            "type" => {
                self.arity(args, 1)?;
                let v = self.arg(args, 0)?;
                Ok(V::Str(self.type_of(&v).into()))
            }
            "isString" | "isNumber" | "isBoolean" | "isObject" | "isArray" | "isFunction" => {
                self.arity(args, 1)?;
                let v = self.arg(args, 0)?;
                let want = match name {
                    "isString" => "string",
                    "isNumber" => "number",
                    "isBoolean" => "boolean",
                    "isObject" => "object",
                    "isArray" => "array",
                    _ => "function",
                };
                Ok(V::Bool(self.type_of(&v) == want))
            }
            "objectFields" | "objectFieldsAll" => {
                self.arity(args, 1)?;
                let V::Obj(o) = self.arg(args, 0)? else {
                    return Err(RErr::Other("type"));
                };
                let names: Vec<String> = if name == "objectFields" {
                    self.visible(o)
                } else {
                    self.all_fields(o).into_keys().collect()
                };
                let ts = names.into_iter().map(|n| self.done(V::Str(n.into()))).collect();
                Ok(V::Arr(Rc::new(ts)))
            }
            "objectHas" | "objectHasAll" => {
                self.arity(args, 2)?;
                let V::Obj(o) = self.arg(args, 0)? else {
                    return Err(RErr::Other("type"));
                };
                let V::Str(n) = self.arg(args, 1)? else {
                    return Err(RErr::Other("type"));
                };
                let f = self.all_fields(o);
                Ok(V::Bool(match f.get(&*n) {
                    Some(vis) => name == "objectHasAll" || *vis,
                    None => false,
                }))
            }
            "objectValues" | "objectValuesAll" | "objectKeysValues" => {
                self.arity(args, 1)?;
                let V::Obj(o) = self.arg(args, 0)? else {
                    return Err(RErr::Other("type"));
                };
                if name == "objectKeysValues" {
                    return Err(RErr::Unsupported("objectKeysValues"));
                }
                let names: Vec<String> = if name == "objectValues" {
                    self.visible(o)
                } else {
                    self.all_fields(o).into_keys().collect()
                };
                // o[k] for each k, lazily
                let mut ts = Vec::new();
                for n in names {
                    let ot = self.done(V::Obj(o));
                    let kt = self.done(V::Str(n.into()));
                    ts.push(self.new_thunk(Th::Apply(V::Builtin("get"), vec![ot, kt])));
                }
                Ok(V::Arr(Rc::new(ts)))
            }
            "get" => {
                // internal use: o[k]
                let o = self.arg(args, 0)?;
                let k = self.arg(args, 1)?;
                if args.len() != 2 {
                    return Err(RErr::Unsupported("std.get with defaults"));
                }
                self.index(&o, &k)
            }
            "toString" => {
                self.arity(args, 1)?;
                let v = self.arg(args, 0)?;
                Ok(V::Str(self.to_string(&v)?.into()))
            }
            "trace" => {
                self.arity(args, 2)?;
                let m = self.arg(args, 0)?;
                let V::Str(m) = m else {
                    return Err(RErr::Other("type"));
                };
                self.traces.push(m.to_string());
                self.arg(args, 1)
            }
            "equals" | "primitiveEquals" => {
                self.arity(args, 2)?;
                let a = self.arg(args, 0)?;
                let b = self.arg(args, 1)?;
                if name == "primitiveEquals" {
                    return Err(RErr::Unsupported("primitiveEquals"));
                }
                Ok(V::Bool(self.equals(&a, &b)?))
            }
            "makeArray" => {
                self.arity(args, 2)?;
                let V::Num(n) = self.arg(args, 0)? else {
                    return Err(RErr::Other("type"));
                };
                let f = self.arg(args, 1)?;
                if !matches!(f, V::Func(_) | V::Builtin(_)) {
                    return Err(RErr::Other("type"));
                }
                if !is_int(n) || n < 0.0 {
                    return Err(RErr::Other("index"));
                }
                self.charge(n as usize)?;
                let mut ts = Vec::new();
                for i in 0..(n as usize) {
                    let it = self.done(V::Num(i as f64));
                    ts.push(self.new_thunk(Th::Apply(f.clone(), vec![it])));
                }
                Ok(V::Arr(Rc::new(ts)))
            }
            "map" => {
                self.arity(args, 2)?;
                let f = self.arg(args, 0)?;
                if !matches!(f, V::Func(_) | V::Builtin(_)) {
                    return Err(RErr::Other("type"));
                }
                let a = self.arg(args, 1)?;
                let items: Vec<ThId> = match &a {
                    V::Arr(a) => a.to_vec(),
                    V::Str(s) => {
                        let cs: Vec<String> = s.chars().map(|c| c.to_string()).collect();
                        cs.into_iter().map(|c| self.done(V::Str(c.into()))).collect()
                    }
                    _ => return Err(RErr::Other("type")),
                };
                let ts = items
                    .into_iter()
                    .map(|t| self.new_thunk(Th::Apply(f.clone(), vec![t])))
                    .collect();
                Ok(V::Arr(Rc::new(ts)))
            }
            "mapWithIndex" => {
                self.arity(args, 2)?;
                let f = self.arg(args, 0)?;
                if !matches!(f, V::Func(_) | V::Builtin(_)) {
                    return Err(RErr::Other("type"));
                }
                let V::Arr(a) = self.arg(args, 1)? else {
                    return Err(RErr::Unsupported("mapWithIndex on string"));
                };
                let mut ts = Vec::new();
                for (i, t) in a.iter().enumerate() {
                    let it = self.done(V::Num(i as f64));
                    ts.push(self.new_thunk(Th::Apply(f.clone(), vec![it, *t])));
                }
                Ok(V::Arr(Rc::new(ts)))
            }
            "filter" => {
                self.arity(args, 2)?;
                let f = self.arg(args, 0)?;
                if !matches!(f, V::Func(_) | V::Builtin(_)) {
                    return Err(RErr::Other("type"));
                }
                let V::Arr(a) = self.arg(args, 1)? else {
                    return Err(RErr::Other("type"));
                };
                let mut ts = Vec::new();
                for t in a.iter() {
                    let r = self.call1(&f, *t)?;
                    if self.expect_bool(&r)? {
                        ts.push(*t);
                    }
                }
                Ok(V::Arr(Rc::new(ts)))
            }
            "foldl" | "foldr" => {
                self.arity(args, 3)?;
                let f = self.arg(args, 0)?;
                if !matches!(f, V::Func(_) | V::Builtin(_)) {
                    return Err(RErr::Other("type"));
                }
                let items: Vec<ThId> = match self.arg(args, 1)? {
                    V::Arr(a) => a.to_vec(),
                    V::Str(s) => {
                        let cs: Vec<String> = s.chars().map(|c| c.to_string()).collect();
                        cs.into_iter().map(|c| self.done(V::Str(c.into()))).collect()
                    }
                    _ => return Err(RErr::Other("type")),
                };
                let mut acc = args[2];
                if name == "foldl" {
                    for t in items {
                        let v = self.apply(&f, &[acc, t], &[])?;
                        acc = self.done(v);
                    }
                } else {
                    for t in items.into_iter().rev() {
                        let v = self.apply(&f, &[t, acc], &[])?;
                        acc = self.done(v);
                    }
                }
                self.force(acc)
            }
            "range" => {
                self.arity(args, 2)?;
                let (V::Num(a), V::Num(b)) = (self.arg(args, 0)?, self.arg(args, 1)?) else {
                    return Err(RErr::Other("type"));
                };
                if !is_int(a) || !is_int(b) {
                    return Err(RErr::Unsupported("fractional range"));
                }
                let n = if b >= a { (b - a) as usize + 1 } else { 0 };
                self.charge(n)?;
                let ts = (0..n).map(|i| self.done(V::Num(a + i as f64))).collect();
                Ok(V::Arr(Rc::new(ts)))
            }
            "reverse" => {
                self.arity(args, 1)?;
                match self.arg(args, 0)? {
                    V::Arr(a) => Ok(V::Arr(Rc::new(a.iter().rev().copied().collect()))),
                    _ => Err(RErr::Unsupported("reverse of non-array")),
                }
            }
            _ => Err(RErr::Unsupported("builtin outside the model")),
        }
    }

    pub fn root_env(&mut self) -> EnvId {
        self.envs.push(Env {
            parent: None,
            binds: Vec::new(),
            self_obj: None,
            top: None,
        });
        self.envs.len() - 1
    }
}

#[derive(Clone, Debug, PartialEq)]
pub enum RefOutcome {
    Value(JT),
    Err(RErr),
}

pub struct RefRun {
    pub outcome: RefOutcome,
    pub traces: Vec<String>,
    /// number of tailstrict calls evaluated (their eager argument forcing is outside the model)
    pub tailstrict_calls: u64,
}

/// Evaluates and manifests a closed program.
pub fn run_ref(e: &E) -> RefRun {
    let mut it = Interp::new();
    let env = it.root_env();
    let r = it.ev(e, env).and_then(|v| it.to_json(&v));
    RefRun {
        outcome: match r {
            Ok(j) => RefOutcome::Value(j),
            Err(e) => RefOutcome::Err(e),
        },
        traces: std::mem::take(&mut it.traces),
        tailstrict_calls: it.tailstrict_calls,
    }
}
