//! ref_syntax: own AST, precedence-table printer (several concrete syntaxes), static scoping
//! checker written from the Jsonnet specification, and conversion of the implementation's AST
//! into this one (for C15).
use std::fmt::Write as _;

#[derive(Clone, Copy, Debug, PartialEq, Eq, Hash, PartialOrd, Ord)]
pub enum BinOp {
    Mul,
    Div,
    Rem,
    Add,
    Sub,
    Shl,
    Shr,
    Lt,
    Le,
    Gt,
    Ge,
    In,
    Eq,
    Ne,
    BitAnd,
    BitXor,
    BitOr,
    And,
    Or,
}

pub const ALL_BINOPS: [BinOp; 19] = [
    BinOp::Mul,
    BinOp::Div,
    BinOp::Rem,
    BinOp::Add,
    BinOp::Sub,
    BinOp::Shl,
    BinOp::Shr,
    BinOp::Lt,
    BinOp::Le,
    BinOp::Gt,
    BinOp::Ge,
    BinOp::In,
    BinOp::Eq,
    BinOp::Ne,
    BinOp::BitAnd,
    BinOp::BitXor,
    BinOp::BitOr,
    BinOp::And,
    BinOp::Or,
];

impl BinOp {
    /// Precedence level from the Jsonnet specification (smaller binds tighter).
    pub fn level(self) -> u8 {
        use BinOp::*;
        match self {
            Mul | Div | Rem => 3,
            Add | Sub => 4,
            Shl | Shr => 5,
            Lt | Le | Gt | Ge | In => 6,
            Eq | Ne => 7,
            BitAnd => 8,
            BitXor => 9,
            BitOr => 10,
            And => 11,
            Or => 12,
        }
    }
    pub fn text(self) -> &'static str {
        use BinOp::*;
        match self {
            Mul => "*",
            Div => "/",
            Rem => "%",
            Add => "+",
            Sub => "-",
            Shl => "<<",
            Shr => ">>",
            Lt => "<",
            Le => "<=",
            Gt => ">",
            Ge => ">=",
            In => "in",
            Eq => "==",
            Ne => "!=",
            BitAnd => "&",
            BitXor => "^",
            BitOr => "|",
            And => "&&",
            Or => "||",
        }
    }
}

#[derive(Clone, Copy, Debug, PartialEq, Eq, Hash, PartialOrd, Ord)]
pub enum UnOp {
    Neg,
    Pos,
    BitNot,
    Not,
}
pub const ALL_UNOPS: [UnOp; 4] = [UnOp::Neg, UnOp::Pos, UnOp::BitNot, UnOp::Not];
impl UnOp {
    pub fn text(self) -> &'static str {
        match self {
            UnOp::Neg => "-",
            UnOp::Pos => "+",
            UnOp::BitNot => "~",
            UnOp::Not => "!",
        }
    }
}

#[derive(Clone, Copy, Debug, PartialEq, Eq, Hash, PartialOrd, Ord)]
pub enum Vis {
    Default,
    Hidden,
    Forced,
}
impl Vis {
    pub fn text(self) -> &'static str {
        match self {
            Vis::Default => ":",
            Vis::Hidden => "::",
            Vis::Forced => ":::",
        }
    }
}

#[derive(Clone, Debug, PartialEq, Eq, Hash)]
pub struct Param {
    pub name: String,
    pub default: Option<E>,
}

#[derive(Clone, Debug, PartialEq, Eq, Hash)]
pub struct Bind {
    pub name: String,
    pub params: Option<Vec<Param>>,
    pub body: E,
}

#[derive(Clone, Debug, PartialEq, Eq, Hash)]
pub enum FieldName {
    Id(String),
    Str(String),
    Expr(E),
}

#[derive(Clone, Debug, PartialEq, Eq, Hash)]
pub enum Member {
    Field {
        name: FieldName,
        plus: bool,
        vis: Vis,
        params: Option<Vec<Param>>,
        body: E,
    },
    Local(Bind),
    Assert(E, Option<E>),
}

#[derive(Clone, Debug, PartialEq, Eq, Hash)]
pub enum Spec {
    For(String, E),
    If(E),
}

#[derive(Clone, Debug, PartialEq, Eq, Hash)]
pub enum Arg {
    Pos(E),
    Named(String, E),
}

#[derive(Clone, Copy, Debug, PartialEq, Eq, Hash)]
pub enum ImportKind {
    Code,
    Str,
    Bin,
}

#[derive(Clone, Debug, PartialEq, Eq, Hash)]
pub enum E {
    Null,
    True,
    False,
    /// number literal text (as printed)
    Num(String),
    Str(String),
    /// verbatim text block content (printed as ||| block)
    TextBlock(String),
    Var(String),
    SelfE,
    Dollar,
    SuperField(String),
    SuperIndex(Box<E>),
    InSuper(Box<E>),
    Local(Vec<Bind>, Box<E>),
    Func(Vec<Param>, Box<E>),
    Call(Box<E>, Vec<Arg>, bool),
    If(Box<E>, Box<E>, Option<Box<E>>),
    Bin(BinOp, Box<E>, Box<E>),
    Un(UnOp, Box<E>),
    Array(Vec<E>),
    ArrComp(Box<E>, Vec<Spec>),
    Index(Box<E>, Box<E>),
    Field(Box<E>, String),
    Slice(Box<E>, Option<Box<E>>, Option<Box<E>>, Option<Box<E>>),
    Object(Vec<Member>),
    ObjComp {
        locals1: Vec<Bind>,
        name: Box<E>,
        plus: bool,
        body: Box<E>,
        locals2: Vec<Bind>,
        specs: Vec<Spec>,
    },
    /// `e { members }` / `e + { members }` sugar (inside must be Object or ObjComp)
    ObjExt(Box<E>, Box<E>),
    Error(Box<E>),
    Assert(Box<E>, Option<Box<E>>, Box<E>),
    Import(ImportKind, Box<E>),
    Paren(Box<E>),
}

pub fn b(e: E) -> Box<E> {
    Box::new(e)
}
pub fn num(n: i64) -> E {
    E::Num(n.to_string())
}
pub fn var(s: &str) -> E {
    E::Var(s.to_string())
}
pub fn strlit(s: &str) -> E {
    E::Str(s.to_string())
}

#[derive(Clone, Copy, Debug, PartialEq, Eq)]
pub enum Parens {
    /// only where the precedence table requires them
    Minimal,
    /// around every compound operand
    Full,
}

#[derive(Clone, Copy, Debug)]
pub struct Style {
    pub parens: Parens,
    /// spaces around binary operators and after separators
    pub spaced: bool,
    /// alternative sugar: e.f as e["f"], local f(x)= as local f=function(x), e{..} as e+{..}
    pub alt_sugar: bool,
    /// redundant decoration: comments, trailing commas, newlines
    pub noisy: bool,
}

pub const MINIMAL: Style = Style {
    parens: Parens::Minimal,
    spaced: true,
    alt_sugar: false,
    noisy: false,
};
pub const FULL: Style = Style {
    parens: Parens::Full,
    spaced: true,
    alt_sugar: false,
    noisy: false,
};
pub const ALT: Style = Style {
    parens: Parens::Minimal,
    spaced: false,
    alt_sugar: true,
    noisy: false,
};
pub const NOISY: Style = Style {
    parens: Parens::Full,
    spaced: true,
    alt_sugar: false,
    noisy: true,
};

/// Level of an expression for the printer: 0 atoms, 1 postfix, 2 unary, 3..12 binary, 13 greedy.
fn level(e: &E) -> u8 {
    match e {
        E::Null
        | E::True
        | E::False
        | E::Num(_)
        | E::Str(_)
        | E::TextBlock(_)
        | E::Var(_)
        | E::SelfE
        | E::Dollar
        | E::SuperField(_)
        | E::SuperIndex(_)
        | E::Array(_)
        | E::ArrComp(..)
        | E::Object(_)
        | E::ObjComp { .. }
        | E::Paren(_) => 0,
        E::Call(..) | E::Index(..) | E::Field(..) | E::Slice(..) | E::ObjExt(..) => 1,
        E::Un(..) => 2,
        E::Bin(op, ..) => op.level(),
        E::InSuper(_) => 6,
        E::Local(..) | E::Func(..) | E::If(..) | E::Error(_) | E::Assert(..) | E::Import(..) => 13,
    }
}

pub fn escape_str(s: &str) -> String {
    let mut o = String::from("\"");
    for c in s.chars() {
        match c {
            '"' => o.push_str("\\\""),
            '\\' => o.push_str("\\\\"),
            '\n' => o.push_str("\\n"),
            '\r' => o.push_str("\\r"),
            '\t' => o.push_str("\\t"),
            c if (c as u32) < 0x20 => {
                let _ = write!(o, "\\u{:04x}", c as u32);
            }
            c => o.push(c),
        }
    }
    o.push('"');
    o
}

pub struct Printer {
    pub style: Style,
    out: String,
    /// byte span of every expression node, in pre-order (the order of `children`)
    pub spans: Vec<(usize, usize)>,
}

impl Printer {
    pub fn print(e: &E, style: Style) -> String {
        Self::print_with_spans(e, style).0
    }
    pub fn print_with_spans(e: &E, style: Style) -> (String, Vec<(usize, usize)>) {
        let mut p = Printer {
            style,
            out: String::new(),
            spans: Vec::new(),
        };
        p.expr(e);
        (p.out, p.spans)
    }
    fn s(&mut self, t: &str) {
        self.out.push_str(t);
    }
    fn sp(&mut self) {
        if self.style.spaced {
            self.out.push(' ');
        }
    }
    fn noise(&mut self) {
        if self.style.noisy {
            self.out.push_str(" /* c */ ");
        }
    }
    /// prints `e`, inserting a space when the previous and next characters would otherwise lex
    /// as one operator token (operators are maximal runs of `!$:~+-&|^=<>*/%`)
    fn glued(&mut self, e: &E) {
        const OPCH: &str = "!$:~+-&|^=<>*/%";
        let start = self.out.len();
        let first_span = self.spans.len();
        self.expr(e);
        let prev = self.out[..start].chars().last();
        let next = self.out[start..].chars().next();
        if let (Some(p), Some(n)) = (prev, next) {
            if OPCH.contains(p) && (OPCH.contains(n) || (p == '/' && n == '*')) {
                self.out.insert(start, ' ');
                for sp in self.spans[first_span..].iter_mut() {
                    sp.0 += 1;
                    sp.1 += 1;
                }
            }
        }
    }
    fn comma(&mut self) {
        self.s(",");
        self.sp();
    }
    /// prints `e` as an operand that must have level <= max (parenthesised otherwise)
    fn operand(&mut self, e: &E, max: u8) {
        let lv = level(e);
        let need = lv > max || (self.style.parens == Parens::Full && lv > 0);
        if need {
            self.s("(");
            self.expr(e);
            self.s(")");
        } else {
            self.expr(e);
        }
    }
    fn params(&mut self, ps: &[Param]) {
        self.s("(");
        for (i, p) in ps.iter().enumerate() {
            if i > 0 {
                self.comma();
            }
            self.s(&p.name);
            if let Some(d) = &p.default {
                self.sp();
                self.s("=");
                self.sp();
                self.glued(d);
            }
        }
        if self.style.noisy && !ps.is_empty() {
            self.s(",");
        }
        self.s(")");
    }
    fn bind(&mut self, bd: &Bind) {
        self.s(&bd.name);
        match &bd.params {
            Some(ps) if !self.style.alt_sugar => {
                self.params(ps);
                self.sp();
                self.s("=");
                self.sp();
                self.glued(&bd.body);
            }
            Some(ps) => {
                self.s(" = function");
                self.params(ps);
                self.s(" ");
                self.expr(&bd.body);
            }
            None => {
                self.sp();
                self.s("=");
                self.sp();
                self.glued(&bd.body);
            }
        }
    }
    fn specs(&mut self, specs: &[Spec]) {
        for sp in specs {
            self.s(" ");
            match sp {
                Spec::For(v, e) => {
                    self.s("for ");
                    self.s(v);
                    self.s(" in ");
                    self.expr(e);
                }
                Spec::If(e) => {
                    self.s("if ");
                    self.expr(e);
                }
            }
        }
    }
    fn field_name(&mut self, n: &FieldName) {
        match n {
            FieldName::Id(s) => {
                if self.style.alt_sugar {
                    self.s(&escape_str(s));
                } else {
                    self.s(s);
                }
            }
            FieldName::Str(s) => self.s(&escape_str(s)),
            FieldName::Expr(e) => {
                self.s("[");
                self.expr(e);
                self.s("]");
            }
        }
    }
    fn members(&mut self, ms: &[Member]) {
        self.s("{");
        for (i, m) in ms.iter().enumerate() {
            if i > 0 {
                self.comma();
            }
            self.noise();
            match m {
                Member::Field {
                    name,
                    plus,
                    vis,
                    params,
                    body,
                } => {
                    self.field_name(name);
                    if let Some(ps) = params {
                        self.params(ps);
                    }
                    if *plus {
                        self.s("+");
                    }
                    self.s(vis.text());
                    self.sp();
                    self.glued(body);
                }
                Member::Local(bd) => {
                    self.s("local ");
                    self.bind(bd);
                }
                Member::Assert(c, m) => {
                    self.s("assert ");
                    self.expr(c);
                    if let Some(m) = m {
                        self.s(" : ");
                        self.expr(m);
                    }
                }
            }
        }
        if self.style.noisy && !ms.is_empty() {
            self.s(",");
        }
        self.s("}");
    }
    fn obj_inside(&mut self, e: &E) {
        match e {
            E::Object(ms) => self.members(ms),
            E::ObjComp {
                locals1,
                name,
                plus,
                body,
                locals2,
                specs,
            } => {
                self.s("{");
                for l in locals1 {
                    self.s("local ");
                    self.bind(l);
                    self.comma();
                }
                self.s("[");
                self.expr(name);
                self.s("]");
                if *plus {
                    self.s("+");
                }
                self.s(":");
                self.sp();
                self.glued(body);
                for l in locals2 {
                    self.comma();
                    self.s("local ");
                    self.bind(l);
                }
                if self.style.noisy {
                    self.s(",");
                }
                self.specs(specs);
                self.s("}");
            }
            _ => panic!("obj_inside: not an object"),
        }
    }
    pub fn expr(&mut self, e: &E) {
        let my = self.spans.len();
        self.spans.push((self.out.len(), 0));
        self.expr_inner(e);
        self.spans[my].1 = self.out.len();
    }
    fn expr_inner(&mut self, e: &E) {
        match e {
            E::Null => self.s("null"),
            E::True => self.s("true"),
            E::False => self.s("false"),
            E::Num(t) => self.s(t),
            E::Str(t) => self.s(&escape_str(t)),
            E::TextBlock(t) => {
                self.s("|||\n");
                for line in t.split_inclusive('\n') {
                    if line != "\n" {
                        self.s("  ");
                    }
                    self.s(line);
                }
                self.s("|||");
            }
            E::Var(v) => self.s(v),
            E::SelfE => self.s("self"),
            E::Dollar => self.s("$"),
            E::SuperField(f) => {
                if self.style.alt_sugar {
                    self.s("super[");
                    self.s(&escape_str(f));
                    self.s("]");
                } else {
                    self.s("super.");
                    self.s(f);
                }
            }
            E::SuperIndex(i) => {
                self.s("super[");
                self.expr(i);
                self.s("]");
            }
            E::InSuper(l) => {
                self.operand(l, 6);
                self.s(" in super");
            }
            E::Local(binds, body) => {
                self.s("local ");
                for (i, bd) in binds.iter().enumerate() {
                    if i > 0 {
                        self.comma();
                    }
                    self.bind(bd);
                }
                self.s(";");
                self.s(if self.style.noisy { "\n" } else { " " });
                self.expr(body);
            }
            E::Func(ps, body) => {
                self.s("function");
                self.params(ps);
                self.s(" ");
                self.expr(body);
            }
            E::Call(f, args, tailstrict) => {
                self.postfix_base(f);
                self.s("(");
                for (i, a) in args.iter().enumerate() {
                    if i > 0 {
                        self.comma();
                    }
                    match a {
                        Arg::Pos(e) => self.expr(e),
                        Arg::Named(n, e) => {
                            self.s(n);
                            self.s("=");
                            self.glued(e);
                        }
                    }
                }
                if self.style.noisy && !args.is_empty() {
                    self.s(",");
                }
                self.s(")");
                if *tailstrict {
                    self.s(" tailstrict");
                }
            }
            E::If(c, t, f) => {
                self.s("if ");
                self.expr(c);
                self.s(" then ");
                // a nested if-without-else directly in the then branch would capture our else
                let dangling = f.is_some() && ends_with_open_if(t);
                if dangling {
                    self.s("(");
                    self.expr(t);
                    self.s(")");
                } else {
                    self.expr(t);
                }
                if let Some(f) = f {
                    self.s(" else ");
                    self.expr(f);
                }
            }
            E::Bin(op, l, r) => {
                let lv = op.level();
                self.operand(l, lv);
                self.s(" ");
                self.s(op.text());
                self.s(" ");
                self.noise();
                self.operand(r, lv - 1);
            }
            E::Un(op, x) => {
                self.s(op.text());
                // `- -x`, `!-x` … operator characters would merge into one token
                if matches!(**x, E::Un(..)) && self.style.parens == Parens::Minimal {
                    self.s("(");
                    self.expr(x);
                    self.s(")");
                } else {
                    self.operand(x, 2);
                }
            }
            E::Array(items) => {
                self.s("[");
                for (i, it) in items.iter().enumerate() {
                    if i > 0 {
                        self.comma();
                    }
                    self.expr(it);
                }
                if self.style.noisy && !items.is_empty() {
                    self.s(",");
                }
                self.s("]");
            }
            E::ArrComp(body, specs) => {
                self.s("[");
                self.expr(body);
                if self.style.noisy {
                    self.s(",");
                }
                self.specs(specs);
                self.s("]");
            }
            E::Index(o, i) => {
                self.postfix_base(o);
                self.s("[");
                self.expr(i);
                self.s("]");
            }
            E::Field(o, f) => {
                self.postfix_base(o);
                if self.style.alt_sugar {
                    self.s("[");
                    self.s(&escape_str(f));
                    self.s("]");
                } else {
                    self.s(".");
                    self.s(f);
                }
            }
            E::Slice(o, a, bb, c) => {
                self.postfix_base(o);
                self.s("[");
                if let Some(a) = a {
                    self.expr(a);
                    // `x:` fine, but `$:` / `-1:`… end in an operator character
                    if self.out.ends_with(|ch: char| "!$:~+-&|^=<>*/%".contains(ch)) {
                        self.s(" ");
                    }
                }
                self.s(":");
                if let Some(bb) = bb {
                    self.glued(bb);
                    if c.is_some() && self.out.ends_with(|ch: char| "!$:~+-&|^=<>*/%".contains(ch)) {
                        self.s(" ");
                    }
                } else if c.is_some() {
                    self.s(" ");
                }
                if let Some(c) = c {
                    self.s(":");
                    self.glued(c);
                }
                self.s("]");
            }
            E::Object(_) | E::ObjComp { .. } => self.obj_inside(e),
            E::ObjExt(base, inside) => {
                if self.style.alt_sugar {
                    // e + {…} is a level-4 binary; keep the tree equal by parenthesising
                    self.s("(");
                    self.operand(base, 4);
                    self.s(" + ");
                    self.obj_inside(inside);
                    self.s(")");
                } else {
                    self.postfix_base(base);
                    self.sp();
                    self.obj_inside(inside);
                }
            }
            E::Error(x) => {
                self.s("error ");
                self.expr(x);
            }
            E::Assert(c, m, body) => {
                self.s("assert ");
                self.expr(c);
                if let Some(m) = m {
                    self.s(" : ");
                    self.expr(m);
                }
                self.s("; ");
                self.expr(body);
            }
            E::Import(k, p) => {
                self.s(match k {
                    ImportKind::Code => "import ",
                    ImportKind::Str => "importstr ",
                    ImportKind::Bin => "importbin ",
                });
                self.expr(p);
            }
            E::Paren(x) => {
                self.s("(");
                self.expr(x);
                self.s(")");
            }
        }
    }
    fn postfix_base(&mut self, e: &E) {
        // a number literal directly before `.f` would lex as a fraction
        if matches!(e, E::Num(_)) {
            self.s("(");
            self.expr(e);
            self.s(")");
        } else {
            self.operand(e, 1);
        }
    }
}

fn ends_with_open_if(e: &E) -> bool {
    match e {
        E::If(_, t, None) => {
            let _ = t;
            true
        }
        E::If(_, _, Some(f)) => ends_with_open_if(f),
        E::Local(_, body) | E::Func(_, body) | E::Assert(_, _, body) => ends_with_open_if(body),
        E::Error(x) => ends_with_open_if(x),
        E::Bin(_, _, r) => ends_with_open_if(r),
        E::Un(_, x) => ends_with_open_if(x),
        _ => false,
    }
}

pub fn print(e: &E, style: Style) -> String {
    Printer::print(e, style)
}

pub fn strip_parens(e: &E) -> E {
    map_children(e, &|c| strip_parens(c), true)
}

fn map_binds(bs: &[Bind], f: &dyn Fn(&E) -> E) -> Vec<Bind> {
    bs.iter()
        .map(|bd| Bind {
            name: bd.name.clone(),
            params: bd.params.as_ref().map(|ps| map_params(ps, f)),
            body: f(&bd.body),
        })
        .collect()
}
fn map_params(ps: &[Param], f: &dyn Fn(&E) -> E) -> Vec<Param> {
    ps.iter()
        .map(|p| Param {
            name: p.name.clone(),
            default: p.default.as_ref().map(f),
        })
        .collect()
}
fn map_specs(ss: &[Spec], f: &dyn Fn(&E) -> E) -> Vec<Spec> {
    ss.iter()
        .map(|s| match s {
            Spec::For(v, e) => Spec::For(v.clone(), f(e)),
            Spec::If(e) => Spec::If(f(e)),
        })
        .collect()
}
pub fn map_members(ms: &[Member], f: &dyn Fn(&E) -> E) -> Vec<Member> {
    ms.iter()
        .map(|m| match m {
            Member::Field {
                name,
                plus,
                vis,
                params,
                body,
            } => Member::Field {
                name: match name {
                    FieldName::Expr(e) => FieldName::Expr(f(e)),
                    n => n.clone(),
                },
                plus: *plus,
                vis: *vis,
                params: params.as_ref().map(|ps| map_params(ps, f)),
                body: f(body),
            },
            Member::Local(bd) => Member::Local(map_binds(std::slice::from_ref(bd), f).remove(0)),
            Member::Assert(c, m) => Member::Assert(f(c), m.as_ref().map(f)),
        })
        .collect()
}

/// Rebuilds `e` with `f` applied to every direct child; with `drop_paren` a Paren node is
/// replaced by its (mapped) content.
pub fn map_children(e: &E, f: &dyn Fn(&E) -> E, drop_paren: bool) -> E {
    let fb = |x: &E| Box::new(f(x));
    let fo = |x: &Option<Box<E>>| x.as_ref().map(|x| Box::new(f(x)));
    match e {
        E::Null
        | E::True
        | E::False
        | E::Num(_)
        | E::Str(_)
        | E::TextBlock(_)
        | E::Var(_)
        | E::SelfE
        | E::Dollar
        | E::SuperField(_) => e.clone(),
        E::SuperIndex(i) => E::SuperIndex(fb(i)),
        E::InSuper(l) => E::InSuper(fb(l)),
        E::Local(bs, body) => E::Local(map_binds(bs, f), fb(body)),
        E::Func(ps, body) => E::Func(map_params(ps, f), fb(body)),
        E::Call(c, args, ts) => E::Call(
            fb(c),
            args.iter()
                .map(|a| match a {
                    Arg::Pos(e) => Arg::Pos(f(e)),
                    Arg::Named(n, e) => Arg::Named(n.clone(), f(e)),
                })
                .collect(),
            *ts,
        ),
        E::If(c, t, el) => E::If(fb(c), fb(t), fo(el)),
        E::Bin(op, l, r) => E::Bin(*op, fb(l), fb(r)),
        E::Un(op, x) => E::Un(*op, fb(x)),
        E::Array(items) => E::Array(items.iter().map(f).collect()),
        E::ArrComp(body, specs) => E::ArrComp(fb(body), map_specs(specs, f)),
        E::Index(o, i) => E::Index(fb(o), fb(i)),
        E::Field(o, n) => E::Field(fb(o), n.clone()),
        E::Slice(o, a, bb, c) => E::Slice(fb(o), fo(a), fo(bb), fo(c)),
        E::Object(ms) => E::Object(map_members(ms, f)),
        E::ObjComp {
            locals1,
            name,
            plus,
            body,
            locals2,
            specs,
        } => E::ObjComp {
            locals1: map_binds(locals1, f),
            name: fb(name),
            plus: *plus,
            body: fb(body),
            locals2: map_binds(locals2, f),
            specs: map_specs(specs, f),
        },
        E::ObjExt(base, inside) => E::ObjExt(fb(base), Box::new(map_children(inside, f, drop_paren))),
        E::Error(x) => E::Error(fb(x)),
        E::Assert(c, m, body) => E::Assert(fb(c), fo(m), fb(body)),
        E::Import(k, p) => E::Import(*k, fb(p)),
        E::Paren(x) => {
            if drop_paren {
                f(x)
            } else {
                E::Paren(fb(x))
            }
        }
    }
}

/// Direct children (expressions) of a node, in source order.
pub fn children(e: &E) -> Vec<&E> {
    let mut v: Vec<&E> = Vec::new();
    fn binds<'a>(v: &mut Vec<&'a E>, bs: &'a [Bind]) {
        for bd in bs {
            if let Some(ps) = &bd.params {
                params(v, ps);
            }
            v.push(&bd.body);
        }
    }
    fn params<'a>(v: &mut Vec<&'a E>, ps: &'a [Param]) {
        for p in ps {
            if let Some(d) = &p.default {
                v.push(d);
            }
        }
    }
    fn specs<'a>(v: &mut Vec<&'a E>, ss: &'a [Spec]) {
        for s in ss {
            match s {
                Spec::For(_, e) | Spec::If(e) => v.push(e),
            }
        }
    }
    match e {
        E::SuperIndex(i) => v.push(i),
        E::InSuper(l) => v.push(l),
        E::Local(bs, body) => {
            binds(&mut v, bs);
            v.push(body);
        }
        E::Func(ps, body) => {
            params(&mut v, ps);
            v.push(body);
        }
        E::Call(c, args, _) => {
            v.push(c);
            for a in args {
                match a {
                    Arg::Pos(e) | Arg::Named(_, e) => v.push(e),
                }
            }
        }
        E::If(c, t, el) => {
            v.push(c);
            v.push(t);
            if let Some(el) = el {
                v.push(el);
            }
        }
        E::Bin(_, l, r) => {
            v.push(l);
            v.push(r);
        }
        E::Un(_, x) | E::Error(x) | E::Paren(x) | E::Import(_, x) => v.push(x),
        E::Array(items) => v.extend(items.iter()),
        E::ArrComp(body, ss) => {
            v.push(body);
            specs(&mut v, ss);
        }
        E::Index(o, i) => {
            v.push(o);
            v.push(i);
        }
        E::Field(o, _) => v.push(o),
        E::Slice(o, a, bb, c) => {
            v.push(o);
            for x in [a, bb, c].into_iter().flatten() {
                v.push(x);
            }
        }
        E::Object(ms) => {
            for m in ms {
                match m {
                    Member::Field {
                        name, params: ps, body, ..
                    } => {
                        if let FieldName::Expr(e) = name {
                            v.push(e);
                        }
                        if let Some(ps) = ps {
                            params(&mut v, ps);
                        }
                        v.push(body);
                    }
                    Member::Local(bd) => binds(&mut v, std::slice::from_ref(bd)),
                    Member::Assert(c, m) => {
                        v.push(c);
                        if let Some(m) = m {
                            v.push(m);
                        }
                    }
                }
            }
        }
        E::ObjComp {
            locals1,
            name,
            body,
            locals2,
            specs: ss,
            ..
        } => {
            binds(&mut v, locals1);
            v.push(name);
            v.push(body);
            binds(&mut v, locals2);
            specs(&mut v, ss);
        }
        E::ObjExt(base, inside) => {
            v.push(base);
            v.extend(children(inside));
        }
        E::Assert(c, m, body) => {
            v.push(c);
            if let Some(m) = m {
                v.push(m);
            }
            v.push(body);
        }
        _ => {}
    }
    v
}

pub fn node_count(e: &E) -> usize {
    1 + children(e).iter().map(|c| node_count(c)).sum::<usize>()
}

// ---------------------------------------------------------------------------------------
// Static checker (specification rules)

#[derive(Clone, Debug, PartialEq, Eq, Hash, PartialOrd, Ord)]
pub enum StaticErr {
    UnknownVariable,
    SelfOutsideObject,
    SuperOutsideObject,
    DollarOutsideObject,
    RepeatedLocalName,
    RepeatedFieldName,
    RepeatedParamName,
    PositionalArgAfterNamed,
    TextBlockAsImportPath,
    ComputedImportPath,
}

#[derive(Clone)]
struct Scope {
    vars: Vec<String>,
    in_obj: bool,
}

/// Returns every static error the specification's rules find (the implementation reports one
/// of them; which one is not specified, so callers compare `is_empty` and membership).
pub fn static_check(e: &E, std_in_scope: bool) -> Vec<StaticErr> {
    let mut errs = Vec::new();
    let mut sc = Scope {
        vars: Vec::new(),
        in_obj: false,
    };
    if std_in_scope {
        sc.vars.push("std".into());
    }
    chk(e, &sc, &mut errs);
    errs
}

fn dup_names<'a>(names: impl Iterator<Item = &'a String>) -> bool {
    let mut seen = std::collections::BTreeSet::new();
    for n in names {
        if !seen.insert(n.clone()) {
            return true;
        }
    }
    false
}

fn chk_params(ps: &[Param], sc: &Scope, errs: &mut Vec<StaticErr>) -> Scope {
    if dup_names(ps.iter().map(|p| &p.name)) {
        errs.push(StaticErr::RepeatedParamName);
    }
    let mut inner = sc.clone();
    for p in ps {
        inner.vars.push(p.name.clone());
    }
    for p in ps {
        if let Some(d) = &p.default {
            chk(d, &inner, errs);
        }
    }
    inner
}

fn chk_binds(bs: &[Bind], sc: &Scope, errs: &mut Vec<StaticErr>) -> Scope {
    if dup_names(bs.iter().map(|b| &b.name)) {
        errs.push(StaticErr::RepeatedLocalName);
    }
    let mut inner = sc.clone();
    for bd in bs {
        inner.vars.push(bd.name.clone());
    }
    for bd in bs {
        match &bd.params {
            Some(ps) => {
                let fsc = chk_params(ps, &inner, errs);
                chk(&bd.body, &fsc, errs);
            }
            None => chk(&bd.body, &inner, errs),
        }
    }
    inner
}

fn chk_specs(ss: &[Spec], sc: &Scope, errs: &mut Vec<StaticErr>) -> Scope {
    let mut cur = sc.clone();
    for s in ss {
        match s {
            Spec::For(v, e) => {
                chk(e, &cur, errs);
                cur.vars.push(v.clone());
            }
            Spec::If(e) => chk(e, &cur, errs),
        }
    }
    cur
}

fn chk(e: &E, sc: &Scope, errs: &mut Vec<StaticErr>) {
    match e {
        E::Null | E::True | E::False | E::Num(_) | E::Str(_) | E::TextBlock(_) => {}
        E::Var(v) => {
            if !sc.vars.contains(v) {
                errs.push(StaticErr::UnknownVariable);
            }
        }
        E::SelfE => {
            if !sc.in_obj {
                errs.push(StaticErr::SelfOutsideObject);
            }
        }
        E::Dollar => {
            if !sc.in_obj {
                errs.push(StaticErr::DollarOutsideObject);
            }
        }
        E::SuperField(_) => {
            if !sc.in_obj {
                errs.push(StaticErr::SuperOutsideObject);
            }
        }
        E::SuperIndex(i) => {
            if !sc.in_obj {
                errs.push(StaticErr::SuperOutsideObject);
            }
            chk(i, sc, errs);
        }
        E::InSuper(l) => {
            if !sc.in_obj {
                errs.push(StaticErr::SuperOutsideObject);
            }
            chk(l, sc, errs);
        }
        E::Local(bs, body) => {
            let inner = chk_binds(bs, sc, errs);
            chk(body, &inner, errs);
        }
        E::Func(ps, body) => {
            let inner = chk_params(ps, sc, errs);
            chk(body, &inner, errs);
        }
        E::Call(f, args, _) => {
            chk(f, sc, errs);
            let mut named = false;
            for a in args {
                match a {
                    Arg::Pos(e) => {
                        if named {
                            errs.push(StaticErr::PositionalArgAfterNamed);
                        }
                        chk(e, sc, errs);
                    }
                    Arg::Named(_, e) => {
                        named = true;
                        chk(e, sc, errs);
                    }
                }
            }
        }
        E::If(c, t, f) => {
            chk(c, sc, errs);
            chk(t, sc, errs);
            if let Some(f) = f {
                chk(f, sc, errs);
            }
        }
        E::Bin(_, l, r) => {
            chk(l, sc, errs);
            chk(r, sc, errs);
        }
        E::Un(_, x) | E::Error(x) | E::Paren(x) => chk(x, sc, errs),
        E::Array(items) => {
            for it in items {
                chk(it, sc, errs);
            }
        }
        E::ArrComp(body, ss) => {
            let inner = chk_specs(ss, sc, errs);
            chk(body, &inner, errs);
        }
        E::Index(o, i) => {
            chk(o, sc, errs);
            chk(i, sc, errs);
        }
        E::Field(o, _) => chk(o, sc, errs),
        E::Slice(o, a, bb, c) => {
            chk(o, sc, errs);
            for x in [a, bb, c].into_iter().flatten() {
                chk(x, sc, errs);
            }
        }
        E::Object(ms) => chk_members(ms, sc, errs),
        E::ObjComp {
            locals1,
            name,
            body,
            locals2,
            specs,
            ..
        } => {
            let inner = chk_specs(specs, sc, errs);
            // the field name sees the comprehension variables but not self/locals
            chk(name, &inner, errs);
            let mut osc = inner.clone();
            osc.in_obj = true;
            let all: Vec<Bind> = locals1.iter().chain(locals2.iter()).cloned().collect();
            let lsc = chk_binds(&all, &osc, errs);
            chk(body, &lsc, errs);
        }
        E::ObjExt(base, inside) => {
            chk(base, sc, errs);
            chk(inside, sc, errs);
        }
        E::Assert(c, m, body) => {
            chk(c, sc, errs);
            if let Some(m) = m {
                chk(m, sc, errs);
            }
            chk(body, sc, errs);
        }
        E::Import(_, p) => match &**p {
            E::Str(_) => {}
            E::TextBlock(_) => errs.push(StaticErr::TextBlockAsImportPath),
            _ => errs.push(StaticErr::ComputedImportPath),
        },
    }
}

fn chk_members(ms: &[Member], sc: &Scope, errs: &mut Vec<StaticErr>) {
    // statically named fields must be distinct
    let mut names = Vec::new();
    for m in ms {
        if let Member::Field { name, .. } = m {
            match name {
                FieldName::Id(s) | FieldName::Str(s) => names.push(s.clone()),
                FieldName::Expr(e) => {
                    if let E::Str(s) = e {
                        // [“literal”] is still a computed name for the static rule
                        let _ = s;
                    }
                }
            }
        }
    }
    if dup_names(names.iter()) {
        errs.push(StaticErr::RepeatedFieldName);
    }
    // computed names: outer scope
    for m in ms {
        if let Member::Field {
            name: FieldName::Expr(e),
            ..
        } = m
        {
            chk(e, sc, errs);
        }
    }
    let mut osc = sc.clone();
    osc.in_obj = true;
    let locals: Vec<Bind> = ms
        .iter()
        .filter_map(|m| match m {
            Member::Local(bd) => Some(bd.clone()),
            _ => None,
        })
        .collect();
    let inner = chk_binds(&locals, &osc, errs);
    for m in ms {
        match m {
            Member::Field { params, body, .. } => match params {
                Some(ps) => {
                    let fsc = chk_params(ps, &inner, errs);
                    chk(body, &fsc, errs);
                }
                None => chk(body, &inner, errs),
            },
            Member::Assert(c, m) => {
                chk(c, &inner, errs);
                if let Some(m) = m {
                    chk(m, &inner, errs);
                }
            }
            Member::Local(_) => {}
        }
    }
}

pub fn mentions_self_super_dollar(e: &E) -> bool {
    match e {
        E::SelfE | E::Dollar | E::SuperField(_) | E::SuperIndex(_) | E::InSuper(_) => true,
        // a nested object rebinds self/super but `$` may still refer outward; be conservative
        _ => children(e).iter().any(|c| mentions_self_super_dollar(c)),
    }
}
