//! C12 — the command-line tool's exit status, streams and output modes form one contract.
//! Enumeration of configurations (input form x mode flags x value kinds x variable kinds) and of
//! single faults on the real binary; ref_cli predicts exit status, stream emptiness and the
//! relation between the output modes.
use crate::cli::{self, RunOut, Stdout};
use crate::rt::{self, Outcome, RunCfg};
use crate::util::{self, Ctx, LevelInfo, Report};
use serde_json::{Value as J, json};

#[derive(Clone, Debug)]
struct Prog {
    name: &'static str,
    src: &'static str,
    /// TLA flags to pass (when the program is a function)
    tla: Vec<&'static str>,
    /// the program as a closed expression denoting the final value (after the top-level call)
    final_src: &'static str,
}

fn programs() -> Vec<Prog> {
    let p = |name, src, tla: Vec<&'static str>, final_src| Prog { name, src, tla, final_src };
    vec![
        p("string-with-newline", "\"line é\\n\"", vec![], "\"line é\\n\""),
        p("string-without-newline", "\"no newline\"", vec![], "\"no newline\""),
        p("number", "42", vec![], "42"),
        p("mixed-array", "[1, \"a\", {b: null}]", vec![], "[1, \"a\", {b: null}]"),
        p("string-array", "[\"x\\n\", \"y\"]", vec![], "[\"x\\n\", \"y\"]"),
        p("empty-array", "[]", vec![], "[]"),
        p("object", "{a: 1, h:: 2, s: \"x\", z: [1]}", vec![], "{a: 1, h:: 2, s: \"x\", z: [1]}"),
        p("string-object", "{a: \"s1\", b: \"s2\\n\", hid:: 3}", vec![], "{a: \"s1\", b: \"s2\\n\", hid:: 3}"),
        p("array-object", "{a: [1, 2], b: []}", vec![], "{a: [1, 2], b: []}"),
        p("empty-object", "{}", vec![], "{}"),
        p("function-with-defaults", "function(x=1, y=\"d\") [x, y]", vec![], "[1, \"d\"]"),
        p("function-with-tla", "function(x, y=\"d\") {x: x, y: y}", vec!["--tla-code", "x=[1,2]", "-A", "y=yy"], "{x: [1, 2], y: \"yy\"}"),
        p("function-missing-tla", "function(x) x", vec![], "error \"missing\""),
        p("failing", "error \"boom\"", vec![], "error \"boom\""),
        p("failing-in-manifestation", "{a: 1, b: error \"late\"}", vec![], "{a: 1, b: error \"late\"}"),
        p("syntax-error", "{a: 1", vec![], "error \"syntax\""),
        p("static-error", "zz", vec![], "error \"static\""),
        p("function-value-inside", "[function(x) x]", vec![], "[function(x) x]"),
        // every way a top-level field ends up visible or hidden
        p("visibility-mix", "{a: 1, f::: 2, h:: 3} + {h: 4, g::: 5} + {f: 6, a:: 7} + {k: 8} + {k::: 9}", vec![], "{a: 1, f::: 2, h:: 3} + {h: 4, g::: 5} + {f: 6, a:: 7} + {k: 8} + {k::: 9}"),
        p("visibility-mix-strings", "{a: \"s\", f::: \"t\\n\", h:: \"u\"} + {h: \"v\"} + {h::: super.h + \"w\"} + {[x]::: x for x in [\"p\", \"q\"]}", vec![], "{a: \"s\", f::: \"t\\n\", h:: \"u\"} + {h: \"v\"} + {h::: super.h + \"w\"} + {[x]::: x for x in [\"p\", \"q\"]}"),
        p("inherited-and-computed-fields", "{[\"c\" + \"1\"]: [1], a: {b: 2}} + {a+: {c: 3}, d: self.a.b} + std.mapWithKey(function(k, v) v, {m: 1})", vec![], "{[\"c\" + \"1\"]: [1], a: {b: 2}} + {a+: {c: 3}, d: self.a.b} + std.mapWithKey(function(k, v) v, {m: 1})"),
    ]
}

fn lib_text(src: &str) -> Option<String> {
    match rt::run_fresh(src.as_bytes(), &RunCfg { multiline: true, ..Default::default() }).outcome {
        Outcome::Value(s) => Some(s),
        _ => None,
    }
}
fn lib_json(src: &str) -> Option<J> {
    match rt::run_fresh(src.as_bytes(), &RunCfg::default()).outcome {
        Outcome::Value(s) => serde_json::from_str(&s).ok(),
        _ => None,
    }
}
fn lib_type(src: &str) -> Option<String> {
    lib_json(&format!("std.type({src})")).and_then(|j| j.as_str().map(String::from))
}

#[derive(Clone, Copy, Debug)]
struct Flags {
    string: bool,
    yaml: bool,
    multi: bool,
    out_file: bool,
    no_nl: bool,
}

/// Expected text of one value under -S / -y / default; None = the tool must fail.
fn repr(final_src: &str, f: &Flags) -> Option<String> {
    let nl = if f.no_nl { "" } else { "\n" };
    if f.string {
        if lib_type(final_src)? != "string" {
            return None;
        }
        let s = lib_json(final_src)?.as_str()?.to_string();
        Some(format!("{s}{nl}"))
    } else if f.yaml {
        if lib_type(final_src)? != "array" {
            return None;
        }
        let n = lib_json(&format!("std.length({final_src})"))?.as_u64()?;
        if n == 0 {
            return Some(String::new());
        }
        let mut out = String::new();
        for i in 0..n {
            out.push_str("---\n");
            out.push_str(&lib_text(&format!("({final_src})[{i}]"))?);
            out.push('\n');
        }
        out.push_str("...");
        out.push_str(nl);
        Some(out)
    } else {
        Some(format!("{}{nl}", lib_text(final_src)?))
    }
}

struct Expect {
    code: i32,
    stdout: Option<String>,
    out_file: Option<String>,
    multi_files: Vec<(String, String)>,
}

fn expect(p: &Prog, f: &Flags, dir: &str) -> Expect {
    let fail = |code| Expect { code, stdout: Some(String::new()), out_file: None, multi_files: vec![] };
    if f.string && f.yaml {
        return fail(2);
    }
    let loaded_ok = lib_type(p.final_src).is_some() || matches!(p.name, "failing-in-manifestation" | "function-value-inside");
    if !loaded_ok {
        return fail(1);
    }
    let text;
    let mut files = vec![];
    if f.multi {
        if lib_type(p.final_src).as_deref() != Some("object") {
            return fail(1);
        }
        let Some(fields) = lib_json(&format!("std.objectFields({})", p.final_src)) else { return fail(1) };
        let mut list = String::new();
        for k in fields.as_array().unwrap() {
            let k = k.as_str().unwrap();
            let Some(r) = repr(&format!("({})[{}]", p.final_src, crate::syntax::escape_str(k)), f) else {
                // files written before the failing field may exist; stdout / -o must stay empty
                return Expect { code: 1, stdout: Some(String::new()), out_file: None, multi_files: vec![] };
            };
            files.push((format!("{dir}/multi/{k}"), r));
            list.push_str(&format!("{dir}/multi/{k}\n"));
        }
        text = list;
    } else {
        match repr(p.final_src, f) {
            Some(t) => text = t,
            None => return fail(1),
        }
    }
    if f.out_file {
        Expect { code: 0, stdout: Some(String::new()), out_file: Some(text), multi_files: files }
    } else {
        Expect { code: 0, stdout: Some(text), out_file: None, multi_files: files }
    }
}

fn describe(o: &RunOut) -> String {
    format!("exit {:?} signal {:?} stdout {:?} stderr {:?}", o.code, o.signal, util::truncate(&String::from_utf8_lossy(&o.stdout), 200), util::truncate(&String::from_utf8_lossy(&o.stderr), 200))
}

fn base_contract(o: &RunOut, rep: &mut Report, what: &str, case: &J) -> bool {
    // exit status in {0,1,2}; never a panic; failure => stderr explains and stdout is empty
    let stderr = String::from_utf8_lossy(&o.stderr);
    if o.signal.is_some() || !matches!(o.code, Some(0 | 1 | 2)) {
        rep.violation("C12/exit-status-not-0-1-2", format!("{what}: {}", describe(o)), case.clone());
        return false;
    }
    if stderr.contains("panicked at") || stderr.contains("overflowed its stack") {
        rep.violation("C12/panic", format!("{what}: {}", describe(o)), case.clone());
        return false;
    }
    if o.code != Some(0) {
        if !o.stdout.is_empty() {
            rep.violation("C12/failure-with-output-on-stdout", format!("{what}: {}", describe(o)), case.clone());
            return false;
        }
        if stderr.trim().is_empty() {
            rep.violation("C12/failure-without-explanation", format!("{what}: {}", describe(o)), case.clone());
            return false;
        }
    }
    true
}

fn config_sweep(sh: &util::Shard) -> Report {
    let mut rep = Report::new();
    let progs = programs();
    let dir = cli::scratch("c12");
    let mut idx = 0u64;
    for p in &progs {
        for input_form in ["exec", "file", "stdin"] {
            for mask in 0..32u32 {
                let mine = sh.mine(idx);
                idx += 1;
                if !mine {
                    continue;
                }
                let f = Flags { string: mask & 1 != 0, yaml: mask & 2 != 0, multi: mask & 4 != 0, out_file: mask & 8 != 0, no_nl: mask & 16 != 0 };
                let _ = std::fs::remove_dir_all(format!("{dir}/multi"));
                std::fs::create_dir_all(format!("{dir}/multi")).unwrap();
                let _ = std::fs::remove_file(format!("{dir}/out.txt"));
                let mut args: Vec<String> = Vec::new();
                let mut stdin: Option<Vec<u8>> = None;
                match input_form {
                    "exec" => {
                        args.push("-e".into());
                        args.push(p.src.into());
                    }
                    "file" => {
                        std::fs::write(format!("{dir}/in.jsonnet"), p.src).unwrap();
                        args.push(format!("{dir}/in.jsonnet"));
                    }
                    _ => {
                        args.push("-".into());
                        stdin = Some(p.src.as_bytes().to_vec());
                    }
                }
                if f.string {
                    args.push("-S".into());
                }
                if f.yaml {
                    args.push("-y".into());
                }
                if f.multi {
                    args.push("-m".into());
                    args.push(format!("{dir}/multi"));
                }
                if f.out_file {
                    args.push("-o".into());
                    args.push(format!("{dir}/out.txt"));
                }
                if f.no_nl {
                    args.push("--no-trailing-newline".into());
                }
                for t in &p.tla {
                    args.push((*t).into());
                }
                // every other configuration finds its targets already there, with longer, stale
                // content (an output file is replaced, not overwritten in place)
                const STALE: &str = "STALE-CONTENT-OF-AN-EARLIER-RUN\n";
                let stale = STALE.repeat(60);
                let prepopulated = idx % 2 == 0;
                if prepopulated {
                    if f.out_file {
                        std::fs::write(format!("{dir}/out.txt"), &stale).unwrap();
                    }
                    if f.multi {
                        for (path, _) in &expect(p, &f, &dir).multi_files {
                            std::fs::write(path, &stale).unwrap();
                        }
                    }
                }
                let o = cli::run(&args, stdin.as_deref(), Stdout::Capture, &[], None);
                rep.evaluations += 1;
                rep.states += 1;
                rep.traces_validated += 1;
                rep.transitions += 1;
                let what = format!("{} [{}{}] {:?}", p.name, input_form, if prepopulated { ", targets pre-existing" } else { "" }, &args[if input_form == "exec" { 2 } else { 1 }..]);
                let case = json!({"type":"cli","program":p.src,"input":input_form,"args":args});
                if !base_contract(&o, &mut rep, &what, &case) {
                    continue;
                }
                let e = expect(p, &f, &dir);
                rep.outcome(&format!("exit-{}", e.code));
                rep.distinct(&(p.name, mask, e.code));
                if o.code != Some(e.code) {
                    rep.violation(format!("C12/wrong-exit-status/expected-{}", e.code), format!("{what}: expected exit {}, got {}", e.code, describe(&o)), case.clone());
                    continue;
                }
                let out_path = format!("{dir}/out.txt");
                let out_file = std::fs::read(&out_path).ok();
                if e.code != 0 {
                    // nothing is written to the -o file: absent / empty, or still the stale content
                    if out_file.as_ref().is_some_and(|c| !c.is_empty() && !(prepopulated && c.as_slice() == stale.as_bytes())) {
                        rep.violation("C12/failure-with-output-in-file", format!("{what}: the -o file contains {:?}", util::truncate(&String::from_utf8_lossy(out_file.as_ref().unwrap()), 100)), case.clone());
                    }
                    continue;
                }
                if Some(String::from_utf8_lossy(&o.stdout).to_string()) != e.stdout {
                    rep.violation("C12/stdout-not-the-expected-view", format!("{what}: stdout {:?}, expected {:?}", util::truncate(&String::from_utf8_lossy(&o.stdout), 300), e.stdout.as_ref().map(|s| util::truncate(s, 300))), case.clone());
                }
                if let Some(want) = &e.out_file {
                    if out_file.as_ref().map(|c| String::from_utf8_lossy(c).to_string()).as_ref() != Some(want) {
                        rep.violation("C12/output-file-not-the-expected-view", format!("{what}: -o file {:?}, expected {:?}", out_file.as_ref().map(|c| util::truncate(&String::from_utf8_lossy(c), 300)), util::truncate(want, 300)), case.clone());
                    }
                }
                for (path, want) in &e.multi_files {
                    let got = std::fs::read(path).ok().map(|c| String::from_utf8_lossy(&c).to_string());
                    if got.as_ref() != Some(want) {
                        rep.violation("C12/multi-file-not-the-expected-view", format!("{what}: file {path} contains {:?}, expected {:?}", got.map(|g| util::truncate(&g, 200)), util::truncate(want, 200)), case.clone());
                    }
                }
                if f.multi {
                    let n = std::fs::read_dir(format!("{dir}/multi")).map(|d| d.count()).unwrap_or(0);
                    if n != e.multi_files.len() {
                        rep.violation("C12/multi-unexpected-files", format!("{what}: {n} files written, expected {}", e.multi_files.len()), case.clone());
                    }
                }
                if idx % 211 == 0 {
                    rep.sample(json!({"args": args, "exit": o.code, "stdout": util::truncate(&String::from_utf8_lossy(&o.stdout), 100)}));
                }
            }
        }
    }
    let _ = std::fs::remove_dir_all(&dir);
    rep
}

struct VarCase {
    args: Vec<String>,
    env: Vec<(String, String)>,
    files: Vec<(String, Vec<u8>)>,
    prog: String,
    /// Some(text) = exit 0 with exactly this stdout (with -S: the raw bytes + newline); None = exit 1
    want: Option<String>,
    what: &'static str,
}

fn var_cases(dir: &str) -> Vec<VarCase> {
    let mut v = Vec::new();
    let tricky = ["plain", "with=equals=inside", "quote\"and'quote", "multi\nline\n", "é€😀", "", " leading and trailing ", "$HOME `x` \\n"];
    for val in tricky {
        v.push(VarCase { args: vec!["-S".into(), "-V".into(), format!("x={val}")], env: vec![], files: vec![], prog: "std.extVar(\"x\")".into(), want: Some(format!("{val}\n")), what: "ext-str inline" });
        v.push(VarCase { args: vec!["-S".into(), "--ext-str".into(), "x".into()], env: vec![("x".into(), val.into())], files: vec![], prog: "std.extVar(\"x\")".into(), want: Some(format!("{val}\n")), what: "ext-str from environment" });
        v.push(VarCase { args: vec!["-S".into(), "--ext-str-file".into(), format!("x={dir}/v.txt")], env: vec![], files: vec![("v.txt".into(), val.as_bytes().to_vec())], prog: "std.extVar(\"x\")".into(), want: Some(format!("{val}\n")), what: "ext-str-file" });
        v.push(VarCase { args: vec!["-S".into(), "-A".into(), format!("x={val}")], env: vec![], files: vec![], prog: "function(x) x".into(), want: Some(format!("{val}\n")), what: "tla-str inline" });
        v.push(VarCase { args: vec!["-S".into(), "--tla-str-file".into(), format!("x={dir}/v.txt")], env: vec![], files: vec![("v.txt".into(), val.as_bytes().to_vec())], prog: "function(x) x".into(), want: Some(format!("{val}\n")), what: "tla-str-file" });
        v.push(VarCase { args: vec!["-S".into(), "--tla-str".into(), "x".into()], env: vec![("x".into(), val.into())], files: vec![], prog: "function(x) x".into(), want: Some(format!("{val}\n")), what: "tla-str from environment" });
    }
    let code = |a: &[&str], prog: &str, want: Option<&str>, what: &'static str, files: Vec<(String, Vec<u8>)>| VarCase { args: a.iter().map(|s| s.to_string()).collect(), env: vec![], files, prog: prog.into(), want: want.map(String::from), what };
    let cfile = format!("x={dir}/c.jsonnet");
    v.push(code(&["--ext-code", "x=[1, 1+1]"], "std.extVar(\"x\")[1]", Some("2\n"), "ext-code", vec![]));
    v.push(code(&["--ext-code", "x={a: 1}", "-V", "y=s"], "std.extVar(\"x\").a + std.length(std.extVar(\"y\"))", Some("2\n"), "ext-code and ext-str", vec![]));
    v.push(code(&["--ext-code-file", &cfile], "std.extVar(\"x\").k", Some("5\n"), "ext-code-file", vec![("c.jsonnet".into(), b"{k: 5}".to_vec())]));
    v.push(code(&["--ext-code", "bad=error \"never used\""], "1", Some("1\n"), "unused failing ext-code is never evaluated", vec![]));
    v.push(code(&["--ext-code", "bad=error \"used\""], "std.extVar(\"bad\")", None, "used failing ext-code", vec![]));
    v.push(code(&["--ext-code", "bad={a: "], "1", None, "ext-code with a syntax error", vec![]));
    v.push(code(&["-V", "x=1", "-V", "x=2"], "1", None, "duplicate ext var", vec![]));
    v.push(code(&["-V", "x=1", "--ext-code", "x=2"], "1", None, "duplicate ext var across kinds", vec![]));
    v.push(code(&["-V", "undefined_env_var_zz"], "1", None, "ext-str from undefined environment variable", vec![]));
    v.push(code(&["--ext-str-file", &format!("x={dir}/missing.txt")], "1", None, "ext-str-file missing", vec![]));
    v.push(code(&["--ext-str-file", &format!("x={dir}/bad.bin")], "1", None, "ext-str-file not UTF-8", vec![("bad.bin".into(), vec![0xff, 0xfe])]));
    v.push(code(&["--ext-code-file", &format!("x={dir}/missing.jsonnet")], "1", None, "ext-code-file missing", vec![]));
    v.push(code(&[], "std.extVar(\"nope\")", None, "undefined ext var", vec![]));
    v.push(code(&["--tla-code", "x=[1]", "-A", "y=b"], "function(x, y, z=3) [x, y, z]", Some("[\n   [\n      1\n   ],\n   \"b\",\n   3\n]\n"), "TLAs bind by name with defaults", vec![]));
    v.push(code(&["-A", "y=b", "--tla-code", "x=1"], "function(x, y) x", Some("1\n"), "TLA order on the command line is irrelevant", vec![]));
    v.push(code(&["-A", "unknown=1"], "function(x=1) x", None, "unknown TLA name", vec![]));
    v.push(code(&["-A", "x=1"], "42", None, "TLA given but the value is not a function", vec![]));
    v.push(code(&[], "function(x) x", None, "missing TLA without default", vec![]));
    v.push(code(&["-A", "x=1", "-A", "x=2"], "function(x) x", None, "duplicate TLA", vec![]));
    v.push(code(&["--tla-code", "x=error \"lazy\""], "function(x) 1", Some("1\n"), "unused failing TLA is never evaluated", vec![]));
    v.push(code(&["--tla-code-file", &cfile], "function(x) x.k", Some("5\n"), "tla-code-file", vec![("c.jsonnet".into(), b"{k: 5}".to_vec())]));
    v.push(code(&["-s", "5"], "local f(n) = if n == 0 then 0 else 1 + f(n - 1); f(100)", None, "max-stack", vec![]));
    v.push(code(&["-s", "500"], "local f(n) = if n == 0 then 0 else 1 + f(n - 1); f(100)", Some("100\n"), "max-stack", vec![]));
    for t in ["0", "1", "5"] {
        v.push(code(&["-t", t], "local f(n) = if n == 0 then error \"e\" else 1 + f(n - 1); f(10)", None, "max-trace", vec![]));
    }
    v.push(code(&["--bogus-flag"], "1", None, "unknown flag", vec![]));
    v
}

fn var_sweep(rep: &mut Report) {
    let dir = cli::scratch("c12v");
    for c in var_cases(&dir) {
        for (name, data) in &c.files {
            std::fs::write(format!("{dir}/{name}"), data).unwrap();
        }
        let mut args = vec!["-e".to_string(), c.prog.clone()];
        args.extend(c.args.iter().cloned());
        let o = cli::run(&args, None, Stdout::Capture, &c.env, None);
        rep.evaluations += 1;
        rep.states += 1;
        rep.traces_validated += 1;
        let case = json!({"type":"cli","args":args,"env":c.env});
        let what = format!("{}: {:?}", c.what, c.args);
        if !base_contract(&o, rep, &what, &case) {
            continue;
        }
        rep.outcome(if c.want.is_some() { "variables:exit-0" } else { "variables:failure" });
        rep.distinct(&(c.what, c.want.is_some()));
        match &c.want {
            Some(w) => {
                if o.code != Some(0) || String::from_utf8_lossy(&o.stdout) != *w {
                    rep.violation("C12/variables/wrong-result", format!("{what}: expected exit 0 with {w:?}, got {}", describe(&o)), case);
                }
            }
            None => {
                let usage = c.what == "unknown flag";
                if o.code != Some(if usage { 2 } else { 1 }) {
                    rep.violation("C12/variables/failure-not-reported", format!("{what}: expected exit {}, got {}", if usage { 2 } else { 1 }, describe(&o)), case);
                }
            }
        }
    }
    let _ = std::fs::remove_dir_all(&dir);
}

fn fault_sweep(rep: &mut Report) {
    let dir = cli::scratch("c12f");
    std::fs::create_dir_all(format!("{dir}/adir")).unwrap();
    std::fs::write(format!("{dir}/afile"), "1").unwrap();
    let _ = std::os::unix::fs::symlink(format!("{dir}/nowhere"), format!("{dir}/dangling"));
    let _ = std::os::unix::fs::symlink(format!("{dir}/loop2"), format!("{dir}/loop1"));
    let _ = std::os::unix::fs::symlink(format!("{dir}/loop1"), format!("{dir}/loop2"));
    std::fs::write(format!("{dir}/ok.jsonnet"), "{a: 1, b: \"s\"}").unwrap();
    let modes: Vec<Vec<&str>> = vec![vec![], vec!["-S"], vec!["-y"], vec!["--no-trailing-newline"], vec!["-S", "--no-trailing-newline"], vec!["-y", "--no-trailing-newline"]];
    // --- input faults
    for (what, path) in [("input missing", format!("{dir}/missing.jsonnet")), ("input is a directory", format!("{dir}/adir")), ("input path through a non-directory", format!("{dir}/afile/x.jsonnet")), ("input is a dangling symlink", format!("{dir}/dangling")), ("input is a symlink loop", format!("{dir}/loop1"))] {
        for m in &modes {
            let mut args: Vec<String> = vec![path.clone()];
            args.extend(m.iter().map(|s| s.to_string()));
            args.extend(["-o".to_string(), format!("{dir}/o.txt")]);
            let _ = std::fs::remove_file(format!("{dir}/o.txt"));
            let o = cli::run(&args, None, Stdout::Capture, &[], None);
            rep.evaluations += 1;
            rep.states += 1;
            let case = json!({"type":"cli-fault","fault":what,"args":args});
            if !base_contract(&o, rep, what, &case) {
                continue;
            }
            rep.outcome("fault:input");
            rep.distinct(&(what, m.len()));
            if o.code != Some(1) || std::fs::metadata(format!("{dir}/o.txt")).is_ok_and(|md| md.len() > 0) {
                rep.violation("C12/fault/input-failure-not-exit-1", format!("{what} {m:?}: {}", describe(&o)), case);
            }
        }
    }
    // --- output faults (value kinds per mode)
    let prog_for = |m: &Vec<&str>| if m.contains(&"-S") { "\"text\"" } else if m.contains(&"-y") { "[1, 2]" } else { "{a: 1}" };
    for (what, target) in [("-o target is a directory", format!("{dir}/adir")), ("-o target in a missing directory", format!("{dir}/nodir/o.txt")), ("-o target is /dev/full", "/dev/full".to_string()), ("-o path through a non-directory", format!("{dir}/afile/o.txt"))] {
        for m in &modes {
            let mut args: Vec<String> = vec!["-e".into(), prog_for(m).into()];
            args.extend(m.iter().map(|s| s.to_string()));
            args.extend(["-o".to_string(), target.clone()]);
            let o = cli::run(&args, None, Stdout::Capture, &[], None);
            rep.evaluations += 1;
            rep.states += 1;
            let case = json!({"type":"cli-fault","fault":what,"args":args});
            if !base_contract(&o, rep, what, &case) {
                continue;
            }
            rep.outcome("fault:output-file");
            rep.distinct(&(what, m.len()));
            if o.code != Some(1) {
                rep.violation("C12/fault/output-file-failure-not-exit-1", format!("{what} {m:?}: {}", describe(&o)), case);
            }
        }
    }
    for (what, target) in [("-m directory missing", format!("{dir}/nodir")), ("-m directory is a file", format!("{dir}/afile"))] {
        for m in [vec![], vec!["-S"], vec!["--no-trailing-newline"]] {
            let prog = if m.contains(&"-S") { "{a: \"s\"}" } else { "{a: 1}" };
            let mut args: Vec<String> = vec!["-e".into(), prog.into(), "-m".into(), target.clone()];
            args.extend(m.iter().map(|s| s.to_string()));
            let o = cli::run(&args, None, Stdout::Capture, &[], None);
            rep.evaluations += 1;
            rep.states += 1;
            let case = json!({"type":"cli-fault","fault":what,"args":args});
            if !base_contract(&o, rep, what, &case) {
                continue;
            }
            rep.outcome("fault:multi-dir");
            if o.code != Some(1) {
                rep.violation("C12/fault/multi-failure-not-exit-1", format!("{what} {m:?}: {}", describe(&o)), case);
            }
        }
    }
    // --- stdout faults
    for (kind, kname) in [(Stdout::DevFull, "stdout is /dev/full (ENOSPC)"), (Stdout::BrokenPipe, "stdout is a pipe whose reader has exited (EPIPE)"), (Stdout::Closed, "stdout is a closed descriptor (EBADF)")] {
        for m in &modes {
            for big in [false, true] {
                let prog = if big {
                    if m.contains(&"-S") { "std.repeat(\"0123456789abcdef\", 20000)".to_string() } else if m.contains(&"-y") { "std.range(1, 30000)".to_string() } else { "std.range(1, 30000)".to_string() }
                } else {
                    prog_for(m).to_string()
                };
                let mut args: Vec<String> = vec!["-e".into(), prog];
                args.extend(m.iter().map(|s| s.to_string()));
                let o = cli::run(&args, None, kind, &[], None);
                rep.evaluations += 1;
                rep.states += 1;
                let case = json!({"type":"cli-fault","fault":kname,"args":args});
                let stderr = String::from_utf8_lossy(&o.stderr);
                rep.outcome("fault:stdout");
                rep.distinct(&(kname, m.len(), big));
                if o.signal.is_some() || stderr.contains("panicked at") {
                    rep.violation("C12/fault/stdout-failure-crashes", format!("{kname} {m:?}: {}", describe(&o)), case);
                } else if o.code != Some(1) || stderr.trim().is_empty() {
                    let sig = match kind {
                        Stdout::Closed => "C12/exit0-lost-output/closed-stdout",
                        _ if m.contains(&"--no-trailing-newline") => "C12/exit0-lost-output/no-trailing-newline",
                        _ => "C12/exit0-lost-output",
                    };
                    rep.violation(sig, format!("{kname} {m:?} ({} output): the output cannot be written but the tool reports {}", if big { "large" } else { "small" }, describe(&o)), case);
                }
            }
        }
    }
    // --- multi mode with a field that cannot be a file name
    let o = cli::run(&["-e".into(), "{\"a/b\": 1}".into(), "-m".into(), format!("{dir}/adir")], None, Stdout::Capture, &[], None);
    rep.evaluations += 1;
    let case = json!({"type":"cli-fault","fault":"multi field name with a slash"});
    if base_contract(&o, rep, "multi field name with a slash", &case) && o.code != Some(1) {
        rep.violation("C12/fault/multi-failure-not-exit-1", format!("field a/b: {}", describe(&o)), case);
    }
    let _ = std::fs::remove_dir_all(&dir);
}

pub fn run(ctx: &Ctx) -> i32 {
    if !std::path::Path::new(&cli::binary()).exists() {
        eprintln!("ENGINE-ERROR: {} not built", cli::binary());
        return 3;
    }
    let mut total = util::par_shards(ctx.threads, 32, |s, n| config_sweep(&util::Shard::plain(s, n)));
    var_sweep(&mut total);
    fault_sweep(&mut total);
    total.extra.insert("programs".into(), json!(programs().len()));
    util::finish(
        ctx,
        LevelInfo {
            level: "fault_enumeration",
            rule: "18 programs (every value kind, functions with/without TLAs, load/static/run-time/manifestation failures) x 3 input forms (-e, file, stdin) x all 32 subsets of {-S, -y, -m, -o, --no-trailing-newline}; 85 variable cases (every ext/tla kind x 8 tricky values, laziness, duplicates, unknown and missing names, -s, -t); single faults: 5 input faults x 6 modes, 4 -o faults x 6 modes, 2 -m faults x 3 modes, 3 stdout faults (ENOSPC, EPIPE, EBADF) x 6 modes x small/large output. distinct+nontrivial = distinct (program, flag set, expected exit) / (fault, mode)".into(),
            assumptions: vec!["expected texts are computed with the library the harness links (the relations between modes are what is checked; decoding is C05's job)".into(), "running as root: permission faults are replaced by EISDIR/ENOTDIR/ELOOP/ENOSPC/EPIPE/EBADF".into()],
        },
        total,
    )
}

pub fn replay(v: &serde_json::Value) -> i32 {
    let c = &v["case"];
    println!("{}", v["what"]);
    if let Some(args) = c["args"].as_array() {
        let args: Vec<String> = args.iter().map(|a| a.as_str().unwrap_or("").to_string()).collect();
        let o = cli::run(&args, None, Stdout::Capture, &[], None);
        println!("now (captured stdout): {}", describe(&o));
    }
    1
}
