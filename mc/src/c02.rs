//! C02 — the core language evaluates as the specification defines.
//! Exhaustive enumeration of closed programs up to a node bound; every program is evaluated by
//! the reference interpreter (model) and replayed on the implementation in >= 2 concrete
//! syntaxes; outcomes are compared by the rule of DESIGN §4 C02.
use crate::corpus::{self, Profile};
use crate::refeval::{self, JT, RErr, RefOutcome};
use crate::rt::{self, Outcome, RunCfg};
use crate::syntax::{self, E};
use crate::util::{self, Ctx, LevelInfo, Report};
use rsjsonnet_lang::arena::Arena;
use rsjsonnet_lang::program::Program;
use serde_json::json;

pub const SMALL_STACK: usize = 12;

pub fn parse_json_tree(s: &str) -> Option<JT> {
    let v: serde_json::Value = serde_json::from_str(s).ok()?;
    Some(JT::from_serde(&v))
}

/// None = agree; Some(description) = disagreement.
pub fn compare(r: &RefOutcome, o: &Outcome) -> Option<String> {
    if let Outcome::Panic(m) = o {
        return Some(format!("implementation panicked: {m}"));
    }
    match r {
        RefOutcome::Value(jt) => match o {
            Outcome::Value(s) => match parse_json_tree(s) {
                Some(t) if t.same(jt) => None,
                Some(t) => Some(format!("value differs: model {} impl {}", jt.show(), t.show())),
                None => Some(format!("implementation output is not JSON: {s}")),
            },
            other => Some(format!("model gives value {} but implementation: {}", jt.show(), other.short())),
        },
        RefOutcome::Err(RErr::Explicit(m)) => match o {
            Outcome::Eval { kind, msg, .. } if kind == "ExplicitError" && msg.as_deref() == Some(m.as_str()) => None,
            other => Some(format!("model fails with error {m:?} but implementation: {}", other.short())),
        },
        RefOutcome::Err(RErr::Assert(m)) => match o {
            Outcome::Eval { kind, msg, .. } if kind == "AssertFailed" && msg == m => None,
            other => Some(format!("model fails with assertion {m:?} but implementation: {}", other.short())),
        },
        RefOutcome::Err(RErr::Other(_)) | RefOutcome::Err(RErr::InfRec) => {
            if o.is_fail() {
                None
            } else {
                Some(format!("model fails ({r:?}) but implementation: {}", o.short()))
            }
        }
        RefOutcome::Err(RErr::Diverge) => match o.eval_kind() {
            Some("StackOverflow") | Some("InfiniteRecursion") => None,
            _ => Some(format!("model diverges but implementation: {}", o.short())),
        },
        RefOutcome::Err(RErr::Unsupported(_)) => None,
    }
}

/// Both fail and at least one carries no specified message => only failing is compared.
fn both_fail_unordered(r: &RefOutcome, o: &Outcome) -> bool {
    matches!(r, RefOutcome::Err(_)) && o.is_fail()
}

pub fn trace_cases() -> bool {
    static T: std::sync::OnceLock<bool> = std::sync::OnceLock::new();
    *T.get_or_init(|| std::env::var("VERIF_TRACE_CASES").is_ok())
}

pub struct Judged {
    pub disagreement: Option<String>,
    pub ref_outcome: RefOutcome,
    pub impl_outcome: Outcome,
    pub model_steps: u64,
}

/// Runs model and implementation for one program text on program `p`.
pub fn judge_on<'p>(p: &mut Program<'p>, e: &E, src: &str) -> Judged {
    let mut it = refeval::Interp::new();
    let env = it.root_env();
    let r = it.ev(e, env).and_then(|v| it.to_json(&v));
    let model_steps = it.steps;
    let r = match r {
        Ok(j) => RefOutcome::Value(j),
        Err(e) => RefOutcome::Err(e),
    };
    let cfg = RunCfg {
        max_stack: Some(SMALL_STACK),
        ..Default::default()
    };
    let mut o = rt::run_on(p, src.as_bytes(), &cfg).outcome;
    let mut d = compare(&r, &o);
    if d.is_some() && matches!(o.eval_kind(), Some("StackOverflow")) && !matches!(r, RefOutcome::Err(RErr::Diverge)) {
        // the small frame limit is only a guard against exponential programs; a terminating
        // program is re-run under the default limit
        let cfg = RunCfg {
            max_stack: Some(500),
            ..Default::default()
        };
        o = rt::run_on(p, src.as_bytes(), &cfg).outcome;
        d = compare(&r, &o);
    }
    if d.is_some() && both_fail_unordered(&r, &o) {
        // the specification does not fix which of several failing operands reports: accept an
        // implementation message that the model produces under the mirrored operand order
        let mut it2 = refeval::Interp::new();
        it2.mirror = true;
        let env2 = it2.root_env();
        let r2 = it2.ev(e, env2).and_then(|v| it2.to_json(&v));
        let r2 = match r2 {
            Ok(j) => RefOutcome::Value(j),
            Err(e) => RefOutcome::Err(e),
        };
        if compare(&r2, &o).is_none() {
            d = None;
        }
    }
    Judged {
        disagreement: d,
        ref_outcome: r,
        impl_outcome: o,
        model_steps,
    }
}

fn ref_class(r: &RefOutcome) -> &'static str {
    match r {
        RefOutcome::Value(_) => "value",
        RefOutcome::Err(RErr::Explicit(_)) => "error",
        RefOutcome::Err(RErr::Assert(_)) => "assert",
        RefOutcome::Err(RErr::Other(k)) => k,
        RefOutcome::Err(RErr::InfRec) => "infrec",
        RefOutcome::Err(RErr::Diverge) => "diverge",
        RefOutcome::Err(RErr::Unsupported(_)) => "unsupported",
    }
}

pub fn sweep(profile: Profile, n: usize, sh: &util::Shard, styles: &[syntax::Style]) -> Report {
    let mut rep = Report::new();
    let mut batch: Vec<(u64, E)> = Vec::new();
    let mut process = |batch: &mut Vec<(u64, E)>, rep: &mut Report| {
        let arena = Arena::new();
        let mut p = Program::new(&arena);
        for (idx, e) in batch.drain(..) {
            if !sh.begin_case(idx, &|| syntax::print(&e, styles[0])) {
                continue;
            }
            for (si, st) in styles.iter().enumerate() {
                let src = syntax::print(&e, *st);
                if trace_cases() {
                    eprintln!("CASE {src}");
                }
                let t0 = std::time::Instant::now();
                let jr = util::catch(|| judge_on(&mut p, &e, &src));
                let dt = t0.elapsed().as_secs_f64();
                if dt > 0.25 {
                    rep.count("slow_cases(>0.25s)", 1);
                    if std::env::var("VERIF_LOG_SLOW").is_ok() {
                        eprintln!("SLOW {dt:.2}s {src}");
                    }
                }
                let j = match jr {
                    Ok(j) => j,
                    Err(m) => {
                        rep.violation(
                            format!("C02/panic/{}", util::panic_site(&m)),
                            format!("panic while evaluating `{src}`: {m}"),
                            json!({"type":"eval","source":src,"profile":profile.name,"nodes":n,"index":idx}),
                        );
                        return; // program state may be poisoned; caller restarts with a new one
                    }
                };
                rep.evaluations += 1;
                rep.traces_validated += 1;
                rep.transitions += j.model_steps;
                if si == 0 {
                    rep.states += 1;
                    rep.outcome(&format!("model:{}", ref_class(&j.ref_outcome)));
                    rep.distinct(&(ref_class(&j.ref_outcome), j.impl_outcome.class(), crate::features::feature_set(&e)));
                    if idx % 9973 == 0 {
                        rep.sample(json!({"source": src, "model": format!("{:?}", j.ref_outcome), "impl": j.impl_outcome.short()}));
                    }
                }
                if matches!(j.ref_outcome, RefOutcome::Err(RErr::Unsupported(_))) {
                    rep.count("outside_model", 1);
                }
                if let Some(d) = j.disagreement {
                    // confirm on a fresh program state before believing it
                    let fresh = util::catch(|| {
                        let a2 = Arena::new();
                        let mut p2 = Program::new(&a2);
                        judge_on(&mut p2, &e, &src).disagreement
                    });
                    if let Ok(None) = fresh {
                        rep.count("disagreement_not_reproduced_on_fresh_state", 1);
                        continue;
                    }
                    let sig = format!(
                        "C02/{}/{}",
                        ref_class(&j.ref_outcome),
                        j.impl_outcome.class()
                    );
                    rep.violation(
                        sig,
                        format!("`{src}`: {d}"),
                        json!({"type":"eval","source":src,"profile":profile.name,"nodes":n,"index":idx,
                               "model":format!("{:?}", j.ref_outcome),"impl":j.impl_outcome.short()}),
                    );
                }
            }
        }
    };
    corpus::for_each_sharded(profile, n, sh.index, sh.n, &mut |idx, e| {
        batch.push((idx, e));
        if batch.len() >= 500 {
            while !batch.is_empty() {
                process(&mut batch, &mut rep);
            }
        }
    });
    while !batch.is_empty() {
        process(&mut batch, &mut rep);
    }
    rep
}


// ------------------------------------------------------------------ edited programs

/// Seed programs rich in feature interactions; every single edit of each (token / fragment
/// insertion, deletion, replacement, adjacent swap) that still parses and passes the static
/// rules is evaluated by model and implementation. The implementation's own parser supplies
/// the tree (C15 decides the parser), so arbitrary texts become model inputs.
pub const SEM_SEEDS: &[&str] = &[
    "{ a : 1 } + { [ k ] : super . a for k in [ \"b\" ] } + { a : 5 }",
    "local o = { a : 1 , b : self . a + 1 } ; o { a : 10 } . b",
    "{ a : 1 , assert self . a > 0 : \"neg\" } { a : - 1 }",
    "local f ( x ) = if x == 0 then 0 else 1 + f ( x - 1 ) ; f ( 3 )",
    "[ { a : i } for i in [ 1 , 2 ] ] [ 1 ] . a",
    "{ a +: { b : 1 } } + { a +: { c : 2 } }",
    "local a = [ 1 , 2 , 3 ] ; [ a [ i ] for i in [ 2 , 1 , 0 ] if i < 2 ]",
    "{ f ( x ) :: x + self . k , k : 1 , r : self . f ( 2 ) }",
    "{ a : { b : $ . c } , c : 3 } . a . b",
    "{ [ if true then \"a\" ] : 1 , [ null ] : 2 }",
    "std . length ( { a : 1 , b :: 2 } ) + std . length ( [ 1 , 2 ] )",
    "{ a : 1 , b :: 2 } + { a :: 3 , b : 4 } + { a ::: 5 }",
    "{ local v = self . a , a : 1 , b : v } { a : 2 }",
    "local o = { x : 1 , y : super . x } ; { x : 2 } + o",
    "{ a : \"x\" in super , b : \"a\" in self } + { x : 1 }",
    "local g = function ( a , b = a ) [ a , b ] ; g ( 1 ) + g ( b = 2 , a = 3 )",
    "std . objectFields ( { [ k ] +: 1 for k in [ \"p\" , \"q\" ] } { p : 5 } )",
    "( { b : 0 } + { a : [ self . b , super . b ] , b : 1 } + { b : 2 } ) . a",
    "[ x for x in [ { a : 1 } + { a +: 1 } ] ] [ 0 ] { a +: 1 }",
    "{ assert self . a == 1 , a : 1 } + { assert super . a == 1 : \"m\" , a +: 0 }",
    "\"a\" + 1 + [ 1 ] [ 0 ] + { a : null } . a",
    "std . map ( function ( x ) x * 2 , [ 1 , 2 ] ) + std . filter ( function ( x ) x > 1 , [ 1 , 2 ] )",
    "{ a : [ 1 ] } + { a +: ( function ( d = [ super . a [ 0 ] + i for i in [ 1 ] ] ) d ) ( ) }",
    "{ a : 1 } + { local s = super . a , a : s + 1 , b : s }",
    "{ a : 1 , b : { c : $ . a , d : self . c , e : { f : $ . a } } }",
    "{ k : 2 , m ( x = self . k ) :: x * 2 , r : self . m ( ) } { k : 3 }",
    "local fs = [ function ( ) i for i in [ 1 , 2 ] ] ; [ f ( ) for f in fs ]",
    "local f ( x , y ) = x ; [ f ( 1 , error \"e\" ) , f ( 2 , error \"e\" ) tailstrict ]",
    "{ a : 1 , b :: error \"x\" , c ::: 2 } + { c : 3 , b :: 4 }",
    "local o = { a : 1 , [ \"b\" ] : self . a } ; o + o { a : 2 }",
    "{ a : { b : 1 } } + { a +: { b +: 1 , c : super . b } }",
    "[ i + j for i in [ 1 , 2 ] for j in [ i , 10 ] if j > i ]",
    "local x = 1 ; local f ( a = x ) = local x = 2 ; a + x ; f ( )",
    "{ assert std . length ( self . a ) > 0 : \"empty \" + self . n , a : [ 1 ] , n : \"n\" } { a : [ ] }",
    "{ local v = w + k , [ k ] : v , local w = \"-\" for k in [ \"a\" ] }",
    "{ local v = w , local w = 1 , a : v , local u = v + w , b : u }",
    "local a = b + 1 , b = c , c = 2 ; [ a , b , c ]",
    "{ a : 1 , b : \"a\" in super , c : { d : \"a\" in super } } + { e : \"b\" in super } + { }",
];

pub const SEM_ALPHABET: &[&str] = &[
    "{", "}", "[", "]", "(", ")", ",", ";", ":", "::", ":::", "+:", ".", "=", "+", "-", "!", "==", "<", "in", "$", "self", "super", "local", "assert",
    "if", "then", "else", "for", "error", "tailstrict", "null", "true", "1", "\"a\"", "k", "x", "a", "b",
    "assert true ,", ", assert self . a == 1 : \"m\"", "local v = self ,", ", local w = super . a", "for k in [ \"a\" , \"b\" ]", "if false", "[ k ] : 1 ,", ", [ \"c\" ] +: 1", "a : 1 ,", ", b :: 2", ", a ::: 3", ", a +: 1",
    "self . a", "super . a", "$ . a", "+ { a : 2 }", "{ a +: 1 }", "{ }", ". a", "[ 0 ]", "[ 1 : ]", "local v = 1 ;", "assert true ;", "function ( x )", "( 1 )", "+ self", "+ super . a", "error \"e\"",
];

/// Every seed must be a program (parse + static rules): a seed that is not one silently costs
/// the whole neighbourhood it was written for.
pub fn check_seeds(rep: &mut Report) {
    for seed in SEM_SEEDS.iter().chain(crate::c01::EDIT_SEEDS.iter()) {
        let ok = match crate::c15::impl_parse(seed.as_bytes()) {
            crate::c15::Parsed::Tree(e, _) => syntax::static_check(&syntax::strip_parens(&e), true).is_empty(),
            _ => false,
        };
        if !ok {
            rep.caps.insert(format!("seed program is not well-formed: {seed}"));
            eprintln!("ENGINE-ERROR: seed program is not well-formed: {seed}");
        }
    }
}

fn edit_sweep(two: bool, sh: &util::Shard) -> Report {
    let mut rep = Report::new();
    let mut n = 0u64;
    let seeds: Vec<&str> = SEM_SEEDS.iter().chain(crate::c01::EDIT_SEEDS.iter()).copied().collect();
    for (si, seed) in seeds.iter().enumerate() {
        let cases = crate::c01::edit_cases_with(seed, two, SEM_ALPHABET);
        let base = n;
        n += cases.len() as u64;
        let mut start = 0usize;
        while start < cases.len() {
            let arena = Arena::new();
            let mut p = Program::new(&arena);
            let mut next = cases.len();
            for (ci, src) in cases.iter().enumerate().skip(start) {
                let id = base + ci as u64 + 1;
                if !sh.mine(id) || !sh.begin_case(id, &|| src.clone()) {
                    continue;
                }
                rep.states += 1;
                let parsed = util::catch(|| crate::c15::impl_parse(src.as_bytes()));
                let e = match parsed {
                    Ok(crate::c15::Parsed::Tree(e, _)) => crate::c15::plain_numbers(&syntax::strip_parens(&e)),
                    Ok(_) => {
                        rep.outcome("edit:not-a-program");
                        continue;
                    }
                    Err(m) => {
                        rep.violation(format!("C02/panic/{}", util::panic_site(&m)), format!("panic while parsing `{src}`: {m}"), json!({"type":"eval","source":src}));
                        continue;
                    }
                };
                if !syntax::static_check(&e, true).is_empty() {
                    rep.outcome("edit:statically-rejected");
                    continue;
                }
                let jr = util::catch(|| judge_on(&mut p, &e, src));
                let j = match jr {
                    Ok(j) => j,
                    Err(m) => {
                        rep.violation(format!("C02/panic/{}", util::panic_site(&m)), format!("panic while evaluating `{src}`: {m}"), json!({"type":"eval","source":src}));
                        next = ci + 1;
                        break;
                    }
                };
                rep.evaluations += 1;
                rep.traces_validated += 1;
                rep.transitions += j.model_steps;
                rep.outcome(&format!("edit:model:{}", ref_class(&j.ref_outcome)));
                rep.distinct(&(ref_class(&j.ref_outcome), j.impl_outcome.class(), crate::features::feature_set(&e)));
                if let RefOutcome::Err(RErr::Unsupported(why)) = &j.ref_outcome {
                    rep.count("outside_model", 1);
                    rep.count(&format!("outside_model:{why}"), 1);
                }
                if id % 4999 == 0 {
                    rep.sample(json!({"source": src, "model": format!("{:?}", j.ref_outcome), "impl": j.impl_outcome.short()}));
                }
                if let Some(d) = j.disagreement {
                    let fresh = util::catch(|| {
                        let a2 = Arena::new();
                        let mut p2 = Program::new(&a2);
                        judge_on(&mut p2, &e, src).disagreement
                    });
                    if let Ok(None) = fresh {
                        rep.count("disagreement_not_reproduced_on_fresh_state", 1);
                        continue;
                    }
                    rep.violation(
                        format!("C02/{}/{}", ref_class(&j.ref_outcome), j.impl_outcome.class()),
                        format!("`{src}`: {d}"),
                        json!({"type":"eval","source":src,"seed":si,"model":format!("{:?}", j.ref_outcome),"impl":j.impl_outcome.short()}),
                    );
                }
            }
            start = next;
        }
    }
    rep
}

pub fn plan(ctx: &Ctx) -> Vec<(Profile, usize)> {
    let mut v = Vec::new();
    if let Ok(pl) = std::env::var("VERIF_PLAN") {
        // debugging aid: "profile:n,profile:n"
        for part in pl.split(',') {
            let (a, b) = part.split_once(':').expect("profile:n");
            v.push((corpus::profile_by_name(a).expect("profile"), b.parse().unwrap()));
        }
        return v;
    }
    let (full_n, prof_n) = if ctx.quick() { (4, 4) } else { (5, 5) };
    for n in 1..=full_n {
        v.push((corpus::FULL, n));
    }
    for p in [
        corpus::OBJECTS,
        corpus::FUNCTIONS,
        corpus::COMPS,
        corpus::LAZY,
        corpus::ARITH,
        corpus::COMPARE,
        corpus::SLICES,
    ] {
        for n in 1..=prof_n {
            v.push((p, n));
        }
    }
    v
}

pub fn run(ctx: &Ctx) -> i32 {
    let styles = [syntax::MINIMAL, syntax::ALT];
    let mut total = Report::new();
    let deadline = if ctx.quick() { 50.0 } else { 3000.0 };
    let mut sizes = serde_json::Map::new();
    for (profile, n) in plan(ctx) {
        if ctx.elapsed() > deadline {
            total.caps.insert(format!("time cap before profile {} n={}", profile.name, n));
            continue;
        }
        let nshards = if n >= 5 { 512 } else if n == 4 { 64 } else { 1 };
        let cfg = util::ForkCfg {
            threads: ctx.threads,
            mem_bytes: std::env::var("VERIF_MEM_GB").ok().and_then(|s| s.parse::<u64>().ok()).unwrap_or(3) << 30,
            case_timeout_s: 60,
            died_signature: "C02/abort".into(), resource_is_violation: false,
        };
        corpus::warm(profile, n);
        let r = util::par_forked(&cfg, nshards, |sh| sweep(profile, n, sh, &styles));
        sizes.insert(format!("{}:{}", profile.name, n), json!(r.states));
        total.merge(r);
    }
    {
        let cfg = util::ForkCfg { threads: ctx.threads, mem_bytes: 3 << 30, case_timeout_s: 60, died_signature: "C02/abort".into(), resource_is_violation: false };
        check_seeds(&mut total);
        let r = util::par_forked(&cfg, 256, |sh| edit_sweep(!ctx.quick(), sh));
        total.extra.insert("edited_programs".into(), json!(r.states));
        total.extra.insert("edited_programs_compared_with_model".into(), json!(r.evaluations));
        total.merge(r);
    }
    total.extra.insert("programs_per_profile_and_size".into(), serde_json::Value::Object(sizes));
    util::finish(
        ctx,
        LevelInfo {
            level: "model_checking",
            rule: "all closed programs with <= n AST nodes over the production alphabets of DESIGN §3.4 (profile `full` and focused profiles), each printed in 2 concrete syntaxes; plus every single edit (token or fragment insertion, deletion, replacement, adjacent swap; thorough: plus a second deletion) of the feature-interaction seed programs that parses and passes the static rules, with the tree taken from the implementation's parser; a case is distinct+nontrivial by (model outcome class, implementation outcome class, set of syntactic features used)".into(),
            assumptions: vec![
                "reference interpreter refeval.rs is the specification's semantics for the modelled subset".into(),
                "programs outside the model (RErr::Unsupported) are counted and not compared".into(),
                "where several operands fail the reporting one is unspecified (mirrored-order retry)".into(),
            ],
        },
        total,
    )
}

pub fn replay(v: &serde_json::Value) -> i32 {
    let mut code = 0;
    let mut cases = vec![v["case"].clone()];
    cases.extend(v["more_cases"].as_array().cloned().unwrap_or_default());
    for c in cases {
        let src = c["source"].as_str().unwrap_or("");
        let r = rt::run_fresh(src.as_bytes(), &RunCfg { max_stack: Some(500), ..Default::default() });
        println!("source: {src}\n  implementation now: {}\n  recorded model: {}\n  recorded impl: {}", r.outcome.short(), c["model"], c["impl"]);
        if c["impl"].as_str() == Some(r.outcome.short().as_str()) {
            code = 1;
        }
    }
    code
}
