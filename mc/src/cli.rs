//! Running the real `rsjsonnet` binary (built from /repo by ./check) under controlled
//! stdin/stdout/environment, including faulty stdout descriptors.
use std::io::Write;
use std::os::fd::FromRawFd;
use std::os::unix::process::CommandExt;
use std::process::{Command, Stdio};

pub fn binary() -> String {
    format!("{}/target/repo/debug/rsjsonnet", crate::util::verif_dir())
}

#[derive(Clone, Copy, Debug, PartialEq, Eq)]
pub enum Stdout {
    Capture,
    /// /dev/full: every write fails with ENOSPC
    DevFull,
    /// a pipe whose reader has gone: EPIPE
    BrokenPipe,
    /// descriptor 1 closed: EBADF
    Closed,
}

#[derive(Debug, Clone)]
pub struct RunOut {
    pub code: Option<i32>,
    pub signal: Option<i32>,
    pub stdout: Vec<u8>,
    pub stderr: Vec<u8>,
}

pub fn run(args: &[String], stdin: Option<&[u8]>, stdout: Stdout, env: &[(String, String)], cwd: Option<&str>) -> RunOut {
    let mut cmd = Command::new(binary());
    cmd.args(args);
    cmd.env_clear();
    cmd.env("NO_COLOR", "1");
    for (k, v) in env {
        cmd.env(k, v);
    }
    if let Some(d) = cwd {
        cmd.current_dir(d);
    }
    cmd.stdin(if stdin.is_some() { Stdio::piped() } else { Stdio::null() });
    cmd.stderr(Stdio::piped());
    match stdout {
        Stdout::Capture => {
            cmd.stdout(Stdio::piped());
        }
        Stdout::DevFull => {
            let f = std::fs::OpenOptions::new().write(true).open("/dev/full").expect("/dev/full");
            cmd.stdout(Stdio::from(f));
        }
        Stdout::BrokenPipe => {
            let mut fds = [0i32; 2];
            unsafe {
                libc::pipe2(fds.as_mut_ptr(), libc::O_CLOEXEC);
                libc::close(fds[0]);
                cmd.stdout(Stdio::from(std::fs::File::from_raw_fd(fds[1])));
            }
        }
        Stdout::Closed => {
            cmd.stdout(Stdio::null());
            unsafe {
                cmd.pre_exec(|| {
                    libc::close(1);
                    Ok(())
                });
            }
        }
    }
    let mut child = cmd.spawn().expect("spawn rsjsonnet");
    if let Some(data) = stdin {
        let mut si = child.stdin.take().unwrap();
        let _ = si.write_all(data);
    }
    let o = child.wait_with_output().expect("wait");
    use std::os::unix::process::ExitStatusExt;
    RunOut { code: o.status.code(), signal: o.status.signal(), stdout: o.stdout, stderr: o.stderr }
}

pub fn scratch(tag: &str) -> String {
    let d = format!("{}/target/tmp/{tag}-{}-{:?}", crate::util::verif_dir(), std::process::id(), std::thread::current().id()).replace(['(', ')'], "");
    let _ = std::fs::remove_dir_all(&d);
    std::fs::create_dir_all(&d).expect("scratch dir");
    d
}
