//! C17 — sorting and set functions meet their mathematical contracts.
//! Elements are pairs [key, id] so stability and "first minimal" are observable. All short
//! arrays, every length up to 200 with every single (and, at merge thresholds, pair of)
//! deviation(s) from base patterns, all pairs of sets over a 6-key universe.
use crate::rt::{self, Outcome, RunCfg};
use crate::util::{self, Ctx, LevelInfo, Report};
use rsjsonnet_lang::arena::Arena;
use rsjsonnet_lang::program::Program;
use serde_json::{Value as J, json};

#[derive(Clone, Copy, PartialEq, Eq, Debug)]
pub enum KeyKind {
    Num,
    Str,
    Arr,
    /// array keys whose elements are lazy computations that themselves sort (forced for the
    /// first time in the middle of the outer sort's comparisons)
    Nested,
    /// number keys where the smallest key is written `0` at even and `-0` at odd positions
    /// (equal keys with different representations)
    ZeroMix,
}

/// key index 0..=2 -> source text; order of the texts is the order of the indexes
fn key_src(kind: KeyKind, k: u8) -> &'static str {
    match (kind, k) {
        (KeyKind::Num, 0) => "-1",
        (KeyKind::Num, 1) => "0.5",
        (KeyKind::Num, _) => "10",
        (KeyKind::Str, 0) => "\"Z\"",
        (KeyKind::Str, 1) => "\"a\"",
        (KeyKind::Str, _) => "\"é\"",
        (KeyKind::Arr, 0) => "[]",
        (KeyKind::Arr, 1) => "[1]",
        (KeyKind::Arr, _) => "[1, 0]",
        (KeyKind::ZeroMix, 0) => "0",
        (KeyKind::ZeroMix, 1) => "1",
        (KeyKind::ZeroMix, _) => "2.5",
        (KeyKind::Nested, 0) => "[std.length(std.set([5, 5, 5]))]",
        (KeyKind::Nested, 1) => "[std.sort([3, 1, 2])[0], std.length(std.uniq(std.sort([7, 7]))) - 1]",
        (KeyKind::Nested, _) => "[std.length(std.set([2, 1, 2], keyF=function(x) [x]))]",
    }
}

fn arr_src(kind: KeyKind, keys: &[u8]) -> String {
    let items: Vec<String> = keys.iter().enumerate().map(|(i, k)| format!("[{}, {i}]", if kind == KeyKind::ZeroMix && *k == 0 && i % 2 == 1 { "-0" } else { key_src(kind, *k) })).collect();
    format!("[{}]", items.join(", "))
}

// ------------------------------------------------------------------ model (ref_sort)

fn ref_sort(keys: &[u8]) -> Vec<usize> {
    let mut idx: Vec<usize> = (0..keys.len()).collect();
    idx.sort_by_key(|&i| keys[i]); // Vec::sort_by_key is stable
    idx
}
fn ref_uniq(keys: &[u8], order: &[usize]) -> Vec<usize> {
    let mut out: Vec<usize> = Vec::new();
    for &i in order {
        if out.last().is_none_or(|&l| keys[l] != keys[i]) {
            out.push(i);
        }
    }
    out
}
fn ref_min(keys: &[u8]) -> Option<usize> {
    let m = *keys.iter().min()?;
    keys.iter().position(|&k| k == m)
}
fn ref_max(keys: &[u8]) -> Option<usize> {
    let m = *keys.iter().max()?;
    keys.iter().position(|&k| k == m)
}

fn ids(v: &J) -> Option<Vec<usize>> {
    v.as_array()?.iter().map(|p| p.as_array().and_then(|p| p.get(1)).and_then(|x| x.as_u64()).map(|x| x as usize)).collect()
}

pub fn check_array<'p>(p: &mut Program<'p>, kind: KeyKind, keys: &[u8], rep: &mut Report, what: &str) {
    let a = arr_src(kind, keys);
    let src = format!(
        "local a = {a}, k = function(p) p[0]; {{ sort: std.sort(a, k), uniq: std.uniq(a, k), set: std.set(a, k), min: std.minArray(a, k, onEmpty=\"E\"), max: std.maxArray(a, k, onEmpty=\"E\"), sort_id: [q[1] for q in std.sort([[x[0], x[1]] for x in a])], has: [std.setMember([kk, 99], std.set(a, k), k) for kk in [{}, {}, {}]] }}",
        key_src(kind, 0), key_src(kind, 1), key_src(kind, 2)
    );
    rep.evaluations += 1;
    rep.traces_validated += 1;
    rep.transitions += keys.len() as u64 + 1;
    let r = util::catch(|| rt::run_on(p, src.as_bytes(), &RunCfg::default()));
    let case = || json!({"type":"sort","kind":format!("{kind:?}"),"keys":keys});
    let out = match r {
        Ok(r) => r.outcome,
        Err(m) => {
            rep.violation(format!("C17/panic/{}", util::panic_site(&m)), format!("{what} keys {keys:?}: {m}"), case());
            return;
        }
    };
    let Outcome::Value(s) = &out else {
        let sig = if matches!(out.eval_kind(), Some("StackOverflow")) { "C17/stack-overflow-by-length".to_string() } else { format!("C17/unexpected-failure/{}", out.class()) };
        rep.violation(sig, format!("{what} ({} elements, {kind:?} keys): {}", keys.len(), out.short()), case());
        return;
    };
    let v: J = serde_json::from_str(s).unwrap();
    let sorted = ref_sort(keys);
    let mut bad = |rep: &mut Report, law: &str, got: String, want: String| {
        rep.violation(format!("C17/{law}"), format!("{what} {kind:?} keys {keys:?}: got {got}, expected {want}"), case());
    };
    match ids(&v["sort"]) {
        Some(g) if g == sorted => {}
        Some(g) => {
            let mut gs = g.clone();
            gs.sort();
            let law = if gs != (0..keys.len()).collect::<Vec<_>>() {
                "sort/not-a-permutation"
            } else if g.windows(2).any(|w| keys[w[0]] > keys[w[1]]) {
                "sort/not-ordered"
            } else {
                "sort/not-stable"
            };
            bad(rep, law, format!("{g:?}"), format!("{sorted:?}"));
        }
        None => bad(rep, "sort/shape", v["sort"].to_string(), "array of pairs".into()),
    }
    // sorting whole pairs [key, id] (no keyF): ids are ascending within equal keys anyway
    if v["sort_id"].as_array().map(|a| a.iter().map(|x| x.as_u64().unwrap() as usize).collect::<Vec<_>>()) != Some(sorted.clone()) {
        bad(rep, "sort/identity-key", v["sort_id"].to_string(), format!("{sorted:?}"));
    }
    let all: Vec<usize> = (0..keys.len()).collect();
    if ids(&v["uniq"]) != Some(ref_uniq(keys, &all)) {
        bad(rep, "uniq", v["uniq"].to_string(), format!("{:?}", ref_uniq(keys, &all)));
    }
    if ids(&v["set"]) != Some(ref_uniq(keys, &sorted)) {
        bad(rep, "set-is-not-uniq-of-sort", v["set"].to_string(), format!("{:?}", ref_uniq(keys, &sorted)));
    }
    for (name, want) in [("min", ref_min(keys)), ("max", ref_max(keys))] {
        let got = &v[name];
        let ok = match want {
            None => got == "E",
            Some(i) => got.as_array().and_then(|p| p.get(1)).and_then(|x| x.as_u64()) == Some(i as u64),
        };
        if !ok {
            bad(rep, &format!("{name}Array-not-first-extremal"), got.to_string(), format!("{want:?}"));
        }
    }
    let has: Vec<bool> = v["has"].as_array().unwrap().iter().map(|x| x.as_bool().unwrap()).collect();
    let want: Vec<bool> = (0..3u8).map(|k| keys.contains(&k)).collect();
    if has != want {
        bad(rep, "setMember", format!("{has:?}"), format!("{want:?}"));
    }
    rep.outcome(if keys.len() > 30 { "merge-path" } else { "short-path" });
}

fn base_patterns(n: usize) -> Vec<(&'static str, Vec<u8>)> {
    vec![
        ("ascending", (0..n).map(|i| ((i * 3) / n.max(1)) as u8).collect()),
        ("descending", (0..n).map(|i| 2 - ((i * 3) / n.max(1)) as u8).collect()),
        ("constant", vec![1; n]),
        ("two-runs", (0..n).map(|i| if i < n / 2 { (i % 3) as u8 } else { 2 - (i % 3) as u8 }).collect()),
        ("saw-2", (0..n).map(|i| (i % 2) as u8 * 2).collect()),
        ("saw-3", (0..n).map(|i| (i % 3) as u8).collect()),
        ("saw-7", (0..n).map(|i| ((i % 7) % 3) as u8).collect()),
    ]
}

fn short_sweep(sh: &util::Shard, maxlen: usize) -> Report {
    let mut rep = Report::new();
    let arena = Arena::new();
    let mut p = Program::new(&arena);
    let mut idx = 0u64;
    for len in 0..=maxlen {
        util::for_each_seq(3, len, |seq| {
            let mine = sh.mine(idx);
            idx += 1;
            if !mine {
                return;
            }
            let keys: Vec<u8> = seq.iter().map(|&k| k as u8).collect();
            for kind in [KeyKind::Num, KeyKind::Str, KeyKind::Arr, KeyKind::Nested, KeyKind::ZeroMix] {
                check_array(&mut p, kind, &keys, &mut rep, "array");
            }
            rep.states += 1;
            rep.distinct(&(len, ref_uniq(&keys, &ref_sort(&keys)).len(), ref_sort(&keys) == (0..len).collect::<Vec<_>>()));
            if idx % 499 == 0 {
                rep.sample(json!({"keys": keys, "as_source": arr_src(KeyKind::Str, &keys)}));
            }
        });
    }
    rep
}

fn long_sweep(sh: &util::Shard, lengths: &[usize], pair_lengths: &[usize]) -> Report {
    let mut rep = Report::new();
    let arena = Arena::new();
    let mut p = Program::new(&arena);
    let mut since_new = 0;
    for (li, &n) in lengths.iter().enumerate() {
        if !sh.mine(li as u64) {
            continue;
        }
        for (pname, base) in base_patterns(n) {
            let kind = [KeyKind::Num, KeyKind::Str, KeyKind::Arr, KeyKind::Nested, KeyKind::ZeroMix][(n + pname.len()) % 5];
            check_array(&mut p, kind, &base, &mut rep, pname);
            rep.states += 1;
            // every single deviation
            for pos in 0..n {
                for k in 0..3u8 {
                    if base[pos] == k {
                        continue;
                    }
                    let mut keys = base.clone();
                    keys[pos] = k;
                    check_array(&mut p, kind, &keys, &mut rep, pname);
                    rep.states += 1;
                    since_new += 1;
                }
            }
            rep.distinct(&(n, pname));
            // every pair of deviations at the merge thresholds
            if pair_lengths.contains(&n) && (pname == "ascending" || pname == "saw-3" || pname == "constant") {
                for p1 in 0..n {
                    for p2 in (p1 + 1)..n {
                        for k1 in 0..3u8 {
                            for k2 in 0..3u8 {
                                if base[p1] == k1 || base[p2] == k2 {
                                    continue;
                                }
                                let mut keys = base.clone();
                                keys[p1] = k1;
                                keys[p2] = k2;
                                check_array(&mut p, kind, &keys, &mut rep, pname);
                                rep.states += 1;
                            }
                        }
                    }
                }
            }
            if since_new > 0 && li % 5 == 0 && pname == "saw-3" {
                rep.sample(json!({"length": n, "pattern": pname, "base": base}));
            }
        }
    }
    rep
}

fn set_src(kind: KeyKind, mask: u32, side: u32, universe: &[&str]) -> String {
    // (zero-mix universe: the left set writes the zero key as -0, the right one as 0)
    let items: Vec<String> = (0..universe.len()).filter(|i| mask & (1 << i) != 0).map(|i| format!("[{}, {side}]", if kind == KeyKind::ZeroMix && universe[i] == "-0" && side == 1 { "0" } else { universe[i] })).collect();
    format!("[{}]", items.join(", "))
}

fn set_algebra(sh: &util::Shard) -> Report {
    let mut rep = Report::new();
    let arena = Arena::new();
    let mut p = Program::new(&arena);
    let universes: Vec<(KeyKind, Vec<&str>, Option<Vec<&str>>)> = vec![
        (KeyKind::Num, vec!["-2", "-0.5", "0", "1", "2.5", "1e9"], None),
        (KeyKind::Str, vec!["\"\"", "\"A\"", "\"a\"", "\"ab\"", "\"b\"", "\"é\""], None),
        (KeyKind::Arr, vec!["[]", "[0]", "[0, 0]", "[0, 1]", "[1]", "[1, 0]"], None),
        (KeyKind::ZeroMix, vec!["-1", "-0", "1", "2", "3", "4"], Some(vec!["-1", "0", "1", "2", "3", "4"])),
        (KeyKind::Nested, vec!["[std.length(std.set([5, 5]))]", "[std.sort([2, 1])[0], 0]", "[std.sort([2, 1])[0], 1]", "[2]", "[std.length(std.set([1, 2])), 0]", "[3]"], Some(vec!["[1]", "[1,0]", "[1,1]", "[2]", "[2,0]", "[3]"])),
    ];
    for (kind, uni, uni_json) in &universes {
        let uni_json = uni_json.as_ref().unwrap_or(uni);
        for a in 0..64u32 {
            if !sh.mine(a as u64) {
                continue;
            }
            for bm in 0..64u32 {
                let src = format!(
                    "local a = {}, b = {}, k = function(p) p[0]; [std.setUnion(a, b, k), std.setInter(a, b, k), std.setDiff(a, b, k), std.setUnion([x[0] for x in a], [x[0] for x in b]), std.setInter([x[0] for x in a], [x[0] for x in b]), std.setDiff([x[0] for x in a], [x[0] for x in b])]",
                    set_src(*kind, a, 0, uni),
                    set_src(*kind, bm, 1, uni)
                );
                rep.evaluations += 1;
                rep.states += 1;
                rep.traces_validated += 1;
                rep.transitions += 6;
                let out = rt::run_on(&mut p, src.as_bytes(), &RunCfg::default()).outcome;
                let case = json!({"type":"sets","kind":format!("{kind:?}"),"a":a,"b":bm});
                let Outcome::Value(s) = &out else {
                    rep.violation(format!("C17/set-algebra/failure/{}", out.class()), format!("sets {a:06b} {bm:06b}: {}", out.short()), case);
                    continue;
                };
                let v: J = serde_json::from_str(s).unwrap();
                let keyidx = |x: &J| -> usize { uni_json.iter().position(|u| serde_json::from_str::<J>(u).map(|uv| uv == *x || (uv.is_number() && x.is_number() && uv.as_f64() == x.as_f64())).unwrap_or(false)).unwrap_or(99) };
                let pairs = |x: &J| -> Vec<(usize, u64)> { x.as_array().unwrap().iter().map(|q| (keyidx(&q[0]), q[1].as_u64().unwrap())).collect() };
                let plain = |x: &J| -> Vec<usize> { x.as_array().unwrap().iter().map(keyidx).collect() };
                let want_union: Vec<(usize, u64)> = (0..6).filter(|i| (a | bm) & (1 << i) != 0).map(|i| (i, if a & (1 << i) != 0 { 0 } else { 1 })).collect();
                let want_inter: Vec<(usize, u64)> = (0..6).filter(|i| (a & bm) & (1 << i) != 0).map(|i| (i, 0)).collect();
                let want_diff: Vec<(usize, u64)> = (0..6).filter(|i| (a & !bm) & (1 << i) != 0).map(|i| (i, 0)).collect();
                for (name, got, want) in [("setUnion", pairs(&v[0]), &want_union), ("setInter", pairs(&v[1]), &want_inter), ("setDiff", pairs(&v[2]), &want_diff)] {
                    if &got != want {
                        let keys_only = got.iter().map(|x| x.0).collect::<Vec<_>>() == want.iter().map(|x| x.0).collect::<Vec<_>>();
                        rep.violation(format!("C17/{name}/{}", if keys_only { "wrong-side-on-tie" } else { "wrong-keys" }), format!("{kind:?} sets a={a:06b} b={bm:06b} with keyF: got {got:?}, expected {want:?}"), case.clone());
                    }
                }
                for (name, got, want) in [("setUnion", plain(&v[3]), &want_union), ("setInter", plain(&v[4]), &want_inter), ("setDiff", plain(&v[5]), &want_diff)] {
                    if got != want.iter().map(|x| x.0).collect::<Vec<_>>() {
                        rep.violation(format!("C17/{name}/wrong-keys"), format!("{kind:?} sets a={a:06b} b={bm:06b}: got {got:?}, expected {want:?}"), case.clone());
                    }
                }
                rep.distinct(&((a & bm).count_ones(), (a | bm).count_ones(), a.count_ones()));
            }
        }
    }
    // setMember on sets of every size 1..64 (binary search end points)
    for n in 1..=64usize {
        if !sh.mine(n as u64) {
            continue;
        }
        let src = format!("local s = [2 * i for i in std.range(1, {n})]; [std.setMember(x, s) for x in std.range(0, 2 * {n} + 2)]");
        let out = rt::run_on(&mut p, src.as_bytes(), &RunCfg::default()).outcome;
        rep.evaluations += 1;
        let want: Vec<bool> = (0..=2 * n + 2).map(|x| x >= 2 && x % 2 == 0 && x <= 2 * n).collect();
        let got: Option<Vec<bool>> = match &out { Outcome::Value(s) => serde_json::from_str::<Vec<bool>>(s).ok(), _ => None };
        if got.as_ref() != Some(&want) {
            rep.violation("C17/setMember", format!("set of {n} even numbers: membership vector {}", out.short()), json!({"type":"eval","source":src}));
        }
    }
    rep
}

const LONG_PROBES: &[&str] = &[
    "std.length(std.sort(std.range(1, N)))",
    "std.length(std.sort(std.reverse(std.range(1, N)), function(x) -x))",
    "std.length(std.set([i % 7 for i in std.range(1, N)]))",
    "std.length(std.uniq(std.range(1, N)))",
    "std.length(std.filter(function(x) true, std.range(1, N)))",
    "std.length(std.filterMap(function(x) true, function(x) x, std.range(1, N)))",
    "std.length(std.map(function(x) x, std.range(1, N)))",
    "std.foldl(function(a, b) a + b, std.range(1, N), 0) > 0",
    "std.length(std.setUnion(std.range(1, N), std.range(2, N + 1)))",
    "std.length(std.setInter(std.range(1, N), std.range(2, N + 1)))",
    "std.length(std.setDiff(std.range(1, N), std.range(2, N + 1)))",
    "std.minArray(std.range(1, N)) + std.maxArray(std.range(1, N))",
    "std.setMember(N, std.range(1, N))",
    "std.length(std.sort([[i % 3, i] for i in std.range(1, N)], function(p) p[0]))",
];

pub fn run(ctx: &Ctx) -> i32 {
    let mut total = Report::new();
    let cfg = util::ForkCfg { threads: ctx.threads, mem_bytes: 4 << 30, case_timeout_s: 120, died_signature: "C17/abort".into(), resource_is_violation: false };
    let maxlen = if ctx.quick() { 6 } else { 8 };
    let r = util::par_forked(&cfg, 64, |sh| short_sweep(sh, maxlen));
    total.extra.insert("short_arrays".into(), json!(r.states));
    total.merge(r);
    let lengths: Vec<usize> = if ctx.quick() { (8..=36).chain([59, 60, 61, 62, 119, 120, 121, 122, 200]).collect() } else { (8..=200).chain([255, 256, 257, 300]).collect() };
    let pair_lengths: Vec<usize> = if ctx.quick() { vec![31, 32] } else { vec![30, 31, 32, 33, 34, 40, 61, 62, 121] };
    let r = util::par_forked(&cfg, lengths.len(), |sh| long_sweep(sh, &lengths, &pair_lengths));
    total.extra.insert("long_arrays".into(), json!(r.states));
    total.extra.insert("lengths".into(), json!(lengths));
    total.merge(r);
    let r = util::par_forked(&cfg, 64, |sh| set_algebra(sh));
    total.extra.insert("set_pairs".into(), json!(r.states));
    total.merge(r);
    // every length class under the default frame limit
    for n in [499usize, 500, 501, 1000, 5000] {
        for tmpl in LONG_PROBES {
            let src = tmpl.replace('N', &n.to_string());
            let out = rt::run_fresh(src.as_bytes(), &RunCfg::default()).outcome;
            total.evaluations += 1;
            if !out.is_value() {
                let sig = if matches!(out.eval_kind(), Some("StackOverflow")) { "C17/stack-overflow-by-length".to_string() } else { format!("C17/long-array/{}", out.class()) };
                total.violation(sig, format!("`{src}` under the default frame limit: {}", out.short()), json!({"type":"eval","source":src}));
            }
        }
    }
    util::finish(
        ctx,
        LevelInfo {
            level: "model_checking",
            rule: "all arrays of length <= 6/8 over 3 keys x 3 key kinds; for every length in the list and 7 base patterns the base, every single-element deviation and (at the merge thresholds) every pair of deviations; all 64x64 pairs of sets over a 6-key universe x 2 key kinds with and without keyF; setMember on sets of every size 1..64; 14 long-array probes at 499..5000 elements. Model = stable sort / uniq / set algebra on (key, id) pairs. distinct+nontrivial = distinct (length, #distinct keys, already sorted) / (length, pattern) / set-overlap classes".into(),
            assumptions: vec!["keys are drawn from 3-6 values per kind; other key values are not covered".into()],
        },
        total,
    )
}

pub fn replay(v: &serde_json::Value) -> i32 {
    let c = &v["case"];
    if c["type"] == "sort" {
        let keys: Vec<u8> = c["keys"].as_array().unwrap().iter().map(|x| x.as_u64().unwrap() as u8).collect();
        let kind = match c["kind"].as_str().unwrap_or("") { "Num" => KeyKind::Num, "Str" => KeyKind::Str, "Nested" => KeyKind::Nested, "ZeroMix" => KeyKind::ZeroMix, _ => KeyKind::Arr };
        let arena = Arena::new();
        let mut p = Program::new(&arena);
        let mut rep = Report::new();
        check_array(&mut p, kind, &keys, &mut rep, "replay");
        for v in &rep.violations {
            println!("{}: {}", v.signature, v.what);
        }
        return if rep.violations.is_empty() { 0 } else { 1 };
    }
    if let Some(src) = c["source"].as_str() {
        println!("{src} => {}", rt::run_fresh(src.as_bytes(), &RunCfg::default()).outcome.short());
    }
    1
}
