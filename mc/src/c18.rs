//! C18 — strings are sequences of Unicode code points in every string function.
//! ref_strings works on Vec<char> from the functions' defining identities; all strings up to
//! the length bound over an alphabet with 1-4 byte characters, all pattern pairs, and every
//! Unicode scalar value are evaluated by model and implementation.
use crate::rt::{self, Outcome, RunCfg};
use crate::syntax::escape_str;
use crate::util::{self, Ctx, LevelInfo, Report};
use rsjsonnet_lang::arena::Arena;
use rsjsonnet_lang::program::Program;
use serde_json::{Value as J, json};

const ALPHA: &[char] = &['a', 'b', 'é', '€', '😀', '\u{301}', ','];

type S = Vec<char>;
fn st(s: &S) -> String {
    s.iter().collect()
}
fn js(s: &S) -> J {
    J::String(st(s))
}

// ------------------------------------------------------------------ model

fn find_all(pat: &S, s: &S) -> Vec<usize> {
    if pat.is_empty() || s.is_empty() || pat.len() > s.len() {
        return vec![];
    }
    (0..=s.len() - pat.len()).filter(|&i| s[i..i + pat.len()] == pat[..]).collect()
}
fn split_limit(s: &S, sep: &S, limit: i64) -> Vec<S> {
    let mut out = Vec::new();
    let mut cur: S = Vec::new();
    let mut i = 0;
    let mut n = 0;
    while i < s.len() {
        if (limit < 0 || n < limit) && i + sep.len() <= s.len() && s[i..i + sep.len()] == sep[..] {
            out.push(std::mem::take(&mut cur));
            i += sep.len();
            n += 1;
        } else {
            cur.push(s[i]);
            i += 1;
        }
    }
    out.push(cur);
    out
}
fn rsplit_limit(s: &S, sep: &S, limit: i64) -> Vec<S> {
    let rs: S = s.iter().rev().copied().collect();
    let rsep: S = sep.iter().rev().copied().collect();
    let mut parts: Vec<S> = split_limit(&rs, &rsep, limit).into_iter().map(|p| p.into_iter().rev().collect()).collect();
    parts.reverse();
    parts
}
fn replace(s: &S, from: &S, to: &S) -> S {
    let mut out = Vec::new();
    let mut i = 0;
    while i < s.len() {
        if i + from.len() <= s.len() && s[i..i + from.len()] == from[..] {
            out.extend_from_slice(to);
            i += from.len();
        } else {
            out.push(s[i]);
            i += 1;
        }
    }
    out
}
fn lstrip(s: &S, set: &S) -> S {
    let k = s.iter().take_while(|c| set.contains(c)).count();
    s[k..].to_vec()
}
fn rstrip(s: &S, set: &S) -> S {
    let k = s.iter().rev().take_while(|c| set.contains(c)).count();
    s[..s.len() - k].to_vec()
}
fn slice(s: &S, a: Option<usize>, bb: Option<usize>, c: Option<usize>) -> S {
    let (start, end, step) = (a.unwrap_or(0), bb.unwrap_or(s.len()).min(s.len()), c.unwrap_or(1));
    let mut out = Vec::new();
    let mut i = start;
    while i < end {
        out.push(s[i]);
        i += step;
    }
    out
}
/// slices with negative bounds: a negative bound counts code points from the end (clamped at 0)
fn slice_signed(s: &S, a: Option<i64>, bb: Option<i64>, c: usize) -> S {
    let n = s.len() as i64;
    let fix = |x: i64| -> usize { if x < 0 { (n + x).max(0) as usize } else { x as usize } };
    slice(s, a.map(fix), bb.map(fix), Some(c))
}
const NEG_A: [i64; 6] = [-9, -3, -2, -1, 0, 1];
const NEG_B: [i64; 6] = [-9, -2, -1, 1, 2, 9];
fn pad(s: &S, width: usize, left_align: bool) -> S {
    if s.len() >= width {
        return s.clone();
    }
    let fill = vec![' '; width - s.len()];
    if left_align { [s.clone(), fill].concat() } else { [fill, s.clone()].concat() }
}

fn unary_src(s: &S) -> String {
    let q = escape_str(&st(s));
    format!(
        "local s = {q}; {{ len: std.length(s), chars: std.stringChars(s), idx: [s[i] for i in std.range(0, std.length(s) - 1)], \
         sl: [s[a:b:c] for a in [0, 1, 2] for b in [0, 1, 2, 3, 9] for c in [1, 2]], sl_open: [s[1:], s[:1], s[::2], s[:], s[2:], s[:2:1]], \
         sln: [s[a:b] for a in [-9, -3, -2, -1, 0, 1] for b in [-9, -2, -1, 1, 2, 9]] + [s[a:] for a in [-9, -3, -2, -1]] + [s[:b] for b in [-9, -3, -2, -1]] + [s[-3::2], std.slice(s, -2, -1, 1), std.slice(s, -3, null, null)], \
         slarr: std.all([s[a:b:c] == std.join(\"\", std.stringChars(s)[a:b:c]) for a in [-3, -1, 0, 1] for b in [-2, -1, 2, 9] for c in [1, 2]]), \
         substr: [std.substr(s, f, l) for f in [0, 1, 2, 5] for l in [0, 1, 2, 9]], rev: std.reverse(s), \
         up: std.asciiUpper(s), low: std.asciiLower(s), map: std.map(function(c) c + \"x\", s), flat: std.flatMap(function(c) c + c, s), \
         mwi: std.mapWithIndex(function(i, c) [i, c], s), rep: [std.repeat(s, n) for n in [0, 1, 2]], join: std.join(s, [\"p\", \"q\", \"r\"]), \
         w: [\"%5s|\" % s, \"%-5s|\" % s, \"%2s|\" % s, \"%0s|\" % s, \"%*s|\" % [4, s]], \
         wm: [\"%(k)5s|\" % {{k: s}}, \"%(k)-5s|\" % {{k: s}}, \"%(k)2s|\" % {{k: s}}, std.format(\"%(k)4s|\", {{k: s}})], \
         trim: std.trim(\" \" + s + \"\\t \"), cat: std.length(s + s), cmp: [s < s + \"a\", s == s, s + \"b\" > s + \"a\"], \
         cp: [std.codepoint(c) for c in std.stringChars(s)], back: std.join(\"\", [std.char(std.codepoint(c)) for c in std.stringChars(s)]) }}"
    )
}

fn unary_model(s: &S) -> J {
    let chars: Vec<J> = s.iter().map(|c| J::String(c.to_string())).collect();
    let mut sl = Vec::new();
    for a in [0usize, 1, 2] {
        for bb in [0usize, 1, 2, 3, 9] {
            for c in [1usize, 2] {
                sl.push(js(&slice(s, Some(a), Some(bb), Some(c))));
            }
        }
    }
    let sl_open = vec![js(&slice(s, Some(1), None, None)), js(&slice(s, None, Some(1), None)), js(&slice(s, None, None, Some(2))), js(s), js(&slice(s, Some(2), None, None)), js(&slice(s, None, Some(2), Some(1)))];
    let mut substr = Vec::new();
    for f in [0usize, 1, 2, 5] {
        for l in [0usize, 1, 2, 9] {
            let from = f.min(s.len());
            let to = (f + l).min(s.len());
            substr.push(js(&s[from..to.max(from)].to_vec()));
        }
    }
    let up: S = s.iter().map(|c| c.to_ascii_uppercase()).collect();
    let low: S = s.iter().map(|c| c.to_ascii_lowercase()).collect();
    let joined: S = { let mut v: S = vec!['p']; v.extend(s); v.push('q'); v.extend(s); v.push('r'); v };
    let w = |x: S| { let mut x = x; x.push('|'); js(&x) };
    let sln: Vec<J> = {
            let mut v = Vec::new();
            for a in NEG_A {
                for bb in NEG_B {
                    v.push(js(&slice_signed(s, Some(a), Some(bb), 1)));
                }
            }
            for a in [-9i64, -3, -2, -1] {
                v.push(js(&slice_signed(s, Some(a), None, 1)));
            }
            for bb in [-9i64, -3, -2, -1] {
                v.push(js(&slice_signed(s, None, Some(bb), 1)));
            }
            v.push(js(&slice_signed(s, Some(-3), None, 2)));
            v.push(js(&slice_signed(s, Some(-2), Some(-1), 1)));
            v.push(js(&slice_signed(s, Some(-3), None, 1)));
            v
        };
    json!({
        "len": s.len(),
        "chars": chars,
        "idx": chars,
        "sl": sl,
        "sl_open": sl_open,
        "sln": sln,
        "slarr": true,
        "substr": substr,
        "rev": s.iter().rev().map(|c| J::String(c.to_string())).collect::<Vec<_>>(),
        "up": js(&up),
        "low": js(&low),
        "map": s.iter().map(|c| J::String(format!("{c}x"))).collect::<Vec<_>>(),
        "flat": J::String(s.iter().map(|c| format!("{c}{c}")).collect::<String>()),
        "mwi": s.iter().enumerate().map(|(i, c)| json!([i, c.to_string()])).collect::<Vec<_>>(),
        "rep": [js(&vec![]), js(s), js(&[s.clone(), s.clone()].concat())],
        "join": js(&joined),
        "w": [w(pad(s, 5, false)), w(pad(s, 5, true)), w(pad(s, 2, false)), w(s.clone()), w(pad(s, 4, false))],
        "wm": [w(pad(s, 5, false)), w(pad(s, 5, true)), w(pad(s, 2, false)), w(pad(s, 4, false))],
        "trim": js(s),
        "cat": s.len() * 2,
        "cmp": [true, true, true],
        "cp": s.iter().map(|c| *c as u32).collect::<Vec<_>>(),
        "back": js(s),
    })
}

fn binary_src(s: &S, p: &S) -> String {
    let (qs, qp) = (escape_str(&st(s)), escape_str(&st(p)));
    format!(
        "local s = {qs}, p = {qp}; {{ find: std.findSubstr(p, s), split: std.split(s, p), sl: [std.splitLimit(s, p, n) for n in [0, 1, 2, 3, 1e10, 18446744073709551616, 1e300, -1]], \
         slr: [std.splitLimitR(s, p, n) for n in [0, 1, 2, 3, 1e10, 18446744073709551616, 1e300, -1]], rejoin: std.join(p, std.split(s, p)) == s, rep: [std.strReplace(s, p, \"Z\"), std.strReplace(s, p, \"\"), std.strReplace(s, p, p + p)], \
         sw: std.startsWith(s, p), ew: std.endsWith(s, p), strip: [std.lstripChars(s, p), std.rstripChars(s, p), std.stripChars(s, p)], \
         eic: std.equalsIgnoreCase(s, p), mem: std.member(s, p[0]), cmp: [s < p, s == p, s > p] }}"
    )
}

fn binary_model(s: &S, p: &S) -> J {
    let parts = |v: Vec<S>| J::Array(v.iter().map(js).collect());
    json!({
        "find": find_all(p, s),
        "split": parts(split_limit(s, p, -1)),
        // limits: 0, 1, 2, 3, three huge ones (all separators), -1 (unlimited; splitLimitR then
        // splits from the left like splitLimit, as upstream defines it)
        "sl": [parts(split_limit(s, p, 0)), parts(split_limit(s, p, 1)), parts(split_limit(s, p, 2)), parts(split_limit(s, p, 3)), parts(split_limit(s, p, i64::MAX)), parts(split_limit(s, p, i64::MAX)), parts(split_limit(s, p, i64::MAX)), parts(split_limit(s, p, -1))],
        "slr": [parts(rsplit_limit(s, p, 0)), parts(rsplit_limit(s, p, 1)), parts(rsplit_limit(s, p, 2)), parts(rsplit_limit(s, p, 3)), parts(rsplit_limit(s, p, i64::MAX)), parts(rsplit_limit(s, p, i64::MAX)), parts(rsplit_limit(s, p, i64::MAX)), parts(split_limit(s, p, -1))],
        "rejoin": true,
        "rep": [js(&replace(s, p, &vec!['Z'])), js(&replace(s, p, &vec![])), js(&replace(s, p, &[p.clone(), p.clone()].concat()))],
        "sw": s.len() >= p.len() && s[..p.len()] == p[..],
        "ew": s.len() >= p.len() && s[s.len() - p.len()..] == p[..],
        "strip": [js(&lstrip(s, p)), js(&rstrip(s, p)), js(&rstrip(&lstrip(s, p), p))],
        "eic": s.iter().map(|c| c.to_ascii_lowercase()).eq(p.iter().map(|c| c.to_ascii_lowercase())),
        "mem": s.contains(&p[0]),
        "cmp": [s < p, s == p, s > p],
    })
}

fn diff(model: &J, got: &J, path: &str) -> Option<String> {
    match (model, got) {
        (J::Object(a), J::Object(b)) => {
            for (k, v) in a {
                if let Some(d) = diff(v, b.get(k).unwrap_or(&J::Null), &format!("{path}.{k}")) {
                    return Some(d);
                }
            }
            None
        }
        (J::Number(a), J::Number(b)) if a.as_f64() == b.as_f64() => None,
        (a, b) if a == b => None,
        (a, b) => Some(format!("{path}: implementation {b}, model {a}")),
    }
}

fn compare<'p>(p: &mut Program<'p>, src: &str, model: &J, rep: &mut Report, case: J, what: &str) {
    rep.evaluations += 1;
    rep.traces_validated += 1;
    rep.transitions += 1;
    let r = util::catch(|| rt::run_on(p, src.as_bytes(), &RunCfg::default()));
    match r {
        Err(m) => rep.violation(format!("C18/panic/{}", util::panic_site(&m)), format!("{what}: {m}"), case),
        Ok(r) => match &r.outcome {
            Outcome::Value(s) => {
                let got: J = serde_json::from_str(s).unwrap_or(J::Null);
                rep.outcome(if model.get("find").is_some() { "binary-functions" } else { "unary-functions" });
                if let Some(d) = diff(model, &got, "") {
                    let field = d.split(':').next().unwrap_or("").trim_start_matches('.').split(['.', '[']).next().unwrap_or("").to_string();
                    let sig = if field == "w" || field == "wm" { "C18/format-width-counts-bytes".to_string() } else { format!("C18/{field}") };
                    rep.violation(sig, format!("{what}: {d}"), case);
                }
            }
            o => rep.violation(format!("C18/unexpected-failure/{}", o.class()), format!("{what}: {}", o.short()), case),
        },
    }
}

fn strings(maxlen: usize) -> Vec<S> {
    let mut v = vec![];
    for len in 0..=maxlen {
        util::for_each_seq(ALPHA.len(), len, |seq| v.push(seq.iter().map(|&i| ALPHA[i]).collect()));
    }
    v
}

fn sweep(strs: &[S], pats: &[S], sh: &util::Shard) -> Report {
    let mut rep = Report::new();
    let arena = Arena::new();
    let mut p = Program::new(&arena);
    for (i, s) in strs.iter().enumerate() {
        if !sh.mine(i as u64) {
            continue;
        }
        rep.states += 1;
        compare(&mut p, &unary_src(s), &unary_model(s), &mut rep, json!({"type":"string","s":st(s)}), &format!("string {:?}", st(s)));
        for pat in pats {
            compare(&mut p, &binary_src(s, pat), &binary_model(s, pat), &mut rep, json!({"type":"string-pair","s":st(s),"p":st(pat)}), &format!("string {:?} pattern {:?}", st(s), st(pat)));
            rep.distinct(&(s.len(), pat.len(), find_all(pat, s).len()));
        }
        if i % 97 == 0 {
            rep.sample(json!({"string": st(s), "patterns": pats.len()}));
        }
    }
    rep
}

fn char_src(c: char) -> String {
    escape_str(&c.to_string())
}

fn scalar_sweep(sh: &util::Shard, step: u32) -> Report {
    let mut rep = Report::new();
    let arena = Arena::new();
    let mut p = Program::new(&arena);
    let mut cp = sh.index as u32 * step;
    let stride = sh.n as u32 * step;
    let mut batch: Vec<char> = Vec::new();
    let mut flush = |batch: &mut Vec<char>, rep: &mut Report, p: &mut Program<'_>| {
        if batch.is_empty() {
            return;
        }
        // one evaluation for a batch of characters
        let items: Vec<String> = batch.iter().map(|c| char_src(*c)).collect();
        let src = format!(
            "[ [std.length(s), std.codepoint(s), std.char(std.codepoint(s)) == s, std.length(std.stringChars(s)), std.length(s + s), (s + \"a\")[1], (\"a\" + s + \"b\")[1:2] == s, std.substr(\"a\" + s + \"b\", 1, 1) == s, std.length(\"%3s\" % s), std.findSubstr(s, \"x\" + s + s), std.length(std.split(\"a\" + s + \"b\", s)), std.strReplace(s + \"-\" + s, s, \"é\"), std.length(std.reverse(s + s)), std.length(std.asciiUpper(s)), std.length(\"%c\" % std.codepoint(s)), std.length(std.lstripChars(s + \"a\", s)), std.length(std.encodeUTF8(s))] for s in [{}] ]",
            items.join(", ")
        );
        rep.evaluations += 1;
        let r = util::catch(|| rt::run_on(p, src.as_bytes(), &RunCfg::default()));
        let out = match r { Ok(r) => r.outcome, Err(m) => Outcome::Panic(m) };
        match &out {
            Outcome::Value(s) => {
                let v: J = serde_json::from_str(s).unwrap();
                for (k, c) in batch.iter().enumerate() {
                    rep.states += 1;
                    rep.transitions += 1;
                    rep.traces_validated += 1;
                    let dashed: S = vec![*c, '-', *c];
                    let replaced = st(&replace(&dashed, &vec![*c], &vec!['é']));
                    let xss: S = vec!['x', *c, *c];
                    let found = find_all(&vec![*c], &xss);
                    let asb: S = vec!['a', *c, 'b'];
                    let nsplit = split_limit(&asb, &vec![*c], -1).len();
                    let sa: S = vec![*c, 'a'];
                    let stripped = lstrip(&sa, &vec![*c]).len();
                    let want = json!([1, *c as u32, true, 1, 2, "a", true, true, 3, found, nsplit, replaced, 2, 1, 1, stripped, c.len_utf8()]);
                    if let Some(d) = diff(&want, &v[k], "") {
                        rep.violation("C18/scalar", format!("character U+{:04X}: {d}", *c as u32), json!({"type":"scalar","cp": *c as u32}));
                    }
                }
            }
            o => rep.violation(format!("C18/scalar/{}", o.class()), format!("batch starting at U+{:04X}: {}", batch[0] as u32, o.short()), json!({"type":"scalar","cp": batch[0] as u32})),
        }
        batch.clear();
    };
    while cp <= 0x10FFFF {
        for k in 0..step {
            if let Some(c) = char::from_u32(cp + k) {
                batch.push(c);
            }
        }
        if batch.len() >= 64 {
            flush(&mut batch, &mut rep, &mut p);
        }
        cp += stride;
    }
    flush(&mut batch, &mut rep, &mut p);
    rep
}

fn radix_cases(rep: &mut Report) {
    // a multi-byte character at every byte position of a long digit string
    for (func, digit) in [("parseHex", "f"), ("parseOctal", "7"), ("parseInt", "9")] {
        for pos in 0..=45usize {
            for ch in ["é", "€", "😀"] {
                let s = format!("{}{}{}", digit.repeat(pos), ch, digit.repeat(3));
                let src = format!("std.{func}({})", escape_str(&s));
                let o = rt::run_fresh(src.as_bytes(), &RunCfg::default()).outcome;
                rep.evaluations += 1;
                rep.states += 1;
                if !o.is_fail() {
                    let sig = if o.is_panic() { "C18/panic/parse_num_radix".to_string() } else { format!("C18/radix/{}", o.class()) };
                    rep.violation(sig, format!("`{src}`: {}", o.short()), json!({"type":"eval","source":src}));
                }
            }
        }
    }
    // numeric-argument errors
    for src in ["std.substr(\"abc\", -1, 1)", "std.substr(\"abc\", 0, -1)", "\"abc\"[3]", "\"abc\"[-1]", "\"abc\"[0.5]", "std.char(-1)", "std.char(1114112)", "std.char(55296)", "std.codepoint(\"\")", "std.codepoint(\"ab\")", "std.split(\"abc\", \"\")", "std.repeat(\"a\", -1)"] {
        let o = rt::run_fresh(src.as_bytes(), &RunCfg::default()).outcome;
        rep.evaluations += 1;
        if !o.is_fail() {
            rep.violation("C18/bad-argument-accepted", format!("`{src}`: {}", o.short()), json!({"type":"eval","source":src}));
        }
    }
}

pub fn run(ctx: &Ctx) -> i32 {
    let mut total = Report::new();
    let cfg = util::ForkCfg { threads: ctx.threads, mem_bytes: 4 << 30, case_timeout_s: 120, died_signature: "C18/abort".into(), resource_is_violation: false };
    let strs = strings(if ctx.quick() { 3 } else { 4 });
    let mut pats = strings(2);
    pats.remove(0); // patterns/separators are non-empty
    pats.push("aa".chars().collect());
    pats.push(vec!['a', 'b', 'a']);
    let mut extra: Vec<S> = ["aaaa", "ababab", "aXbXc", "éééé", "a,b,,c", ",,", "AbC", "aB", "😀😀a😀"].iter().map(|s| s.chars().collect()).collect();
    let mut all = strs.clone();
    all.append(&mut extra);
    let r = util::par_forked(&cfg, 128, |sh| sweep(&all, &pats, sh));
    total.extra.insert("strings".into(), json!(all.len()));
    total.extra.insert("patterns".into(), json!(pats.len()));
    total.merge(r);
    // overlap structure: every subject of length <= 8 (10 thorough) over {a, b} x every pattern of
    // length 1..=5 over {a, b} (period / border structure of the pattern decides where matches
    // may overlap), plus the same shapes over {é, 😀}
    {
        let over = |cs: [char; 2], maxlen: usize| -> Vec<S> {
            let mut v = vec![];
            for len in 1..=maxlen {
                util::for_each_seq(2, len, |seq| v.push(seq.iter().map(|&i| cs[i]).collect()));
            }
            v
        };
        let sl = if ctx.quick() { 8 } else { 10 };
        let subj = over(['a', 'b'], sl);
        let pats2 = over(['a', 'b'], 5);
        let subj_u = over(['é', '😀'], 6);
        let pats_u = over(['é', '😀'], 4);
        let bin = |strs: &[S], pats: &[S], sh: &util::Shard| {
            let mut rep = Report::new();
            let arena = Arena::new();
            let mut p = Program::new(&arena);
            for (i, s) in strs.iter().enumerate() {
                if !sh.mine(i as u64) {
                    continue;
                }
                rep.states += 1;
                for pat in pats {
                    compare(&mut p, &binary_src(s, pat), &binary_model(s, pat), &mut rep, json!({"type":"string-pair","s":st(s),"p":st(pat)}), &format!("string {:?} pattern {:?}", st(s), st(pat)));
                    rep.distinct(&(s.len(), pat.len(), find_all(pat, s).len()));
                }
            }
            rep
        };
        let r = util::par_forked(&cfg, 128, |sh| bin(&subj, &pats2, sh));
        total.extra.insert("overlap_subjects_x_patterns".into(), json!(subj.len() * pats2.len() + subj_u.len() * pats_u.len()));
        total.merge(r);
        let r = util::par_forked(&cfg, 64, |sh| bin(&subj_u, &pats_u, sh));
        total.merge(r);
    }
    let step = if ctx.quick() { 1 } else { 1 };
    let r = util::par_forked(&cfg, 256, |sh| scalar_sweep(sh, step));
    total.extra.insert("scalar_values".into(), json!(r.states));
    total.merge(r);
    radix_cases(&mut total);
    util::finish(
        ctx,
        LevelInfo {
            level: "model_checking",
            rule: "all strings of length <= 3/4 over {a, b, é, €, 😀, U+0301, ','} plus overlap-prone extras x all non-empty patterns of length <= 2 (+ aa, aba): every unary and binary string function against ref_strings on Vec<char>; every Unicode scalar value through 17 code-point-sensitive observations; a multi-byte character at every byte position 0..45 of parseHex/parseOctal/parseInt inputs; bad numeric arguments. distinct+nontrivial = distinct (string length, pattern length, #matches)".into(),
            assumptions: vec!["with a self-overlapping separator and no limit, splitLimitR is compared only through its limit 0..2 variants".into()],
        },
        total,
    )
}

pub fn replay(v: &serde_json::Value) -> i32 {
    let c = &v["case"];
    let arena = Arena::new();
    let mut p = Program::new(&arena);
    let mut rep = Report::new();
    match c["type"].as_str().unwrap_or("") {
        "string" => {
            let s: S = c["s"].as_str().unwrap().chars().collect();
            compare(&mut p, &unary_src(&s), &unary_model(&s), &mut rep, c.clone(), "replay");
        }
        "string-pair" => {
            let s: S = c["s"].as_str().unwrap().chars().collect();
            let pt: S = c["p"].as_str().unwrap().chars().collect();
            compare(&mut p, &binary_src(&s, &pt), &binary_model(&s, &pt), &mut rep, c.clone(), "replay");
        }
        _ => {
            if let Some(src) = c["source"].as_str() {
                println!("{src} => {}", rt::run_fresh(src.as_bytes(), &RunCfg::default()).outcome.short());
            }
            return 1;
        }
    }
    for v in &rep.violations {
        println!("{}: {}", v.signature, v.what);
    }
    if rep.violations.is_empty() { 0 } else { 1 }
}
