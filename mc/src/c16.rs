//! C16 — diagnostics always locate inside the source and always render.
//! (A) exhaustive enumeration over SpanManager layouts (ids round-trip); (B) every failing case
//! of the program / token / byte corpora: all spans inside the source, report rendered through
//! Session (hook H3) plain and coloured; (C) every max_trace value for traces of every length.
use crate::c09;
use crate::c14;
use crate::corpus;
use crate::rt::{self, Outcome, RunCfg};
use crate::syntax;
use crate::util::{self, Ctx, LevelInfo, Report};
use rsjsonnet_front::Session;
use rsjsonnet_lang::arena::Arena;
use rsjsonnet_lang::program::{EvalError, LoadError, Program};
use rsjsonnet_lang::span::SpanManager;
use serde_json::json;

// ------------------------------------------------------------------ (A) span ids

fn span_layouts(quick: bool) -> Vec<usize> {
    let mut v: Vec<usize> = vec![0, 1, 2, (1 << 25) - 1, 1 << 25, (1 << 25) + 1, (1 << 38) - 3, (1 << 38) - 2, (1 << 38) - 1, 1 << 38, (1 << 38) + 1, 1 << 40];
    if !quick {
        v.extend([3, 1000, (1 << 24), (1 << 26), (1 << 37), (1 << 39), (1 << 38) - 4]);
    }
    v
}

fn span_roundtrip(lens: &[usize], order: &[usize], rep: &mut Report) {
    let mut m = SpanManager::new();
    let ctxs: Vec<_> = order.iter().map(|&i| m.insert_source_context(lens[i]).0).collect();
    let mut regs = Vec::new();
    for (ci, &ctx) in ctxs.iter().enumerate() {
        let l = lens[order[ci]];
        let mut pts = vec![0usize, 1, 2, (1 << 25) - 2, (1 << 25) - 1, 1 << 25, (1 << 25) + 1];
        for d in 0..3 {
            if l >= d {
                pts.push(l - d);
            }
        }
        pts.retain(|&p| p <= l);
        pts.sort();
        pts.dedup();
        for &s in &pts {
            for &e in &pts {
                if s <= e {
                    let id = m.intern_span(ctx, s, e);
                    regs.push((id, ctx, s, e));
                }
            }
        }
    }
    rep.states += 1;
    for (id, ctx, s, e) in regs.iter() {
        rep.evaluations += 1;
        rep.transitions += 1;
        rep.traces_validated += 1;
        let got = m.get_span(*id);
        if got != (*ctx, *s, *e) {
            rep.violation(
                "C16/span-roundtrip",
                format!("context lengths {:?}: registered ({ctx:?},{s},{e}) but get_span returns {got:?}", order.iter().map(|&i| lens[i]).collect::<Vec<_>>()),
                json!({"type":"span","lens": order.iter().map(|&i| lens[i]).collect::<Vec<_>>(), "start": s, "end": e}),
            );
            return;
        }
        let id2 = m.intern_span(*ctx, *s, *e);
        if id2 != *id {
            rep.violation(
                "C16/span-id-unstable",
                format!("context lengths {:?}: registering ({s},{e}) twice gives different ids", order.iter().map(|&i| lens[i]).collect::<Vec<_>>()),
                json!({"type":"span","lens": order.iter().map(|&i| lens[i]).collect::<Vec<_>>(), "start": s, "end": e}),
            );
            return;
        }
    }
    // distinct ids for distinct triples
    let mut seen = std::collections::HashMap::new();
    for (id, ctx, s, e) in regs.iter() {
        if let Some(prev) = seen.insert(*id, (*ctx, *s, *e)) {
            if prev != (*ctx, *s, *e) {
                rep.violation(
                    "C16/span-id-collision",
                    format!("two different spans {prev:?} and ({ctx:?},{s},{e}) share one id"),
                    json!({"type":"span","lens": order.iter().map(|&i| lens[i]).collect::<Vec<_>>(), "start": s, "end": e}),
                );
                return;
            }
        }
    }
    rep.outcome(if regs.iter().any(|r| format!("{:?}", r.0).starts_with("Interned")) { "layout-with-interned-ids" } else { "layout-inline-only" });
}

// ------------------------------------------------------------------ (B) rendering

pub struct Rendered {
    pub parts: Vec<(String, &'static str, bool)>,
}

impl Rendered {
    pub fn text(&self) -> String {
        self.parts.iter().map(|p| p.0.as_str()).collect()
    }
    pub fn paths(&self) -> Vec<String> {
        self.parts.iter().filter(|p| p.1 == "Path").map(|p| p.0.clone()).collect()
    }
}

/// Loads / evaluates / manifests `src` through a Session, capturing the diagnostics.
/// Returns (manifested ok?, captured report).
pub fn render_via_session(src: &[u8], colored: bool, max_trace: Option<usize>, max_stack: Option<usize>) -> (bool, Rendered) {
    let arena = Arena::new();
    let mut s = Session::new(&arena);
    s.set_colored_output(colored);
    if let Some(t) = max_trace {
        s.set_max_trace(t);
    }
    if let Some(ms) = max_stack {
        s.program_mut().set_max_stack(ms);
    }
    rsjsonnet_front::verif::start_capture();
    let ok = (|| {
        let t = s.load_virt_file("t.jsonnet", src.to_vec())?;
        let v = s.eval_value(&t)?;
        s.manifest_json(&v, false)
    })()
    .is_some();
    let parts = rsjsonnet_front::verif::take_capture();
    (ok, Rendered { parts })
}

/// (line, column) candidates, 1-based, for a byte offset: line by LF count; the column is exact
/// only when the line prefix is printable ASCII.
fn ref_line_col(src: &[u8], pos: usize) -> (usize, Option<usize>) {
    let before = &src[..pos.min(src.len())];
    let line = before.iter().filter(|&&b| b == b'\n').count() + 1;
    let line_start = before.iter().rposition(|&b| b == b'\n').map(|p| p + 1).unwrap_or(0);
    let prefix = &before[line_start..];
    let col = if prefix.iter().all(|&b| (0x20..0x7F).contains(&b)) { Some(prefix.len() + 1) } else { None };
    (line, col)
}

fn all_error_spans(p: &Program<'_>, load: Option<&LoadError>, eval: Option<&EvalError>) -> Vec<(usize, usize)> {
    let mut v = Vec::new();
    let mgr = p.span_manager();
    if let Some(e) = load {
        for sp in rt::load_error_spans(e) {
            let (_, s, en) = mgr.get_span(sp);
            v.push((s, en));
        }
    }
    if let Some(e) = eval {
        for sp in rt::eval_error_spans(e) {
            let (_, s, en) = mgr.get_span(sp);
            v.push((s, en));
        }
    }
    v
}

/// (line, column) named by the first `-->` header of a rendered report and (line, column) of the
/// first single-line `^` annotation below it — the rendering's own statement of where the
/// primary span starts. None when there is no single-line caret annotation in the first block.
pub fn header_and_caret(text: &str) -> Option<((usize, usize), (usize, usize))> {
    let lines: Vec<&str> = text.lines().collect();
    let h = lines.iter().position(|l| l.trim_start().starts_with("--> "))?;
    let loc = lines[h].trim_start().trim_start_matches("--> ");
    let mut it = loc.rsplitn(3, ':');
    let c: usize = it.next()?.trim().parse().ok()?;
    let l: usize = it.next()?.trim().parse().ok()?;
    let mut cur: Option<usize> = None;
    for line in &lines[h + 1..] {
        if line.starts_with("note") || line.starts_with("error") || line.trim_start().starts_with("--> ") {
            break;
        }
        let Some(bar) = line.find('|') else { continue };
        let gutter = line[..bar].trim();
        let rest = &line[bar + 1..];
        if let Ok(n) = gutter.parse::<usize>() {
            if rest.starts_with(" /") || rest.starts_with(" |") {
                return None; // multi-line span layout
            }
            cur = Some(n);
            continue;
        }
        if !gutter.is_empty() {
            continue;
        }
        let body = rest.strip_prefix(' ').unwrap_or(rest);
        if let Some(pos) = body.find('^') {
            // markers of other labels (`-`, `|`) may precede it on the same row; `_` and `/`
            // belong to multi-line spans
            if body[..pos].chars().all(|ch| matches!(ch, ' ' | '-' | '|')) {
                return Some(((l, c), (cur?, body[..pos].chars().count() + 1)));
            }
            return None;
        }
        if body.contains('_') || body.contains('/') {
            return None;
        }
    }
    None
}

pub fn check_source(src: &[u8], rep: &mut Report, what: &str) {
    rep.evaluations += 1;
    rep.traces_validated += 1;
    rep.transitions += 1;
    let case = || json!({"type":"render","bytes": src, "source": String::from_utf8_lossy(src)});
    // 1. the structured error and its spans (library level)
    let lib = util::catch(|| {
        let arena = Arena::new();
        let mut p = Program::new(&arena);
        p.set_max_stack(60);
        let (ctx, t) = rt::load(&mut p, src);
        let mut issues = Vec::new();
        let mut spans = Vec::new();
        let mut primary: Option<(usize, usize)> = None;
        let mut trace_len = 0;
        let outcome;
        match t {
            Err(e) => {
                rt::load_error_span_check(p.span_manager(), &e, ctx, src.len(), &mut issues);
                spans = all_error_spans(&p, Some(&e), None);
                // errors with two labels (repeated names) have no single primary span
                primary = if spans.len() == 1 { spans.first().copied() } else { None };
                outcome = rt::load_error_outcome(&e);
            }
            Ok(t) => {
                let mut cb = rt::Cb::default();
                let r = p.eval_value(&t, &mut cb).and_then(|v| p.manifest_json(&v, false));
                match r {
                    Ok(s) => outcome = Outcome::Value(s),
                    Err(e) => {
                        let std_len = p.get_stdlib_source().1.len();
                        let kind_spans = {
                            let only_kind = EvalError { stack_trace: vec![], kind: e.kind.clone() };
                            rt::eval_error_spans(&only_kind)
                        };
                        for sp in rt::eval_error_spans(&e) {
                            let (c, s, en) = p.span_manager().get_span(sp);
                            let limit = if c == ctx { src.len() } else { std_len };
                            if !(s <= en && en <= limit) {
                                issues.push(format!("span {s}..{en} outside its source (length {limit})"));
                            }
                            if c == ctx {
                                spans.push((s, en));
                            }
                        }
                        if let Some(sp) = kind_spans.first() {
                            let (c, s, en) = p.span_manager().get_span(*sp);
                            if c == ctx {
                                primary = Some((s, en));
                            }
                        }
                        trace_len = e.stack_trace.len();
                        outcome = rt::eval_error_outcome(&e);
                    }
                }
            }
        }
        (outcome, issues, spans, primary, trace_len)
    });
    let (outcome, issues, spans, primary, trace_len) = match lib {
        Ok(x) => x,
        Err(m) => {
            rep.violation(format!("C16/panic/{}", util::panic_site(&m)), format!("{what} {:?}: {m}", String::from_utf8_lossy(src)), case());
            return;
        }
    };
    rep.outcome(&outcome.class());
    if let Some(i) = issues.first() {
        rep.violation("C16/span-outside-source", format!("{what} {:?}: {i}", String::from_utf8_lossy(src)), case());
    }
    if outcome.is_value() {
        return;
    }
    rep.distinct(&(outcome.class(), primary.map(|p| ref_line_col(src, p.0).0.min(3)), primary.map(|p| p.0 == 0), primary.map(|p| p.1 == src.len())));
    // 2. rendering, plain and coloured
    let mut texts = Vec::new();
    for colored in [false, true] {
        let r = util::catch(|| render_via_session(src, colored, None, Some(60)));
        match r {
            Err(m) => {
                rep.violation(format!("C16/render-panic/{}", util::panic_site(&m)), format!("{what} {:?}: rendering ({}) panicked: {m}", String::from_utf8_lossy(src), if colored { "coloured" } else { "plain" }), case());
                return;
            }
            Ok((ok, rendered)) => {
                rep.transitions += 1;
                if ok {
                    rep.violation("C16/session-disagrees", format!("{what}: Session succeeds where Program fails"), case());
                    return;
                }
                let text = rendered.text();
                let has_error_header = rendered.parts.windows(2).any(|w| w[0].1 == "ErrorLabel" && w[0].0 == "error" && w[1].0 == ": ");
                if !has_error_header || text.trim().len() < 8 {
                    rep.violation("C16/empty-report", format!("{what} {:?}: rendered report is {:?}", String::from_utf8_lossy(src), util::truncate(&text, 200)), case());
                    return;
                }
                if rendered.parts.iter().any(|p| p.2 != colored) {
                    rep.violation("C16/colour-mode", format!("{what}: parts rendered in the wrong colour mode"), case());
                }
                // every location named must be the start of a span of the error
                let hdr0 = rendered.parts.windows(2).position(|w| w[0].1 == "ErrorLabel" && w[0].0 == "error" && w[1].0 == ": ").unwrap_or(0);
                let paths: Vec<String> = rendered.parts[hdr0..].iter().filter(|p| p.1 == "Path").map(|p| p.0.clone()).collect();
                for (k, path) in paths.iter().enumerate() {
                    let Some(rest) = path.strip_prefix("t.jsonnet:") else {
                        if path.starts_with("<stdlib>") || path.contains("std") {
                            continue;
                        }
                        rep.violation("C16/wrong-file", format!("{what}: report names {path}"), case());
                        continue;
                    };
                    let mut it = rest.split(':');
                    let (l, c): (usize, usize) = (it.next().and_then(|x| x.parse().ok()).unwrap_or(0), it.next().and_then(|x| x.parse().ok()).unwrap_or(0));
                    let matches_span = |sp: &(usize, usize)| {
                        let (rl, rc) = ref_line_col(src, sp.0);
                        rl == l && rc.is_none_or(|rc| rc == c) && c >= 1
                    };
                    let ok = if k == 0 && primary.is_some() { matches_span(&primary.unwrap()) } else { spans.iter().any(matches_span) };
                    if !ok {
                        rep.violation(
                            "C16/wrong-line-or-column",
                            format!("{what} {:?}: report names {path}, error spans start at {:?} (primary {:?})", String::from_utf8_lossy(src), spans.iter().map(|s| ref_line_col(src, s.0)).collect::<Vec<_>>(), primary.map(|p| ref_line_col(src, p.0))),
                            case(),
                        );
                    }
                }
                // the header names the position of the `^` (primary) annotation, not of a `-` one
                if !colored {
                    if let Some(((hl, hc), (cl, cc))) = header_and_caret(&text) {
                        rep.count("header_vs_caret_compared", 1);
                        let line_text = String::from_utf8_lossy(src).lines().nth(cl.saturating_sub(1)).map(|x| x.to_string()).unwrap_or_default();
                        let plain_prefix = line_text.chars().take(cc.max(hc)).all(|ch| ch.is_ascii() && !ch.is_ascii_control());
                        if hl != cl || (plain_prefix && hc != cc) {
                            rep.violation(
                                "C16/header-does-not-name-the-primary-span",
                                format!("{what} {:?}: header names {hl}:{hc}, the `^` annotation is at {cl}:{cc}", String::from_utf8_lossy(src)),
                                case(),
                            );
                        }
                    }
                }
                if primary.is_some() && paths.is_empty() {
                    rep.violation("C16/no-location", format!("{what}: the error has a primary span but the report names no location"), case());
                }
                // rendered trace items
                // (std.trace output printed before the error carries its own stack notes: count after the header)
                let hdr = rendered.parts.windows(2).position(|w| w[0].1 == "ErrorLabel" && w[0].0 == "error" && w[1].0 == ": ").unwrap_or(0);
                let notes = rendered.parts[hdr..].windows(3).filter(|w| w[0].1 == "NoteLabel" && w[0].0 == "note" && w[2].0.starts_with("while ")).count();
                if notes != trace_len {
                    rep.violation("C16/trace-items", format!("{what}: {notes} trace items rendered, the error carries {trace_len}"), case());
                }
                texts.push(text);
            }
        }
    }
    if texts.len() == 2 && texts[0] != texts[1] {
        rep.violation("C16/coloured-differs-from-plain", format!("{what}: coloured output without styling differs from plain output"), case());
    }
}

fn crop_check(n: usize, rep: &mut Report) {
    // a trace of length T(n): every max_trace in 0..=T+1
    let src = format!("local f(x) = if x == 0 then error \"bottom\" else [f(x - 1)][0];\nf({n})");
    let arena = Arena::new();
    let mut p = Program::new(&arena);
    let r = rt::run_on(&mut p, src.as_bytes(), &RunCfg::default());
    let Some(err) = r.error else {
        rep.violation("C16/crop-setup", format!("`{src}` did not fail"), json!({"type":"crop","n":n}));
        return;
    };
    let t_len = err.stack_trace.len();
    rep.states += 1;
    for t in 0..=t_len + 1 {
        for colored in [false, true] {
            rep.evaluations += 1;
            rep.traces_validated += 1;
            rep.transitions += 1;
            let r = util::catch(|| render_via_session(src.as_bytes(), colored, Some(t), None));
            let rendered = match r {
                Ok((_, r)) => r,
                Err(m) => {
                    rep.violation(format!("C16/render-panic/{}", util::panic_site(&m)), format!("trace length {t_len}, max_trace {t}: {m}"), json!({"type":"crop","n":n,"max_trace":t}));
                    return;
                }
            };
            let notes = rendered.parts.windows(3).filter(|w| w[0].0 == "note" && w[2].0.starts_with("while ")).count();
            let hidden: Vec<usize> = rendered
                .parts
                .iter()
                .filter_map(|p| p.0.strip_prefix("... ").and_then(|r| r.strip_suffix(" items hidden ...")).and_then(|n| n.parse().ok()))
                .collect();
            let want_notes = t_len.min(t);
            let want_hidden: Vec<usize> = if t_len > t { vec![t_len - t] } else { vec![] };
            rep.outcome(if t_len > t { "cropped" } else { "full-trace" });
            rep.distinct(&(t_len, t));
            if notes != want_notes || hidden != want_hidden {
                rep.violation(
                    "C16/max-trace-cropping",
                    format!("trace length {t_len}, max_trace {t}: {notes} items rendered (expected {want_notes}), hidden note {hidden:?} (expected {want_hidden:?})"),
                    json!({"type":"crop","n":n,"max_trace":t}),
                );
                return;
            }
        }
    }
}

fn position_sources() -> Vec<Vec<u8>> {
    let prefixes: Vec<Vec<u8>> = vec![
        b"".to_vec(),
        b"\n\n".to_vec(),
        b"\r\n".to_vec(),
        b"\t\t".to_vec(),
        "é😀 /*c*/ ".as_bytes().to_vec(),
        b"#c\n  ".to_vec(),
        {
            let mut v = b"/*".to_vec();
            v.extend(std::iter::repeat_n(b' ', 10_000));
            v.extend_from_slice(b"*/");
            v
        },
        b"/* \x01\x7f\xff */ ".to_vec(),
        b"local q = 1;\nlocal r =\t2;\n".to_vec(),
    ];
    let bodies: &[&str] = &[
        "error \"x\"", "1 + \"a\" - 2", "null.f", "[1][5]", "local x = 1; x.y", "{a: 1}.b", "1 <", "\"unterminated", "zz", "std.length(1, 2)",
        "assert false: \"m\"; 1", "std.sort([1, \"a\"])", "{a: error \"deep\"}", "[error \"e\"]", "local f(x) = f(x); f(1)", "local a = a; a", "{a: 1, a: 2}",
        "local a = 1, a = 2; a", "function(x, x) 1", "self", "$", "super.a", "import \"nope\"", "importstr \"nope\"", "f(a=1, 2)", "import (\"a\" + \"b\")",
        "{ [1]: 2 }", "{ [\"a\"]: 1, [\"a\"]: 2 }", "1 / 0", "1 << -1", "std.pow(10, 400)", "\"a\"[7]", "[1, 2][0.5]", "{} < {}", "(function(x) x)(1, 2)",
        "(function(x) x)(y=1)", "(function(x) x)()", "std.parseJson(\"{\")", "std.extVar(\"nope\")", "if 1 then 2", "[x for x in 3]", "1 % \"a\"",
        "\"%d\" % \"a\"", "std.assertEqual(1, 2)", "std.manifestJson(function() 1)", "|||\n x\n y", "'\\q'", "\"\\ud800\"", "1.e", "0x1", "@", "\u{7f}", "/* open",
        "std.native(\"zz\")(1)", "|||\n  a\n", "|||\n  a\n ", "|||\n  a\n x", "|||\n  a", "|||", "||| x", "|||\nx", "\"abc", "'a\\", "\"\\u12", "\"\\ud800\\u0041\"", "/*", "1e", "1.", "0_", "@x", "{a: {b: {c: error \"nested\"}}}", "[[[1, error \"arr\"]]]", "{a: self.b, b: self.a}", "std.toString({a: error \"ts\"})",
        "{a: 1} == {a: error \"eq\"}", "[1, error \"cmp\"] < [1, 2]", "std.map(function(x) error \"m\", [1])", "std.foldl(function(a, b) a + b, [1, \"x\"], 0)",
    ];
    let suffixes: &[&[u8]] = &[b"", b"\n", b" ", b"\r\n\t"];
    let mut v = Vec::new();
    for p in &prefixes {
        for bd in bodies {
            for s in suffixes {
                let mut x = p.clone();
                x.extend_from_slice(bd.as_bytes());
                x.extend_from_slice(s);
                v.push(x);
            }
        }
    }
    v.push(Vec::new());
    v.push(b"\n".to_vec());
    v
}

pub fn run(ctx: &Ctx) -> i32 {
    let mut total = Report::new();
    let cfg = util::ForkCfg { threads: ctx.threads, mem_bytes: 6 << 30, case_timeout_s: 60, died_signature: "C16/abort".into(), resource_is_violation: false };
    // (A)
    let lens = span_layouts(ctx.quick());
    let mut orders: Vec<Vec<usize>> = Vec::new();
    for k in 1..=3 {
        util::for_each_seq(lens.len(), k, |seq| orders.push(seq.to_vec()));
    }
    let r = util::par_forked(&cfg, 64, |sh| {
        let mut rep = Report::new();
        for (i, o) in orders.iter().enumerate() {
            if sh.mine(i as u64) {
                let mut local = Report::new();
                match util::catch(|| {
                    let mut r = Report::new();
                    span_roundtrip(&lens, o, &mut r);
                    r
                }) {
                    Ok(r) => local.merge(r),
                    Err(m) => local.violation(
                        format!("C16/span-panic/{}", util::panic_site(&m)),
                        format!("context lengths {:?}: {m}", o.iter().map(|&k| lens[k]).collect::<Vec<_>>()),
                        json!({"type":"span","lens": o.iter().map(|&k| lens[k]).collect::<Vec<_>>()}),
                    ),
                }
                rep.merge(local);
                rep.distinct(o);
                if i % 401 == 0 {
                    rep.sample(json!({"context_lengths": o.iter().map(|&k| lens[k]).collect::<Vec<_>>()}));
                }
            }
        }
        rep
    });
    total.extra.insert("span_layouts".into(), json!(orders.len()));
    total.extra.insert("span_registrations".into(), json!(r.evaluations));
    total.merge(r);
    // (B) sources
    let mut sources: Vec<(Vec<u8>, &'static str)> = position_sources().into_iter().map(|s| (s, "position-class source")).collect();
    // a single character where no token can start, alone and after / before other text: every
    // scalar value below U+3000, every 61st beyond (all of them thorough), and the format /
    // zero-width / combining characters (a span may have no display width at all)
    {
        let mut chars: Vec<char> = Vec::new();
        let step = if ctx.quick() { 61 } else { 1 };
        let mut cp = 0u32;
        while cp <= 0x10FFFF {
            if let Some(c) = char::from_u32(cp) {
                chars.push(c);
            }
            cp += if cp < 0x3000 { 1 } else { step };
        }
        for c in ['\u{feff}', '\u{200b}', '\u{200c}', '\u{200d}', '\u{200e}', '\u{2060}', '\u{ad}', '\u{301}', '\u{fe0f}', '\u{1160}', '\u{e0001}', '\u{e0100}', '\u{1f3fb}', '\u{20e3}', '\u{fff9}', '\u{61c}', '\u{180e}', '\u{d7b0}', '\u{3000}', '\u{ff01}', '\u{10ffff}'] {
            chars.push(c);
        }
        for c in chars {
            if c.is_ascii() {
                continue;
            }
            sources.push((c.to_string().into_bytes(), "single character"));
            if (c as u32) < 0x3000 || !ctx.quick() || matches!(c as u32, 0xfeff | 0xfe0f | 0x1160 | 0xe0001 | 0xe0100 | 0x1f3fb | 0xfff9 | 0xd7b0) {
                sources.push((format!("1 + {c}").into_bytes(), "single character"));
                sources.push((format!("{c}{c} x\n").into_bytes(), "single character"));
                sources.push((format!("local a = 1;\n\ta{c}").into_bytes(), "single character"));
            }
        }
    }
    {
        let mut g = corpus::Gen::new(corpus::FULL);
        for n in 1..=(if ctx.quick() { 3 } else { 4 }) {
            g.for_each(n, corpus::ROOT, &mut |e| sources.push((syntax::print(&e, syntax::MINIMAL).into_bytes(), "corpus program")));
        }
        for p in [corpus::LAZY, corpus::OBJECTS] {
            let mut g = corpus::Gen::new(p);
            for n in 1..=(if ctx.quick() { 3 } else { 4 }) {
                g.for_each(n, corpus::ROOT, &mut |e| sources.push((syntax::print(&e, syntax::NOISY).into_bytes(), "corpus program (multi-line print)")));
            }
        }
    }
    // static faults in a few contexts
    for f in c09::static_fault_sources() {
        sources.push((f.into_bytes(), "static fault"));
    }
    // short byte strings and token pairs (lex and syntax errors at every position class)
    let a = c14::BYTE_ALPHABET;
    for len in 1..=2 {
        util::for_each_seq(a.len(), len, |seq| {
            let mut x = Vec::new();
            for &i in seq {
                x.extend_from_slice(a[i]);
            }
            sources.push((x, "byte string"));
        });
    }
    let toks = crate::c15::TOKENS;
    let tl = if ctx.quick() { 2 } else { 3 };
    for len in 1..=tl {
        util::for_each_seq(toks.len(), len, |seq| {
            let s: Vec<&str> = seq.iter().map(|&i| toks[i]).collect();
            sources.push((s.join(if len == 2 { "\n" } else { " " }).into_bytes(), "token sequence"));
        });
    }
    let r = util::par_forked(&cfg, 128, |sh| {
        let mut rep = Report::new();
        for (i, (s, what)) in sources.iter().enumerate() {
            if !sh.mine(i as u64) || !sh.begin_case(i as u64, &|| String::from_utf8_lossy(s).to_string()) {
                continue;
            }
            rep.states += 1;
            check_source(s, &mut rep, what);
            if i % 20_011 == 0 {
                rep.sample(json!({"source": String::from_utf8_lossy(s), "class": what}));
            }
        }
        rep
    });
    total.extra.insert("sources_checked".into(), json!(sources.len()));
    total.merge(r);
    // (C)
    let nmax = if ctx.quick() { 12 } else { 40 };
    let r = util::par_forked(&cfg, nmax + 1, |sh| {
        let mut rep = Report::new();
        crop_check(sh.index, &mut rep);
        rep
    });
    total.merge(r);
    util::finish(
        ctx,
        LevelInfo {
            level: "model_checking",
            rule: "(A) every sequence of <=3 source contexts over the boundary lengths x all boundary (start,end) pairs: get_span(intern_span(x)) == x, ids stable and injective; (B) every failing case among: corpus programs up to the node bound (two print styles), static-fault programs, all byte strings of length <=2, all token sequences up to the bound, 62 failing programs x 9 prefixes x 4 suffixes (first/last byte, EOF, CRLF, tabs, multi-byte, 10^4-column line): spans inside their source, report rendered plain and coloured through Session, locations equal to span starts, trace items complete; (C) every max_trace in 0..T+1 for traces of every length up to the bound. distinct+nontrivial = distinct (error class, position class) / layouts / (T, max_trace) pairs".into(),
            assumptions: vec!["columns are compared exactly only where the line prefix is printable ASCII (the renderer counts display columns)".into(), "hook H3 captures exactly what Session would write to stderr".into()],
        },
        total,
    )
}

pub fn replay(v: &serde_json::Value) -> i32 {
    let c = &v["case"];
    match c["type"].as_str().unwrap_or("") {
        "render" => {
            let bytes: Vec<u8> = c["bytes"].as_array().unwrap().iter().map(|x| x.as_u64().unwrap() as u8).collect();
            let mut rep = Report::new();
            check_source(&bytes, &mut rep, "replay");
            for v in &rep.violations {
                println!("{}: {}", v.signature, v.what);
            }
            if rep.violations.is_empty() { println!("no issue"); 0 } else { 1 }
        }
        "crop" => {
            let mut rep = Report::new();
            crop_check(c["n"].as_u64().unwrap() as usize, &mut rep);
            for v in &rep.violations {
                println!("{}: {}", v.signature, v.what);
            }
            if rep.violations.is_empty() { 0 } else { 1 }
        }
        _ => {
            println!("{}", v["what"]);
            1
        }
    }
}
