//! Thin runtime layer over the real library: run a source, classify the outcome.
use rsjsonnet_lang::arena::Arena;
use rsjsonnet_lang::interner::InternedStr;
use rsjsonnet_lang::program::*;
use rsjsonnet_lang::span::{SpanContextId, SpanId, SpanManager};

use crate::util;

#[derive(Clone, Debug, PartialEq, Eq, Hash)]
pub enum Outcome {
    /// Manifested JSON text.
    Value(String),
    /// Lex / Parse / Analyze + variant name.
    Load { phase: &'static str, kind: String },
    /// Run-time error: variant name, message (ExplicitError / AssertFailed only), full debug text
    Eval {
        kind: String,
        msg: Option<String>,
        detail: String,
        trace_len: usize,
    },
    Panic(String),
}

impl Outcome {
    pub fn class(&self) -> String {
        match self {
            Outcome::Value(_) => "value".into(),
            Outcome::Load { phase, kind } => format!("{phase}:{kind}"),
            Outcome::Eval { kind, .. } => format!("eval:{kind}"),
            Outcome::Panic(m) => format!("panic:{}", util::panic_site(m)),
        }
    }
    pub fn is_value(&self) -> bool {
        matches!(self, Outcome::Value(_))
    }
    pub fn is_fail(&self) -> bool {
        matches!(self, Outcome::Load { .. } | Outcome::Eval { .. })
    }
    pub fn is_panic(&self) -> bool {
        matches!(self, Outcome::Panic(_))
    }
    pub fn eval_kind(&self) -> Option<&str> {
        match self {
            Outcome::Eval { kind, .. } => Some(kind),
            _ => None,
        }
    }
    /// Comparable summary at the level properties speak of: value JSON, or failure with the
    /// message when it is an explicit error / assertion.
    pub fn semantic(&self) -> String {
        match self {
            Outcome::Value(s) => format!("V {s}"),
            Outcome::Load { phase, kind } => format!("L {phase}:{kind}"),
            Outcome::Eval { kind, msg, .. } => match kind.as_str() {
                "ExplicitError" => format!("E error:{}", msg.clone().unwrap_or_default()),
                "AssertFailed" => format!("E assert:{:?}", msg),
                _ => "E fail".to_string(),
            },
            Outcome::Panic(m) => format!("P {m}"),
        }
    }
    /// Like `semantic` but keeps the error kind (for same-program comparisons).
    pub fn exact(&self) -> String {
        match self {
            Outcome::Value(s) => format!("V {s}"),
            Outcome::Load { phase, kind } => format!("L {phase}:{kind}"),
            Outcome::Eval {
                detail, trace_len, ..
            } => format!("E {detail} #{trace_len}"),
            Outcome::Panic(m) => format!("P {m}"),
        }
    }
    pub fn short(&self) -> String {
        match self {
            Outcome::Value(s) => format!("value {}", util::truncate(s, 200)),
            Outcome::Load { phase, kind } => format!("{phase} error {kind}"),
            Outcome::Eval { detail, .. } => format!("eval error {}", util::truncate(detail, 300)),
            Outcome::Panic(m) => format!("PANIC {}", util::truncate(m, 300)),
        }
    }
}

pub fn variant_name(debug: &str) -> String {
    debug
        .split(|c: char| !c.is_alphanumeric() && c != '_')
        .next()
        .unwrap_or("")
        .to_string()
}

pub fn eval_error_outcome(e: &EvalError) -> Outcome {
    let detail = format!("{:?}", e.kind);
    let kind = variant_name(&detail);
    let msg = match &e.kind {
        EvalErrorKind::ExplicitError { message, .. } => Some(message.clone()),
        EvalErrorKind::AssertFailed { message, .. } => message.clone(),
        _ => None,
    };
    Outcome::Eval {
        kind,
        msg,
        detail: format!("{:?}", e),
        trace_len: e.stack_trace.len(),
    }
}

pub fn load_error_outcome(e: &LoadError) -> Outcome {
    match e {
        LoadError::Lex(e) => Outcome::Load {
            phase: "lex",
            kind: variant_name(&format!("{e:?}")),
        },
        LoadError::Parse(e) => Outcome::Load {
            phase: "parse",
            kind: variant_name(&format!("{e:?}")),
        },
        LoadError::Analyze(e) => Outcome::Load {
            phase: "analyze",
            kind: variant_name(&format!("{e:?}")),
        },
    }
}

/// Callbacks of the harness: records traces, serves imports from a table.
#[derive(Default)]
pub struct Cb {
    pub traces: Vec<String>,
    pub trace_stack_lens: Vec<usize>,
}

impl<'p> Callbacks<'p> for Cb {
    fn import(
        &mut self,
        _: &mut Program<'p>,
        _: SpanId,
        _: &str,
    ) -> Result<Thunk<'p>, ImportError> {
        Err(ImportError)
    }
    fn import_str(&mut self, _: &mut Program<'p>, _: SpanId, _: &str) -> Result<String, ImportError> {
        Err(ImportError)
    }
    fn import_bin(
        &mut self,
        _: &mut Program<'p>,
        _: SpanId,
        _: &str,
    ) -> Result<Vec<u8>, ImportError> {
        Err(ImportError)
    }
    fn trace(&mut self, _: &mut Program<'p>, m: &str, st: &[EvalStackTraceItem]) {
        self.traces.push(m.to_string());
        self.trace_stack_lens.push(st.len());
    }
    fn native_call(
        &mut self,
        _: &mut Program<'p>,
        _: InternedStr<'p>,
        _: &[Value<'p>],
    ) -> Result<Value<'p>, NativeError> {
        Err(NativeError)
    }
}

#[derive(Clone, Debug, Default)]
pub struct RunCfg {
    pub max_stack: Option<usize>,
    pub multiline: bool,
    pub gc: Option<VerifGcSchedule>,
    /// check spans of errors against the source length (C16)
    pub check_spans: bool,
}

#[derive(Clone, Debug)]
pub struct RunResult {
    pub outcome: Outcome,
    pub traces: Vec<String>,
    pub steps: u64,
    pub gc_runs: u64,
    /// span problems found (C16), empty when fine
    pub span_issues: Vec<String>,
    pub error: Option<EvalError>,
}

pub fn load<'p>(p: &mut Program<'p>, src: &[u8]) -> (SpanContextId, Result<Thunk<'p>, LoadError>) {
    let (ctx, _) = p.span_manager_mut().insert_source_context(src.len());
    let r = p.load_source(ctx, src, true, "t.jsonnet");
    (ctx, r)
}

/// All span ids mentioned by an error kind (via its Debug text: `SpanId(n)`), resolved.
pub fn check_span_in(
    mgr: &SpanManager,
    span: SpanId,
    allowed: &[(SpanContextId, usize)],
    issues: &mut Vec<String>,
    what: &str,
) {
    let (c, s, e) = mgr.get_span(span);
    let Some((_, len)) = allowed.iter().find(|(ac, _)| *ac == c) else {
        issues.push(format!("{what}: span in unknown context {c:?}"));
        return;
    };
    if !(s <= e && e <= *len) {
        issues.push(format!("{what}: span {s}..{e} outside source of length {len}"));
    }
}

pub fn eval_error_spans(e: &EvalError) -> Vec<SpanId> {
    let mut v = Vec::new();
    use EvalErrorKind as K;
    let mut o = |s: &Option<SpanId>| {
        if let Some(s) = s {
            v.push(*s)
        }
    };
    match &e.kind {
        K::InvalidIndexedType { span, .. }
        | K::InvalidSlicedType { span, .. }
        | K::SliceIndexOrStepIsNotNumber { span, .. }
        | K::StringIndexIsNotNumber { span, .. }
        | K::ArrayIndexIsNotNumber { span, .. }
        | K::NumericIndexIsNotValid { span, .. }
        | K::NumericIndexOutOfRange { span, .. }
        | K::ObjectIndexIsNotString { span, .. }
        | K::RepeatedFieldName { span, .. }
        | K::FieldNameIsNotString { span, .. }
        | K::UnknownObjectField { span, .. }
        | K::FieldOfNonObject { span }
        | K::SuperWithoutSuperObject { span }
        | K::ForSpecValueIsNotArray { span, .. }
        | K::CondIsNotBool { span, .. }
        | K::InvalidUnaryOpType { span, .. }
        | K::AssertFailed { span, .. }
        | K::ExplicitError { span, .. }
        | K::ImportFailed { span, .. } => o(&Some(*span)),
        K::CalleeIsNotFunction { span, .. }
        | K::TooManyCallArgs { span, .. }
        | K::UnknownCallParam { span, .. }
        | K::RepeatedCallParam { span, .. }
        | K::CallParamNotBound { span, .. }
        | K::InvalidBinaryOpTypes { span, .. }
        | K::NumberNotBitwiseSafe { span }
        | K::NumberOverflow { span }
        | K::NumberNan { span }
        | K::DivByZero { span }
        | K::ShiftByNegative { span }
        | K::Other { span, .. } => o(span),
        _ => {}
    }
    for it in &e.stack_trace {
        use EvalStackTraceItem as T;
        match it {
            T::Expr { span } | T::Variable { span, .. } | T::Import { span } => v.push(*span),
            T::Call { span, .. } | T::ArrayItem { span, .. } | T::ObjectField { span, .. } => {
                if let Some(s) = span {
                    v.push(*s)
                }
            }
            _ => {}
        }
    }
    v
}

/// Loads, evaluates and manifests `src` on `p` (no panic protection here).
pub fn run_on<'p>(p: &mut Program<'p>, src: &[u8], cfg: &RunCfg) -> RunResult {
    if let Some(ms) = cfg.max_stack {
        p.set_max_stack(ms);
    }
    let (ctx, t) = load(p, src);
    let mut span_issues = Vec::new();
    let t = match t {
        Ok(t) => t,
        Err(e) => {
            if cfg.check_spans {
                load_error_span_check(p.span_manager(), &e, ctx, src.len(), &mut span_issues);
            }
            return RunResult {
                outcome: load_error_outcome(&e),
                traces: vec![],
                steps: 0,
                gc_runs: 0,
                span_issues,
                error: None,
            };
        }
    };
    if let Some(g) = &cfg.gc {
        p.verif_set_gc_schedule(g.clone());
    } else {
        p.verif_set_gc_schedule(VerifGcSchedule::Default);
    }
    let mut cb = Cb::default();
    let r = p.eval_value(&t, &mut cb);
    let r = match r {
        Ok(v) => p.manifest_json(&v, cfg.multiline),
        Err(e) => Err(e),
    };
    let steps = p.verif_steps();
    let gc_runs = p.verif_gc_runs();
    let (outcome, error) = match r {
        Ok(s) => (Outcome::Value(s), None),
        Err(e) => {
            if cfg.check_spans {
                let (std_src, std_data) = p.get_stdlib_source();
                let _ = std_src;
                let std_len = std_data.len();
                let mgr = p.span_manager();
                for sp in eval_error_spans(&e) {
                    let (c, s, en) = mgr.get_span(sp);
                    if c == ctx {
                        if !(s <= en && en <= src.len()) {
                            span_issues.push(format!(
                                "eval error span {s}..{en} outside source of length {}",
                                src.len()
                            ));
                        }
                    } else if !(s <= en && en <= std_len) {
                        // any other context here can only be the stdlib source
                        span_issues.push(format!(
                            "eval error span {s}..{en} in foreign context {c:?} (stdlib len {std_len})"
                        ));
                    }
                }
            }
            (eval_error_outcome(&e), Some(e))
        }
    };
    RunResult {
        outcome,
        traces: cb.traces,
        steps,
        gc_runs,
        span_issues,
        error,
    }
}

pub fn load_error_spans(e: &LoadError) -> Vec<SpanId> {
    use rsjsonnet_lang::lexer::LexError as L;
    use rsjsonnet_lang::parser::ParseError as P;
    match e {
        LoadError::Lex(e) => match e {
            L::InvalidChar { span, .. }
            | L::InvalidUtf8 { span, .. }
            | L::UnfinishedMultilineComment { span }
            | L::LeadingZeroInNumber { span }
            | L::MissingFracDigits { span }
            | L::MissingExpDigits { span }
            | L::MissingDigitAfterUnderscore { span }
            | L::ExpOverflow { span }
            | L::InvalidEscapeInString { span, .. }
            | L::IncompleteUnicodeEscape { span }
            | L::InvalidUtf16EscapeSequence { span, .. }
            | L::UnfinishedString { span }
            | L::MissingLineBreakAfterTextBlockStart { span }
            | L::MissingWhitespaceTextBlockStart { span }
            | L::InvalidTextBlockTermination { span } => vec![*span],
            #[allow(unreachable_patterns)]
            _ => vec![],
        },
        LoadError::Parse(e) => match e {
            P::Expected { span, .. } => vec![*span],
            #[allow(unreachable_patterns)]
            _ => vec![],
        },
        LoadError::Analyze(e) => {
            use AnalyzeError as A;
            match e {
                A::UnknownVariable { span, .. }
                | A::TextBlockAsImportPath { span }
                | A::ComputedImportPath { span } => vec![*span],
                A::SelfOutsideObject { self_span } => vec![*self_span],
                A::SuperOutsideObject { super_span } => vec![*super_span],
                A::DollarOutsideObject { dollar_span } => vec![*dollar_span],
                A::RepeatedLocalName {
                    original_span,
                    repeated_span,
                    ..
                }
                | A::RepeatedFieldName {
                    original_span,
                    repeated_span,
                    ..
                }
                | A::RepeatedParamName {
                    original_span,
                    repeated_span,
                    ..
                } => vec![*original_span, *repeated_span],
                A::PositionalArgAfterNamed { arg_span } => vec![*arg_span],
            }
        }
    }
}

pub fn load_error_span_check(
    mgr: &SpanManager,
    e: &LoadError,
    ctx: SpanContextId,
    len: usize,
    issues: &mut Vec<String>,
) {
    for sp in load_error_spans(e) {
        check_span_in(mgr, sp, &[(ctx, len)], issues, "load error");
    }
}

/// One-shot: fresh Program, panic-protected.
pub fn run_fresh(src: &[u8], cfg: &RunCfg) -> RunResult {
    let r = util::catch(|| {
        let arena = Arena::new();
        let mut p = Program::new(&arena);
        run_on(&mut p, src, cfg)
    });
    match r {
        Ok(r) => r,
        Err(m) => RunResult {
            outcome: Outcome::Panic(m),
            traces: vec![],
            steps: 0,
            gc_runs: 0,
            span_issues: vec![],
            error: None,
        },
    }
}

/// Runs many sources, reusing one `Program` for `chunk` cases at a time (fresh one after a
/// panic). `f(index, result)` is called for each.
pub fn run_batch<I, F>(sources: I, cfg: &RunCfg, chunk: usize, mut f: F)
where
    I: Iterator<Item = Vec<u8>>,
    F: FnMut(usize, &[u8], RunResult),
{
    let mut it = sources.enumerate().peekable();
    while it.peek().is_some() {
        let arena = Arena::new();
        let mut p = Program::new(&arena);
        let mut n = 0;
        while n < chunk {
            let Some((i, src)) = it.next() else { break };
            n += 1;
            let r = util::catch(|| run_on(&mut p, &src, cfg));
            match r {
                Ok(r) => f(i, &src, r),
                Err(m) => {
                    f(
                        i,
                        &src,
                        RunResult {
                            outcome: Outcome::Panic(m),
                            traces: vec![],
                            steps: 0,
                            gc_runs: 0,
                            span_issues: vec![],
                            error: None,
                        },
                    );
                    break; // program state may be poisoned: start a new one
                }
            }
        }
    }
}
