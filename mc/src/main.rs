#![allow(dead_code, clippy::all)]
mod c01;
mod c02;
mod c03;
mod c04;
mod c05;
mod c06;
mod c07;
mod c08;
mod c09;
mod c10;
mod c11;
mod c12;
mod c13;
mod cli;
mod c14;
mod c17;
mod c18;
mod c19;
mod c20;
mod oracle;
mod refjson;
mod c15;
mod c16;
mod corpus;
mod features;
mod refeval;
mod rt;
mod syntax;
mod util;

use util::Ctx;

fn usage() -> ! {
    eprintln!("usage: rsj-mc <C01..C20> <quick|thorough> | rsj-mc replay <file>");
    std::process::exit(3);
}

fn main() {
    let args: Vec<String> = std::env::args().collect();
    if args.len() < 3 {
        usage();
    }
    util::install_panic_hook();
    let seed = std::env::var("VERIF_SEED")
        .ok()
        .and_then(|s| s.parse().ok())
        .unwrap_or(0u64);
    let threads = std::env::var("VERIF_THREADS")
        .ok()
        .and_then(|s| s.parse().ok())
        .unwrap_or(16usize);
    if args[1] == "count" {
        let prof = corpus::profile_by_name(&args[2]).expect("profile");
        let mut g = corpus::Gen::new(prof);
        for n in 1..=args[3].parse::<usize>().unwrap() {
            println!("{} n={} programs={}", prof.name, n, g.count(n, corpus::ROOT));
        }
        return;
    }
    if args[1] == "replay" {
        let text = std::fs::read_to_string(&args[2]).expect("replay file");
        let v: serde_json::Value = serde_json::from_str(&text).expect("replay json");
        let id = v["property"].as_str().unwrap_or("").to_string();
        let code = replay(&id, &v);
        std::process::exit(code);
    }
    let ctx = Ctx {
        id: args[1].clone(),
        tier: args[2].clone(),
        seed,
        start: std::time::Instant::now(),
        threads,
    };
    if ctx.tier != "quick" && ctx.tier != "thorough" {
        usage();
    }
    let code = match ctx.id.as_str() {
        "C01" => c01::run(&ctx),
        "C02" => c02::run(&ctx),
        "C03" => c03::run(&ctx),
        "C04" => c04::run(&ctx),
        "C05" => c05::run(&ctx),
        "C06" => c06::run(&ctx),
        "C07" => c07::run(&ctx),
        "C08" => c08::run(&ctx),
        "C09" => c09::run(&ctx),
        "C10" => c10::run(&ctx),
        "C11" => c11::run(&ctx),
        "C12" => c12::run(&ctx),
        "C13" => c13::run(&ctx),
        "C14" => c14::run(&ctx),
        "C17" => c17::run(&ctx),
        "C18" => c18::run(&ctx),
        "C19" => c19::run(&ctx),
        "C20" => c20::run(&ctx),
        "C15" => c15::run(&ctx),
        "C16" => c16::run(&ctx),
        _ => usage(),
    };
    std::process::exit(code);
}

fn replay(id: &str, v: &serde_json::Value) -> i32 {
    match id {
        "C01" => c01::replay(v),
        "C02" => c02::replay(v),
        "C03" => c03::replay(v),
        "C04" => c04::replay(v),
        "C05" => c05::replay(v),
        "C06" => c06::replay(v),
        "C07" => c07::replay(v),
        "C08" => c08::replay(v),
        "C09" => c09::replay(v),
        "C10" => c10::replay(v),
        "C11" => c11::replay(v),
        "C12" => c12::replay(v),
        "C13" => c13::replay(v),
        "C14" => c14::replay(v),
        "C17" => c17::replay(v),
        "C18" => c18::replay(v),
        "C19" => c19::replay(v),
        "C20" => c20::replay(v),
        "C15" => c15::replay(v),
        "C16" => c16::replay(v),
        _ => {
            eprintln!("no replay for {id}");
            3
        }
    }
}
