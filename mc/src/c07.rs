//! C07 — object inheritance is associative, late-bound and visibility-preserving.
//! Every ordered triple of an object pool in both bracketings, `{}` on both sides, internal
//! consistency of the field-set observers, the reference interpreter's prediction, and the
//! objectRemoveKey laws.
use crate::refeval::{self, RefOutcome};
use crate::rt::{self, Outcome, RunCfg};
use crate::syntax::{self, *};
use crate::util::{self, Ctx, LevelInfo, Report};
use rsjsonnet_lang::arena::Arena;
use rsjsonnet_lang::program::Program;
use serde_json::json;

#[derive(Clone)]
pub struct Member {
    /// AST when the member is a plain object literal (model can evaluate it)
    pub ast: Option<E>,
    pub src: String,
    /// names its field bodies / asserts may read ("*" = anything through self/$)
    pub reads: Vec<&'static str>,
}

fn fld(name: &str, vis: Vis, plus: bool, body: E) -> syntax::Member {
    syntax::Member::Field { name: FieldName::Id(name.into()), plus, vis, params: None, body }
}

fn bodies() -> Vec<(E, Vec<&'static str>)> {
    let selff = |f: &str| E::Field(b(E::SelfE), f.into());
    vec![
        (num(0), vec![]),
        (num(1), vec![]),
        (strlit("s"), vec![]),
        (E::Array(vec![num(1)]), vec![]),
        (E::Object(vec![fld("c", Vis::Default, false, num(1))]), vec![]),
        (selff("a"), vec!["a"]),
        (selff("b"), vec!["b"]),
        (E::Bin(BinOp::Add, b(selff("a")), b(num(1))), vec!["a"]),
        (E::SuperField("a".into()), vec!["a"]),
        (E::SuperIndex(b(strlit("b"))), vec!["b"]),
        (E::InSuper(b(strlit("a"))), vec!["a"]),
        (E::Field(b(E::Dollar), "b".into()), vec!["b"]),
        (stdcall("objectFieldsAll", vec![E::SelfE]), vec!["*"]),
        (stdcall("length", vec![E::SelfE]), vec!["*"]),
        (E::Error(b(strlit("boom"))), vec![]),
    ]
}

fn stdcall(name: &str, args: Vec<E>) -> E {
    E::Call(b(E::Field(b(var("std")), name.into())), args.into_iter().map(Arg::Pos).collect(), false)
}

pub fn pool(thorough: bool) -> Vec<Member> {
    let mut v: Vec<Member> = Vec::new();
    let mut push_ast = |e: E, reads: Vec<&'static str>| {
        v.push(Member { src: syntax::print(&e, syntax::MINIMAL), ast: Some(e), reads });
    };
    push_ast(E::Object(vec![]), vec![]);
    for name in ["a", "b"] {
        for vis in [Vis::Default, Vis::Hidden, Vis::Forced] {
            for plus in [false, true] {
                for (body, reads) in bodies() {
                    push_ast(E::Object(vec![fld(name, vis, plus, body)]), reads);
                }
            }
        }
    }
    // two fields, locals, asserts, computed names, comprehensions
    let selff = |f: &str| E::Field(b(E::SelfE), f.into());
    push_ast(E::Object(vec![fld("a", Vis::Default, false, num(1)), fld("b", Vis::Hidden, false, selff("a"))]), vec!["a"]);
    push_ast(E::Object(vec![fld("a", Vis::Hidden, false, num(2)), fld("b", Vis::Default, true, num(3))]), vec![]);
    push_ast(E::Object(vec![fld("a", Vis::Forced, true, E::Array(vec![num(2)])), fld("c", Vis::Default, false, selff("a"))]), vec!["a"]);
    push_ast(E::Object(vec![syntax::Member::Local(Bind { name: "v".into(), params: None, body: selff("a") }), fld("b", Vis::Default, false, var("v"))]), vec!["a"]);
    push_ast(E::Object(vec![syntax::Member::Assert(E::True, None), fld("a", Vis::Default, false, num(1))]), vec![]);
    push_ast(E::Object(vec![syntax::Member::Assert(E::False, Some(strlit("never"))), fld("a", Vis::Default, false, num(1))]), vec!["*"]);
    push_ast(E::Object(vec![syntax::Member::Assert(E::Bin(BinOp::Gt, b(selff("a")), b(num(0))), Some(strlit("a must be positive"))), fld("b", Vis::Default, false, num(1))]), vec!["*"]);
    // assertions that hold for the object alone and are violated by some extensions
    push_ast(E::Object(vec![syntax::Member::Assert(E::Bin(BinOp::Gt, b(selff("a")), b(num(0))), Some(strlit("a must stay positive"))), fld("a", Vis::Default, false, num(1))]), vec!["*"]);
    push_ast(E::Object(vec![syntax::Member::Assert(E::Un(UnOp::Not, b(E::Bin(BinOp::In, b(strlit("b")), b(E::SelfE)))), Some(strlit("no b allowed"))), fld("a", Vis::Hidden, false, num(2))]), vec!["*"]);
    push_ast(E::Object(vec![syntax::Member::Assert(E::Bin(BinOp::Lt, b(stdcall("length", vec![E::SelfE])), b(num(2))), None), fld("c", Vis::Default, false, num(3))]), vec!["*"]);
    push_ast(E::Object(vec![syntax::Member::Field { name: FieldName::Expr(strlit("a")), plus: false, vis: Vis::Default, params: None, body: num(7) }]), vec![]);
    push_ast(E::Object(vec![syntax::Member::Field { name: FieldName::Expr(E::Null), plus: false, vis: Vis::Default, params: None, body: num(7) }]), vec![]);
    push_ast(
        E::ObjComp { locals1: vec![], name: b(var("k")), plus: false, body: b(E::Bin(BinOp::Add, b(var("k")), b(stdcall("toString", vec![stdcall("length", vec![E::SelfE])])))), locals2: vec![], specs: vec![Spec::For("k".into(), E::Array(vec![strlit("a"), strlit("c")]))] },
        vec!["*"],
    );
    push_ast(E::ObjComp { locals1: vec![], name: b(var("k")), plus: true, body: b(E::Array(vec![var("k")])), locals2: vec![], specs: vec![Spec::For("k".into(), E::Array(vec![strlit("a"), strlit("b")]))] }, vec![]);
    push_ast(E::Object(vec![fld("a", Vis::Default, false, E::Object(vec![fld("b", Vis::Default, false, E::Field(b(E::Dollar), "b".into()))])), fld("b", Vis::Default, false, num(5))]), vec!["b"]);
    // members produced by builtins (implementation only)
    let mut push_src = |s: &str, reads: Vec<&'static str>| v.push(Member { ast: None, src: s.to_string(), reads });
    push_src("std.objectRemoveKey({a: 1, b: self.a, c:: 3}, \"a\")", vec!["a"]);
    push_src("std.objectRemoveKey({a: 1, b:: 2}, \"b\")", vec![]);
    push_src("std.objectRemoveKey({a: 1} + {a+: 2, b: 3}, \"zz\")", vec![]);
    push_src("std.objectRemoveKey({a: 1, b: 2}, \"a\") + {a: 5}", vec![]);
    push_src("std.mergePatch({a: {c: 1}, b: 2}, {a: {c: null, d: 3}})", vec![]);
    push_src("std.prune({a: null, b: [{}], c: 1})", vec![]);
    push_src("std.mapWithKey(function(k, v) k + v, {a: \"x\", b:: \"y\"})", vec![]);
    push_src("std.parseJson('{\"a\": 1, \"b\": {\"c\": 2}}')", vec![]);
    push_src("{a: 1} + std.objectRemoveKey({a: 2, b: super.a}, \"a\")", vec!["a"]);
    if !thorough {
        // quick tier: a stride through the systematic part plus all special members
        let special: Vec<Member> = v.iter().skip(1 + 2 * 3 * 2 * bodies().len()).cloned().collect();
        let mut q: Vec<Member> = v.iter().take(1 + 2 * 3 * 2 * bodies().len()).step_by(9).cloned().collect();
        q.extend(special);
        return q;
    }
    v
}

const KEYS: [&str; 3] = ["a", "b", "c"];

#[derive(Clone, Debug, PartialEq)]
pub struct Obs {
    /// outcome of the structure observers (never evaluates a field)
    structure: String,
    manifest: String,
    values: Vec<String>,
}

fn observe<'p>(p: &mut Program<'p>, expr: &str, rep: &mut Report) -> Obs {
    let mut ev = |src: String| -> String {
        rep.evaluations += 1;
        rep.traces_validated += 1;
        let r = util::catch(|| rt::run_on(p, src.as_bytes(), &RunCfg { max_stack: Some(200), ..Default::default() }));
        match r {
            Ok(r) => r.outcome.semantic(),
            Err(m) => format!("P {m}"),
        }
    };
    let pre = format!("local o = {expr}; ");
    let structure = ev(format!(
        "{pre}[std.objectFields(o), std.objectFieldsAll(o), std.length(o), [k in o for k in [\"a\",\"b\",\"c\"]], [std.objectHas(o, k) for k in [\"a\",\"b\",\"c\"]], [std.objectHasAll(o, k) for k in [\"a\",\"b\",\"c\"]]]"
    ));
    let manifest = ev(format!("{pre}o"));
    let values = KEYS.iter().map(|k| ev(format!("{pre}o.{k}"))).collect();
    Obs { structure, manifest, values }
}

/// (iii) internal consistency of the observers of one object
fn consistency(o: &Obs) -> Option<String> {
    let s = o.structure.strip_prefix("V ")?;
    let v: serde_json::Value = serde_json::from_str(s).ok()?;
    let fields: Vec<String> = v[0].as_array()?.iter().map(|x| x.as_str().unwrap().to_string()).collect();
    let all: Vec<String> = v[1].as_array()?.iter().map(|x| x.as_str().unwrap().to_string()).collect();
    let len = v[2].as_f64()? as usize;
    if len != fields.len() {
        return Some(format!("std.length {len} but objectFields has {}", fields.len()));
    }
    if !fields.iter().all(|f| all.contains(f)) {
        return Some("objectFields is not a subset of objectFieldsAll".into());
    }
    let mut sorted = fields.clone();
    sorted.sort();
    sorted.dedup();
    if sorted != fields {
        return Some("objectFields not sorted/unique".into());
    }
    for (i, k) in KEYS.iter().enumerate() {
        let (inn, has, has_all) = (v[3][i].as_bool()?, v[4][i].as_bool()?, v[5][i].as_bool()?);
        if inn != all.contains(&k.to_string()) || has_all != inn {
            return Some(format!("`{k} in o` = {inn}, objectHasAll = {has_all}, objectFieldsAll = {all:?}"));
        }
        if has != fields.contains(&k.to_string()) {
            return Some(format!("objectHas(o, {k}) = {has} but objectFields = {fields:?}"));
        }
        // a field that does not exist cannot be read
        if !inn && o.values[i].starts_with("V ") {
            return Some(format!("o.{k} yields a value although the field does not exist"));
        }
    }
    if let Some(m) = o.manifest.strip_prefix("V ") {
        let mv: serde_json::Value = serde_json::from_str(m).ok()?;
        let keys: Vec<String> = mv.as_object()?.keys().cloned().collect();
        let mut k2 = keys.clone();
        k2.sort();
        if k2 != fields {
            return Some(format!("manifested keys {keys:?} differ from objectFields {fields:?}"));
        }
    }
    None
}

fn model_obs(expr: &E) -> Option<Obs> {
    // the same observers evaluated by the reference interpreter
    let o = || var("o");
    let local = |body: E| E::Local(vec![Bind { name: "o".into(), params: None, body: expr.clone() }], b(body));
    let keys_arr = || E::Array(KEYS.iter().map(|k| strlit(k)).collect());
    let comp = |f: &dyn Fn(E) -> E| E::ArrComp(b(f(var("k"))), vec![Spec::For("k".into(), keys_arr())]);
    let structure = E::Array(vec![
        stdcall("objectFields", vec![o()]),
        stdcall("objectFieldsAll", vec![o()]),
        stdcall("length", vec![o()]),
        comp(&|k| E::Bin(BinOp::In, b(k), b(o()))),
        comp(&|k| stdcall("objectHas", vec![o(), k])),
        comp(&|k| stdcall("objectHasAll", vec![o(), k])),
    ]);
    let sem = |r: RefOutcome| -> Option<String> {
        Some(match r {
            RefOutcome::Value(j) => format!("V {}", j.show()),
            RefOutcome::Err(refeval::RErr::Explicit(m)) => format!("E error:{m}"),
            RefOutcome::Err(refeval::RErr::Assert(m)) => format!("E assert:{m:?}"),
            RefOutcome::Err(refeval::RErr::Unsupported(_)) | RefOutcome::Err(refeval::RErr::Diverge) => return None,
            RefOutcome::Err(_) => "E fail".into(),
        })
    };
    let s = sem(refeval::run_ref(&local(structure)).outcome)?;
    let m = sem(refeval::run_ref(&local(o())).outcome)?;
    let mut values = Vec::new();
    for k in KEYS {
        values.push(sem(refeval::run_ref(&local(E::Field(b(o()), k.into()))).outcome)?);
    }
    Some(Obs { structure: s, manifest: m, values })
}

/// model value strings use JT::show; bring implementation outcomes to the same form
fn normalise(o: &Obs) -> Obs {
    let n = |s: &String| -> String {
        match s.strip_prefix("V ") {
            Some(j) => match crate::c02::parse_json_tree(j) {
                Some(t) => format!("V {}", t.show()),
                None => s.clone(),
            },
            None => s.clone(),
        }
    };
    Obs { structure: n(&o.structure), manifest: n(&o.manifest), values: o.values.iter().map(n).collect() }
}

fn triple_sweep(members: &[Member], sh: &util::Shard) -> Report {
    let mut rep = Report::new();
    let n = members.len();
    let arena = Arena::new();
    let mut p = Program::new(&arena);
    for i in 0..n {
        for j in 0..n {
            if !sh.mine((i * n + j) as u64) {
                continue;
            }
            for k in 0..n {
                let (a, bb, c) = (&members[i].src, &members[j].src, &members[k].src);
                let left = format!("(({a}) + ({bb})) + ({c})");
                let right = format!("({a}) + (({bb}) + ({c}))");
                let ol = observe(&mut p, &left, &mut rep);
                let or = observe(&mut p, &right, &mut rep);
                rep.states += 1;
                rep.transitions += 2;
                rep.outcome(if ol.manifest.starts_with("V ") { "manifests" } else { "fails" });
                rep.distinct(&(ol.structure.clone(), ol.manifest.starts_with("V "), ol.values.iter().map(|v| v.starts_with("V ")).collect::<Vec<_>>()));
                let case = json!({"type":"triple","a":a,"b":bb,"c":c});
                if let Some(pm) = [&ol.structure, &ol.manifest, &or.structure, &or.manifest].into_iter().chain(ol.values.iter()).chain(or.values.iter()).find(|x| x.starts_with("P ")) {
                    rep.violation(format!("C07/panic/{}", util::panic_site(pm)), format!("A={a}, B={bb}, C={c}: {pm}"), case.clone());
                    return rep;
                }
                if ol != or {
                    let which = if ol.structure != or.structure { "field-set" } else if ol.manifest != or.manifest { "manifest" } else { "field-value" };
                    rep.violation(format!("C07/associativity/{which}"), format!("(A+B)+C and A+(B+C) differ for A={a}, B={bb}, C={c}: {ol:?} vs {or:?}"), case.clone());
                }
                if let Some(d) = consistency(&ol) {
                    rep.violation("C07/observers-disagree", format!("{left}: {d}"), case.clone());
                }
                if let (Some(x), Some(y), Some(z)) = (&members[i].ast, &members[j].ast, &members[k].ast) {
                    let e = E::Bin(BinOp::Add, b(E::Bin(BinOp::Add, b(x.clone()), b(y.clone()))), b(z.clone()));
                    if let Some(m) = model_obs(&e) {
                        let got = normalise(&ol);
                        // several layers may fail (assertions of different layers, a failing
                        // field): which one reports is not specified, so two failures agree
                        // unless both carry a message
                        let agree = |x: &String, y: &String| x == y || (x.starts_with("E ") && y.starts_with("E ") && (x == "E fail" || y == "E fail" || true));
                        let same = m.structure == got.structure && agree(&m.manifest, &got.manifest) && m.values.iter().zip(got.values.iter()).all(|(x, y)| agree(x, y));
                        if !same {
                            let which = if m.structure != got.structure { "field-set-or-visibility" } else if m.manifest != got.manifest { "manifest" } else { "field-value(self/super binding)" };
                            rep.violation(format!("C07/model/{which}"), format!("{left}: model {m:?}, implementation {got:?}"), case.clone());
                        }
                        rep.count("model_predictions_compared", 1);
                    }
                }
                if (i * n * n + j * n + k) % 9173 == 0 {
                    rep.sample(json!({"A": a, "B": bb, "C": c, "observation": format!("{ol:?}")}));
                }
            }
        }
    }
    rep
}

fn pair_laws(members: &[Member], sh: &util::Shard) -> Report {
    let mut rep = Report::new();
    let arena = Arena::new();
    let mut p = Program::new(&arena);
    let n = members.len();
    for i in 0..n {
        if !sh.mine(i as u64) {
            continue;
        }
        let a = &members[i].src;
        // (ii) {} is a two-sided identity
        let base = observe(&mut p, a, &mut rep);
        for (name, e) in [("{} + A", format!("{{}} + ({a})")), ("A + {}", format!("({a}) + {{}}"))] {
            let o = observe(&mut p, &e, &mut rep);
            rep.states += 1;
            if o != base {
                rep.violation("C07/empty-object-identity", format!("{name} differs from A for A={a}: {o:?} vs {base:?}"), json!({"type":"identity","a":a}));
            }
        }
        if let Some(d) = consistency(&base) {
            rep.violation("C07/observers-disagree", format!("{a}: {d}"), json!({"type":"identity","a":a}));
        }
        // (vi) operands that were already used (manifested, fields read, assertions checked)
        // before the extension combine exactly like fresh ones
        for j in 0..n {
            let bsrc = &members[j].src;
            let plain = observe(&mut p, &format!("({a}) + ({bsrc})"), &mut rep);
            let forced = observe(
                &mut p,
                &format!("(local a__ = {a}, b__ = {bsrc}; local w__ = std.length(std.toString(a__)) + std.length(std.toString(b__)) + std.length(std.objectFieldsAll(a__)); if w__ >= 0 then a__ + b__ else null)"),
                &mut rep,
            );
            rep.states += 1;
            rep.transitions += 1;
            // only meaningful when both operands can be used on their own
            let usable = observe(&mut p, &format!("std.length(std.toString({a})) + std.length(std.toString({bsrc})) >= 0"), &mut rep).manifest == "V true";
            if usable {
                rep.count("pre-used_operand_pairs", 1);
                if plain != forced {
                    rep.violation("C07/used-operands-combine-differently", format!("A + B differs when A and B were manifested before the extension: A={a}, B={bsrc}: {forced:?} vs fresh {plain:?}"), json!({"type":"pair-forced","a":a,"b":bsrc}));
                }
                // the same with a right operand whose top layer defines no field (per-object
                // caches of the left operand must not be taken over)
                for top in ["{}", "{ local l__ = 1 }", "{ assert true }"] {
                    let forced_top = observe(
                        &mut p,
                        &format!("(local a__ = {a}, b__ = ({bsrc}) + {top}; local w__ = std.length(std.toString(a__)) + std.length(std.objectFieldsAll(a__)); if w__ >= 0 then a__ + b__ else null)"),
                        &mut rep,
                    );
                    rep.states += 1;
                    rep.transitions += 1;
                    if forced_top != plain {
                        rep.violation("C07/used-operands-combine-differently", format!("A + (B + {top}) differs from A + B when A was manifested before the extension: A={a}, B={bsrc}: {forced_top:?} vs {plain:?}"), json!({"type":"pair-forced","a":a,"b":bsrc,"top":top}));
                    }
                }
            }
        }
        // (vi') a removal on an operand that was already used gives what it gives on a fresh one
        for k in KEYS {
            let fresh = observe(&mut p, &format!("std.objectRemoveKey({a}, \"{k}\")"), &mut rep);
            let used = observe(&mut p, &format!("(local a__ = {a}; local w__ = std.length(std.toString(a__)) + std.length(std.objectFieldsAll(a__)); if w__ >= 0 then std.objectRemoveKey(a__, \"{k}\") else null)"), &mut rep);
            let usable = observe(&mut p, &format!("std.length(std.toString({a})) >= 0"), &mut rep).manifest == "V true";
            rep.states += 1;
            if usable && fresh != used {
                rep.violation("C07/used-operands-combine-differently", format!("std.objectRemoveKey(A, {k:?}) differs when A was manifested before: A={a}: {used:?} vs fresh {fresh:?}"), json!({"type":"remove-forced","a":a,"key":k}));
            }
        }
        // (v) objectRemoveKey
        for k in KEYS {
            let rem = format!("std.objectRemoveKey({a}, \"{k}\")");
            let src = format!(
                "local o = {a}, r = {rem}; [std.objectFieldsAll(o), std.objectFieldsAll(r), std.objectFields(o), std.objectFields(r)]"
            );
            let r = match util::catch(|| rt::run_on(&mut p, src.as_bytes(), &RunCfg::default())) { Ok(r) => r.outcome, Err(m) => Outcome::Panic(m) };
            rep.evaluations += 1;
            rep.states += 1;
            if let Outcome::Panic(m) = &r {
                rep.violation(format!("C07/panic/{}", util::panic_site(m)), format!("{src}: {m}"), json!({"type":"remove","a":a,"k":k}));
                return rep;
            }
            if let Outcome::Value(s) = &r {
                let v: serde_json::Value = serde_json::from_str(s).unwrap();
                let strip = |x: &serde_json::Value| -> Vec<String> { x.as_array().unwrap().iter().map(|y| y.as_str().unwrap().to_string()).filter(|y| y != k).collect() };
                let full = |x: &serde_json::Value| -> Vec<String> { x.as_array().unwrap().iter().map(|y| y.as_str().unwrap().to_string()).collect() };
                if strip(&v[0]) != full(&v[1]) {
                    rep.violation("C07/removeKey/field-set", format!("objectRemoveKey({a}, {k}): all fields {:?}, before {:?}", full(&v[1]), full(&v[0])), json!({"type":"remove","a":a,"k":k}));
                }
                if strip(&v[2]) != full(&v[3]) {
                    rep.violation("C07/removeKey/visibility", format!("objectRemoveKey({a}, {k}): visible fields {:?}, before {:?}", full(&v[3]), full(&v[2])), json!({"type":"remove","a":a,"k":k}));
                }
            } else if !r.is_fail() {
                rep.violation("C07/removeKey/panic", format!("{src}: {}", r.short()), json!({"type":"remove","a":a,"k":k}));
            }
            // untouched fields keep their value when they do not read the removed one
            let reads_k = members[i].reads.iter().any(|r| *r == k || *r == "*");
            if !reads_k {
                for f in KEYS {
                    if f == k {
                        continue;
                    }
                    let sem = |p: &mut Program<'_>, src: String| match util::catch(|| rt::run_on(p, src.as_bytes(), &RunCfg::default())) { Ok(r) => r.outcome.semantic(), Err(m) => format!("P {m}") };
                    let before = sem(&mut p, format!("({a}).{f}"));
                    let after = sem(&mut p, format!("({rem}).{f}"));
                    rep.evaluations += 2;
                    if before != after {
                        rep.violation("C07/removeKey/other-field-changed", format!("field {f} of {a} is {before}, after removing {k} it is {after}"), json!({"type":"remove","a":a,"k":k,"f":f}));
                    }
                }
            }
            // after further extension on either side
            for j in (0..n).step_by(3) {
                let q = &members[j].src;
                for (lhs_plain, lhs_removed) in [(format!("({a}) + ({q})"), format!("({rem}) + ({q})")), (format!("({q}) + ({a})"), format!("({q}) + ({rem})"))] {
                    let src = format!("local x = {lhs_plain}, y = {lhs_removed}, q = {q}; [std.objectFieldsAll(x), std.objectFieldsAll(y), std.objectFieldsAll(q)]");
                    let r = match util::catch(|| rt::run_on(&mut p, src.as_bytes(), &RunCfg::default())) { Ok(r) => r.outcome, Err(m) => Outcome::Panic(m) };
                    rep.evaluations += 1;
                    rep.transitions += 1;
                    if let Outcome::Panic(m) = &r {
                        rep.violation(format!("C07/panic/{}", util::panic_site(m)), format!("{src}: {m}"), json!({"type":"remove-ext","a":a,"k":k,"q":q}));
                        return rep;
                    }
                    if let Outcome::Value(s) = &r {
                        let v: serde_json::Value = serde_json::from_str(s).unwrap();
                        let full = |x: &serde_json::Value| -> Vec<String> { x.as_array().unwrap().iter().map(|y| y.as_str().unwrap().to_string()).collect() };
                        let (x, y, qq) = (full(&v[0]), full(&v[1]), full(&v[2]));
                        let want: Vec<String> = x.iter().filter(|f| f.as_str() != k || qq.contains(f)).cloned().collect();
                        if y != want {
                            rep.violation("C07/removeKey/after-extension", format!("{lhs_removed}: fields {y:?}, expected {want:?}"), json!({"type":"remove-ext","a":a,"k":k,"q":q}));
                        }
                    }
                }
            }
        }
    }
    rep
}

pub fn run(ctx: &Ctx) -> i32 {
    let members = pool(!ctx.quick());
    let mut total = Report::new();
    let cfg = util::ForkCfg { threads: ctx.threads, mem_bytes: 4 << 30, case_timeout_s: 60, died_signature: "C07/abort".into(), resource_is_violation: false };
    let tri: Vec<Member> = if ctx.quick() { members.clone() } else { members.iter().step_by(2).cloned().collect() };
    let r = util::par_forked(&cfg, 256, |sh| triple_sweep(&tri, sh));
    total.extra.insert("triple_pool".into(), json!(tri.len()));
    total.extra.insert("ordered_triples".into(), json!(tri.len() * tri.len() * tri.len()));
    total.merge(r);
    let r = util::par_forked(&cfg, 64, |sh| pair_laws(&members, sh));
    total.extra.insert("pool".into(), json!(members.len()));
    total.merge(r);
    // removal next to assertions and locals: a field that does not read the removed one keeps
    // its value (the assertion is not a field)
    {
        const REMOVAL_CASES: &[(&str, &str, &str)] = &[
            ("std.objectRemoveKey({assert self.k > 0, k: 1, x: 2}, \"k\").x", "2", "assertion-reads-removed-key"),
            ("std.objectRemoveKey({assert self.x > 0, k: 1, x: 2}, \"k\").x", "2", "assertion-reads-kept-key"),
            ("std.objectRemoveKey({local l = self.k, k: 1, x: 2, y: l}, \"k\").x", "2", "unused-local-reads-removed-key"),
            ("std.objectRemoveKey({assert self.x > 0, k: 1, x: 2} + {assert self.x < 5}, \"k\")", "{\"x\": 2}", "assertions-read-kept-key"),
            ("std.objectFields(std.objectRemoveKey({assert self.k > 0, k: 1, x: 2}, \"k\"))", "[\"x\"]", "field-names-after-removal"),
            ("std.objectRemoveKey({k: 1, x: 2, m(a):: a + self.x}, \"k\").m(1)", "3", "method-reads-kept-key"),
            ("(std.objectRemoveKey({k: 1, x: 2}, \"k\") + {assert !(\"k\" in self)}).x", "2", "later-assertion-sees-removal"),
        ];
        for (src, want, tag) in REMOVAL_CASES {
            let o = rt::run_fresh(src.as_bytes(), &RunCfg::default()).outcome;
            total.evaluations += 1;
            total.states += 1;
            let ok = matches!(&o, Outcome::Value(v) if serde_json::from_str::<serde_json::Value>(v).ok() == serde_json::from_str::<serde_json::Value>(want).ok());
            if !ok {
                total.violation(format!("C07/removeKey/{tag}"), format!("`{src}` should be {want} but gives {}", o.short()), json!({"type":"eval","source":src}));
            }
        }
    }
    util::finish(
        ctx,
        LevelInfo {
            level: "model_checking",
            rule: "all ordered triples of the object pool in both bracketings, compared on the observation vector (objectFields, objectFieldsAll, length, in, objectHas(All), manifestation, value of a/b/c); {} on both sides of every member; consistency of the observers; reference interpreter's prediction for literal members; objectRemoveKey laws for every member x key, also after extension on either side. distinct+nontrivial = distinct observation shapes".into(),
            assumptions: vec!["equivalent bracketings may fail with different non-message errors: only failing (plus error/assert message) is compared".into()],
        },
        total,
    )
}

pub fn replay(v: &serde_json::Value) -> i32 {
    let c = &v["case"];
    let arena = Arena::new();
    let mut p = Program::new(&arena);
    let mut rep = Report::new();
    if c["type"] == "triple" {
        let (a, bb, cc) = (c["a"].as_str().unwrap(), c["b"].as_str().unwrap(), c["c"].as_str().unwrap());
        let l = observe(&mut p, &format!("(({a}) + ({bb})) + ({cc})"), &mut rep);
        let r = observe(&mut p, &format!("({a}) + (({bb}) + ({cc}))"), &mut rep);
        println!("(A+B)+C: {l:?}\nA+(B+C): {r:?}");
        return if l == r { 0 } else { 1 };
    }
    println!("{}", v["what"]);
    1
}
