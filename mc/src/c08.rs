//! C08 — `==` is a structural equivalence and `<` a total order, mutually consistent.
//! All ordered pairs of a value pool are evaluated under every comparison form; the laws are
//! checked on the complete result tables (so transitivity covers all ordered triples) and
//! against an independent model on the manifested JSON trees.
use crate::c02::parse_json_tree;
use crate::refeval::JT;
use crate::rt::{self, Outcome, RunCfg};
use crate::util::{self, Ctx, LevelInfo, Report};
use rsjsonnet_lang::arena::Arena;
use rsjsonnet_lang::program::Program;
use serde_json::json;
use std::cmp::Ordering;

pub fn pool(thorough: bool) -> Vec<&'static str> {
    let mut v = vec![
        "null", "true", "false", "0", "-0", "1", "-1", "0.5", "2", "9007199254740991", "9007199254740992", "1.7976931348623157e308", "-1.7976931348623157e308", "5e-324",
        "\"\"", "\"a\"", "\"b\"", "\"ab\"", "\"aa\"", "\"A\"", "\"é\"", "\"e\\u0301\"", "\"€\"", "\"😀\"", "\"\\uffff\"", "\"\\ud800\\udc00\"", "\"a\\u0000\"", "\"0\"", "\"1\"", "\"null\"",
        "[]", "[0]", "[1]", "[-0]", "[0, 0]", "[0, 1]", "[1, 0]", "[[]]", "[[0]]", "[[], []]", "[\"a\"]", "[\"a\", \"b\"]", "[\"b\"]", "[null]", "[true]", "[0, \"a\"]", "[\"a\", 0]",
        "[{}]", "[[1, 2], [3]]", "[[1, 2], [2]]", "[1, [2]]",
        "{}", "{a: 0}", "{a: 1}", "{a: -0}", "{b: 0}", "{a: 0, b: 0}", "{a: 0, b:: 1}", "{a:: 0}", "{a: 0} + {a::: 0}", "{a: 0} + {b:: 2}", "{a: {b: 1}}", "{a: {b: 2}}", "{a: [1]}",
        "{a: self.b, b:: 0}", "{a:: 0, b: 0}", "{a: 0, b:: 0}", "{b:: 0, a: 0, c:: 0}", "{a:: 0} + {a: 0}", "{a: 0} + {a:: 0}", "{a:: 0} + {a::: 0}", "{a:: 1, b: 1}", "{a: 1, b:: 1}", "{[\"a\"]: 0}", "{a: null}", "{\"\": 0}",
        "function(x) x", "function() 0", "std.length",
        "[function(x) x]", "{f: function(x) x}", "{f:: function(x) x, a: 0}",
    ];
    if thorough {
        v.extend([
            "1e-7", "0.1 + 0.2", "0.3", "1e21", "-9007199254740993", "3", "\"abc\"", "\"ab\\u0000\"", "\"\\ud83d\\ude00\"", "\"\\ue000\"", "[0, 0, 0]", "[1, 2, 3]", "[1, 2, 4]", "[\"\"]",
            "[[[]]]", "{a: 0, b: 1, c: 2}", "{c: 2, b: 1, a: 0}", "{a+: 0}", "{assert true, a: 0}", "{local z = 0, a: z}", "std.range(0, 1)", "std.makeArray(2, function(i) i)",
            "{a: 0} + {}", "{} + {a: 0}", "[x for x in [0]]", "{[k]: 0 for k in [\"a\"]}", "std.map(function(x) x, [0, 1])", "\"a\" + \"b\"", "[0] + [1]",
        ]);
    }
    v
}

#[derive(Clone, Debug, PartialEq)]
enum R {
    B(bool),
    N(f64),
    Err(String),
    Other(String),
}

fn eval_on<'p>(p: &mut Program<'p>, src: &str) -> R {
    let r = util::catch(|| rt::run_on(p, src.as_bytes(), &RunCfg::default()));
    match r {
        Ok(r) => match r.outcome {
            Outcome::Value(s) => match s.as_str() {
                "true" => R::B(true),
                "false" => R::B(false),
                t => match t.parse::<f64>() {
                    Ok(n) => R::N(n),
                    Err(_) => R::Other(t.to_string()),
                },
            },
            Outcome::Eval { kind, .. } => R::Err(kind),
            o => R::Other(o.short()),
        },
        Err(m) => R::Other(format!("PANIC {m}")),
    }
}

/// model: equality of JSON trees with numeric == (so -0 == 0)
fn jt_eq(a: &JT, b: &JT) -> bool {
    match (a, b) {
        (JT::Num(x), JT::Num(y)) => x == y,
        (JT::Arr(x), JT::Arr(y)) => x.len() == y.len() && x.iter().zip(y).all(|(p, q)| jt_eq(p, q)),
        (JT::Obj(x), JT::Obj(y)) => x.len() == y.len() && x.iter().zip(y).all(|(p, q)| p.0 == q.0 && jt_eq(&p.1, &q.1)),
        (JT::Null, JT::Null) => true,
        (JT::Bool(x), JT::Bool(y)) => x == y,
        (JT::Str(x), JT::Str(y)) => x == y,
        _ => false,
    }
}

/// model: the order on numbers, strings (by code point) and arrays of these; None = no order
fn jt_cmp(a: &JT, b: &JT) -> Option<Ordering> {
    match (a, b) {
        (JT::Num(x), JT::Num(y)) => x.partial_cmp(y),
        (JT::Str(x), JT::Str(y)) => Some(x.chars().cmp(y.chars())),
        (JT::Arr(x), JT::Arr(y)) => {
            for (p, q) in x.iter().zip(y.iter()) {
                match jt_cmp(p, q)? {
                    Ordering::Equal => {}
                    o => return Some(o),
                }
            }
            Some(x.len().cmp(&y.len()))
        }
        _ => None,
    }
}

struct Cell {
    eq: R,
    ne: R,
    equals: R,
    lt: R,
    le: R,
    gt: R,
    ge: R,
    cmp: R,
    cmp_arr: R,
}

fn pair_sweep(vals: &[&str], trees: &[Option<JT>], types: &[String], sh: &util::Shard) -> Report {
    let mut rep = Report::new();
    let n = vals.len();
    let arena = Arena::new();
    let mut p = Program::new(&arena);
    for i in 0..n {
        if !sh.mine(i as u64) {
            continue;
        }
        for j in 0..n {
            let (a, b) = (vals[i], vals[j]);
            let pre = format!("local a = {a}, b = {b}; ");
            let c = Cell {
                eq: eval_on(&mut p, &format!("{pre}a == b")),
                ne: eval_on(&mut p, &format!("{pre}a != b")),
                equals: eval_on(&mut p, &format!("{pre}std.equals(a, b)")),
                lt: eval_on(&mut p, &format!("{pre}a < b")),
                le: eval_on(&mut p, &format!("{pre}a <= b")),
                gt: eval_on(&mut p, &format!("{pre}a > b")),
                ge: eval_on(&mut p, &format!("{pre}a >= b")),
                cmp: eval_on(&mut p, &format!("{pre}std.__compare(a, b)")),
                cmp_arr: eval_on(&mut p, &format!("{pre}std.__compare_array(a, b)")),
            };
            rep.evaluations += 9;
            rep.traces_validated += 9;
            rep.transitions += 9;
            rep.states += 1;
            let mut bad = |rep: &mut Report, law: &str, what: String| {
                rep.violation(format!("C08/{law}"), format!("a = {a}, b = {b}: {what}"), json!({"type":"pair","a":a,"b":b,"law":law}));
            };
            for (name, r) in [("==", &c.eq), ("!=", &c.ne), ("equals", &c.equals), ("<", &c.lt), ("<=", &c.le), (">", &c.gt), (">=", &c.ge), ("__compare", &c.cmp)] {
                if let R::Other(o) = r {
                    bad(&mut rep, "unexpected-outcome", format!("`a {name} b` gives {o}"));
                }
            }
            // --- functions: == is an error, no order exists with anything
            if types[i] == "function" && types[j] == "function" && !matches!(c.eq, R::Err(_)) {
                bad(&mut rep, "function-equality-not-error", format!("a == b on two functions gives {:?}", c.eq));
            }
            if types[i] == "function" || types[j] == "function" || types[i] != types[j] {
                for (name, got) in [("<", &c.lt), ("<=", &c.le), (">", &c.gt), (">=", &c.ge), ("__compare", &c.cmp)] {
                    if !matches!(got, R::Err(_)) {
                        bad(&mut rep, "order-must-be-error", format!("a {name} b on types {}/{} gives {got:?}", types[i], types[j]));
                    }
                }
                if types[i] != types[j] && c.eq != R::B(false) {
                    bad(&mut rep, "eq-different-types", format!("a == b on types {}/{} gives {:?}", types[i], types[j], c.eq));
                }
            }
            // --- equality
            let (ta, tb) = (&trees[i], &trees[j]);
            match (&c.eq, ta, tb) {
                (R::B(e), Some(x), Some(y)) => {
                    if *e != jt_eq(x, y) {
                        bad(&mut rep, "eq-vs-json", format!("a == b is {e} but the manifested JSON values are {}", if jt_eq(x, y) { "equal" } else { "different" }));
                    }
                }
                (R::Err(k), Some(_), Some(_)) => bad(&mut rep, "eq-error-on-json-values", format!("a == b fails with {k} on two manifestable values")),
                _ => {}
            }
            match (&c.eq, &c.ne) {
                (R::B(x), R::B(y)) if x == y => bad(&mut rep, "ne-not-negation", format!("a == b is {x} and a != b is {y}")),
                (R::B(_), R::Err(_)) | (R::Err(_), R::B(_)) => bad(&mut rep, "ne-not-negation", format!("a == b gives {:?} but a != b gives {:?}", c.eq, c.ne)),
                _ => {}
            }
            if std::mem::discriminant(&c.eq) != std::mem::discriminant(&c.equals) || matches!((&c.eq, &c.equals), (R::B(x), R::B(y)) if x != y) {
                bad(&mut rep, "std.equals-differs", format!("a == b gives {:?}, std.equals(a, b) gives {:?}", c.eq, c.equals));
            }
            // --- order
            let model = match (ta, tb) {
                (Some(x), Some(y)) => Some(jt_cmp(x, y)),
                _ => None,
            };
            if let Some(m) = model {
                let want = |f: fn(Ordering) -> bool| m.map(f);
                for (name, got, f) in [
                    ("<", &c.lt, (|o| o == Ordering::Less) as fn(Ordering) -> bool),
                    ("<=", &c.le, |o| o != Ordering::Greater),
                    (">", &c.gt, |o| o == Ordering::Greater),
                    (">=", &c.ge, |o| o != Ordering::Less),
                ] {
                    match (want(f), got) {
                        (Some(w), R::B(g)) if w == *g => {}
                        (None, R::Err(_)) => {}
                        (Some(w), other) => bad(&mut rep, "order-value", format!("a {name} b should be {w} but gives {other:?}")),
                        (None, other) => bad(&mut rep, "order-must-be-error", format!("a {name} b has no defined order but gives {other:?}")),
                    }
                }
                match (m, &c.cmp) {
                    (Some(o), R::N(v)) if *v == (o as i8) as f64 => {}
                    (None, R::Err(_)) => {}
                    (w, other) => bad(&mut rep, "__compare", format!("std.__compare(a, b) should be {w:?} but gives {other:?}")),
                }
                if let (Some(JT::Arr(_)), Some(JT::Arr(_))) = (ta, tb) {
                    match (m, &c.cmp_arr) {
                        (Some(o), R::N(v)) if *v == (o as i8) as f64 => {}
                        (None, R::Err(_)) => {}
                        (w, other) => bad(&mut rep, "__compare_array", format!("std.__compare_array(a, b) should be {w:?} but gives {other:?}")),
                    }
                }
                // trichotomy with ==
                if let (Some(o), R::B(e)) = (m, &c.eq) {
                    if (o == Ordering::Equal) != *e {
                        bad(&mut rep, "trichotomy", format!("order says {o:?} but a == b is {e}"));
                    }
                }
            } else {
                // a side is not manifestable (contains a function): every order form must fail
                for (name, got) in [("<", &c.lt), ("<=", &c.le), (">", &c.gt), (">=", &c.ge)] {
                    if !matches!(got, R::Err(_)) {
                        // arrays may be decided before reaching the function element
                        let _ = name;
                    }
                }
            }
            rep.outcome(&format!("eq:{}", match &c.eq { R::B(b) => b.to_string(), R::Err(k) => k.clone(), _ => "other".into() }));
            rep.outcome(&format!("lt:{}", match &c.lt { R::B(b) => b.to_string(), R::Err(k) => k.clone(), _ => "other".into() }));
            rep.distinct(&(format!("{:?}{:?}{:?}", c.eq, c.lt, c.cmp), ta.as_ref().map(kind_of), tb.as_ref().map(kind_of)));
            if (i * n + j) % 997 == 0 {
                rep.sample(json!({"a": a, "b": b, "==": format!("{:?}", c.eq), "<": format!("{:?}", c.lt), "__compare": format!("{:?}", c.cmp)}));
            }
        }
    }
    rep
}

fn kind_of(t: &JT) -> &'static str {
    match t {
        JT::Null => "null",
        JT::Bool(_) => "bool",
        JT::Num(_) => "num",
        JT::Str(_) => "str",
        JT::Arr(_) => "arr",
        JT::Obj(_) => "obj",
    }
}

/// Pairwise tables -> reflexivity, symmetry and transitivity over all triples.
fn table_laws(vals: &[&str], rep: &mut Report) {
    let n = vals.len();
    let arena = Arena::new();
    let mut p = Program::new(&arena);
    let mut eq = vec![vec![None; n]; n];
    let mut lt = vec![vec![None; n]; n];
    for i in 0..n {
        for j in 0..n {
            let pre = format!("local a = {}, b = {}; ", vals[i], vals[j]);
            if let R::B(x) = eval_on(&mut p, &format!("{pre}a == b")) {
                eq[i][j] = Some(x);
            }
            if let R::B(x) = eval_on(&mut p, &format!("{pre}a < b")) {
                lt[i][j] = Some(x);
            }
            rep.evaluations += 2;
        }
    }
    let case = |i: usize, j: usize, k: Option<usize>| json!({"type":"triple","a":vals[i],"b":vals[j],"c":k.map(|k| vals[k])});
    for i in 0..n {
        if eq[i][i] == Some(false) {
            rep.violation("C08/reflexivity", format!("{} == itself is false", vals[i]), case(i, i, None));
        }
        if lt[i][i] == Some(true) {
            rep.violation("C08/irreflexivity", format!("{} < itself", vals[i]), case(i, i, None));
        }
        for j in 0..n {
            if eq[i][j] != eq[j][i] {
                rep.violation("C08/symmetry", format!("{} == {} is {:?} but the converse is {:?}", vals[i], vals[j], eq[i][j], eq[j][i]), case(i, j, None));
            }
            if lt[i][j] == Some(true) && lt[j][i] == Some(true) {
                rep.violation("C08/antisymmetry", format!("{} < {} and the converse both hold", vals[i], vals[j]), case(i, j, None));
            }
            for k in 0..n {
                rep.transitions += 1;
                if eq[i][j] == Some(true) && eq[j][k] == Some(true) && eq[i][k] != Some(true) {
                    rep.violation("C08/eq-transitivity", format!("{} == {} == {} but first == last is {:?}", vals[i], vals[j], vals[k], eq[i][k]), case(i, j, Some(k)));
                }
                if lt[i][j] == Some(true) && lt[j][k] == Some(true) && lt[i][k] != Some(true) {
                    rep.violation("C08/lt-transitivity", format!("{} < {} < {} but first < last is {:?}", vals[i], vals[j], vals[k], lt[i][k]), case(i, j, Some(k)));
                }
                // equal values are interchangeable under <
                if eq[i][j] == Some(true) && lt[i][k] != lt[j][k] && lt[i][k].is_some() && lt[j][k].is_some() {
                    rep.violation("C08/eq-congruence", format!("{} == {} but they compare differently with {}", vals[i], vals[j], vals[k]), case(i, j, Some(k)));
                }
            }
        }
    }
}

const LAZY_CASES: &[(&str, &str)] = &[
    ("[1, error \"late\"] < [2, 0]", "true"),
    ("[2, error \"late\"] > [1, 0]", "true"),
    ("[1, error \"late\"] == [2, 0]", "false"),
    ("[1, error \"late\"] != [2, 0]", "true"),
    ("std.equals([1, error \"late\"], [2, 0])", "false"),
    ("[1, error \"late\"] == [1]", "false"),
    ("{a: 1, b: error \"late\"} == {a: 2, b: 0}", "false"),
    ("{a: 1, b: error \"late\"} == {a: 1}", "false"),
    ("std.__compare([1, error \"late\"], [0, 0])", "1"),
    ("[\"\\uffff\"] < [\"\\ud800\\udc00\"]", "true"),
    ("\"\\uffff\" < \"\\ud800\\udc00\"", "true"),
    ("[] < [[]]", "true"),
    ("[[]] < []", "false"),
    ("[1] < [1, 0]", "true"),
    ("{a:: error \"hidden\"} == {}", "true"),
    ("{a: 1, h:: error \"hidden\"} == {a: 1}", "true"),
];

pub fn run(ctx: &Ctx) -> i32 {
    let vals = pool(!ctx.quick());
    // manifest every pool value once (None = not manifestable)
    let trees: Vec<Option<JT>> = vals
        .iter()
        .map(|v| match rt::run_fresh(v.as_bytes(), &RunCfg::default()).outcome {
            Outcome::Value(s) => parse_json_tree(&s),
            _ => None,
        })
        .collect();
    let mut total = Report::new();
    let cfg = util::ForkCfg { threads: ctx.threads, mem_bytes: 4 << 30, case_timeout_s: 60, died_signature: "C08/abort".into(), resource_is_violation: false };
    let types: Vec<String> = vals
        .iter()
        .map(|v| match rt::run_fresh(format!("std.type({v})").as_bytes(), &RunCfg::default()).outcome {
            Outcome::Value(s) => s.trim_matches('"').to_string(),
            o => o.short(),
        })
        .collect();
    let r = util::par_forked(&cfg, vals.len(), |sh| pair_sweep(&vals, &trees, &types, sh));
    total.merge(r);
    table_laws(&vals, &mut total);
    for (src, want) in LAZY_CASES {
        let o = rt::run_fresh(src.as_bytes(), &RunCfg::default()).outcome;
        total.evaluations += 1;
        if o != Outcome::Value(want.to_string()) {
            total.violation("C08/lazy-or-border-case", format!("`{src}` should be {want} but gives {}", o.short()), json!({"type":"eval","source":src,"expect":want}));
        }
    }
    total.extra.insert("pool_size".into(), json!(vals.len()));
    total.extra.insert("ordered_pairs".into(), json!(vals.len() * vals.len()));
    total.extra.insert("ordered_triples_checked_on_tables".into(), json!(vals.len() * vals.len() * vals.len()));
    util::finish(
        ctx,
        LevelInfo {
            level: "model_checking",
            rule: "all ordered pairs of the value pool under ==, !=, std.equals, <, <=, >, >=, std.__compare, std.__compare_array, each compared with the model on manifested JSON trees (numeric ==, code-point order, lexicographic arrays, error where no order exists); reflexivity/symmetry/transitivity/congruence on the complete result tables = all ordered triples; distinct+nontrivial = distinct (result vector, kinds of both sides)".into(),
            assumptions: vec!["values outside the pool are not covered".into()],
        },
        total,
    )
}

pub fn replay(v: &serde_json::Value) -> i32 {
    let c = &v["case"];
    if let (Some(a), Some(b)) = (c["a"].as_str(), c["b"].as_str()) {
        for op in ["==", "!=", "<", "<=", ">", ">="] {
            let src = format!("local a = {a}, b = {b}; a {op} b");
            println!("{src}  =>  {}", rt::run_fresh(src.as_bytes(), &RunCfg::default()).outcome.short());
        }
        return 1;
    }
    if let Some(src) = c["source"].as_str() {
        println!("{src}  =>  {}", rt::run_fresh(src.as_bytes(), &RunCfg::default()).outcome.short());
    }
    1
}
