//! Program corpora: exhaustive, duplicate-free, size-ordered enumeration of closed programs
//! over a production alphabet (DESIGN §3.4).
use crate::syntax::*;
use std::collections::HashMap;
use std::rc::Rc;

#[derive(Clone, Copy, Debug, PartialEq, Eq, Hash)]
pub struct Profile {
    pub name: &'static str,
    pub arith: bool,
    pub logic: bool,
    pub cmp: bool,
    pub bitwise: bool,
    pub strings: bool,
    pub arrays: bool,
    pub objects: bool,
    pub objects_deep: bool,
    pub functions: bool,
    pub comps: bool,
    pub lazy: bool,
    pub slices: bool,
    pub stdfns: bool,
    pub trace: bool,
}

const NONE: Profile = Profile {
    name: "none",
    arith: false,
    logic: false,
    cmp: false,
    bitwise: false,
    strings: false,
    arrays: false,
    objects: false,
    objects_deep: false,
    functions: false,
    comps: false,
    lazy: false,
    slices: false,
    stdfns: false,
    trace: false,
};

pub const FULL: Profile = Profile {
    name: "full",
    arith: true,
    logic: true,
    cmp: true,
    bitwise: true,
    strings: true,
    arrays: true,
    objects: true,
    objects_deep: true,
    functions: true,
    comps: true,
    lazy: true,
    slices: true,
    stdfns: true,
    trace: false,
};
pub const OBJECTS: Profile = Profile {
    name: "objects",
    objects: true,
    objects_deep: true,
    lazy: true,
    ..NONE
};
pub const FUNCTIONS: Profile = Profile {
    name: "functions",
    functions: true,
    arith: true,
    arrays: true,
    lazy: true,
    ..NONE
};
pub const COMPS: Profile = Profile {
    name: "comprehensions",
    comps: true,
    arrays: true,
    objects: true,
    cmp: true,
    ..NONE
};
pub const LAZY: Profile = Profile {
    name: "lazy",
    lazy: true,
    functions: true,
    arrays: true,
    objects: true,
    trace: true,
    ..NONE
};
pub const ARITH: Profile = Profile {
    name: "arith",
    arith: true,
    bitwise: true,
    logic: true,
    cmp: true,
    strings: true,
    ..NONE
};
pub const COMPARE: Profile = Profile {
    name: "compare",
    cmp: true,
    arrays: true,
    strings: true,
    objects: true,
    ..NONE
};
pub const SLICES: Profile = Profile {
    name: "slices",
    slices: true,
    arrays: true,
    strings: true,
    ..NONE
};

pub fn profile_by_name(n: &str) -> Option<Profile> {
    [FULL, OBJECTS, FUNCTIONS, COMPS, LAZY, ARITH, COMPARE, SLICES]
        .into_iter()
        .find(|p| p.name == n)
}

/// Scope of a hole: which of the variables x, y are bound, and whether we are inside an object.
#[derive(Clone, Copy, Debug, PartialEq, Eq, Hash)]
pub struct Scope {
    pub x: bool,
    pub y: bool,
    pub in_obj: bool,
}

pub const ROOT: Scope = Scope {
    x: false,
    y: false,
    in_obj: false,
};

impl Scope {
    fn fresh(self) -> (&'static str, Scope) {
        if !self.x {
            ("x", Scope { x: true, ..self })
        } else if !self.y {
            ("y", Scope { y: true, ..self })
        } else {
            // both bound: shadow x
            ("x", self)
        }
    }
    fn obj(self) -> Scope {
        Scope {
            in_obj: true,
            ..self
        }
    }
}

#[derive(Clone)]
pub struct Gen {
    pub profile: Profile,
    memo: HashMap<(usize, Scope), Rc<Vec<E>>>,
}

fn parts2(n: usize) -> Vec<(usize, usize)> {
    (1..n).map(|i| (i, n - i)).collect()
}
fn parts3(n: usize) -> Vec<(usize, usize, usize)> {
    let mut v = Vec::new();
    for i in 1..n {
        for j in 1..(n - i) {
            v.push((i, j, n - i - j));
        }
    }
    v
}

fn field(name: &str, vis: Vis, plus: bool, body: E) -> Member {
    Member::Field {
        name: FieldName::Id(name.into()),
        plus,
        vis,
        params: None,
        body,
    }
}
fn stdcall(name: &str, args: Vec<E>) -> E {
    E::Call(
        b(E::Field(b(var("std")), name.into())),
        args.into_iter().map(Arg::Pos).collect(),
        false,
    )
}
fn param(name: &str, default: Option<E>) -> Param {
    Param {
        name: name.into(),
        default,
    }
}
fn bind(name: &str, body: E) -> Bind {
    Bind {
        name: name.into(),
        params: None,
        body,
    }
}

impl Gen {
    pub fn new(profile: Profile) -> Self {
        Gen {
            profile,
            memo: HashMap::new(),
        }
    }

    pub fn all(&mut self, n: usize, sc: Scope) -> Rc<Vec<E>> {
        if let Some(v) = self.memo.get(&(n, sc)) {
            return v.clone();
        }
        let mut out = Vec::new();
        self.emit(n, sc, &mut |mk| out.push(mk()));
        let rc = Rc::new(out);
        self.memo.insert((n, sc), rc.clone());
        rc
    }

    /// Streams every program with exactly `n` nodes (sub-terms come from memoised lists).
    pub fn for_each(&mut self, n: usize, sc: Scope, f: &mut dyn FnMut(E)) {
        self.emit(n, sc, &mut |mk| f(mk()));
    }

    /// Like `for_each`, but the term is only built when the consumer asks for it.
    pub fn for_each_lazy(&mut self, n: usize, sc: Scope, f: &mut dyn FnMut(&dyn Fn() -> E)) {
        self.emit(n, sc, f);
    }

    pub fn count(&mut self, n: usize, sc: Scope) -> u64 {
        let mut c = 0u64;
        self.emit(n, sc, &mut |_mk| c += 1);
        c
    }

    fn leaves(&self, sc: Scope, out: &mut dyn FnMut(&dyn Fn() -> E)) {
        let p = self.profile;
        out(&|| E::Null);
        out(&|| E::True);
        if p.logic || p.cmp || p.lazy {
            out(&|| E::False);
        }
        out(&|| num(0));
        out(&|| num(1));
        if p.arith || p.slices || p.bitwise {
            out(&|| num(2));
        }
        out(&|| strlit("a"));
        if p.strings || p.objects || p.cmp {
            out(&|| strlit("b"));
        }
        if p.strings {
            out(&|| strlit("é😀"));
        }
        if sc.x {
            out(&|| var("x"));
        }
        if sc.y {
            out(&|| var("y"));
        }
        if sc.in_obj {
            out(&|| E::SelfE);
            out(&|| E::Dollar);
            out(&|| E::SuperField("a".into()));
        }
        if p.arrays {
            out(&|| E::Array(vec![]));
        }
        if p.objects {
            out(&|| E::Object(vec![]));
        }
    }

    fn emit(&mut self, n: usize, sc: Scope, out: &mut dyn FnMut(&dyn Fn() -> E)) {
        let p = self.profile;
        if n == 0 {
            return;
        }
        if n == 1 {
            self.leaves(sc, out);
            return;
        }
        let (fresh, fsc) = sc.fresh();
        // ---------------- one child
        {
            let cs = self.all(n - 1, sc);
            for c in cs.iter() {
                if p.objects {
                    out(&|| E::Field(b(c.clone()), "a".into()));
                    if p.stdfns || p.objects_deep {
                        out(&|| stdcall("objectFields", vec![c.clone()]));
                    }
                    if p.objects_deep {
                        out(&|| stdcall("objectFieldsAll", vec![c.clone()]));
                        out(&|| E::Field(b(c.clone()), "b".into()));
                    }
                }
                if p.stdfns || p.objects_deep || p.strings {
                    out(&|| stdcall("length", vec![c.clone()]));
                }
                if p.stdfns {
                    out(&|| stdcall("type", vec![c.clone()]));
                    out(&|| stdcall("toString", vec![c.clone()]));
                }
                if p.lazy {
                    out(&|| E::Error(b(c.clone())));
                }
                if p.trace {
                    out(&|| stdcall("trace", vec![strlit("t"), c.clone()]));
                }
                if p.arith {
                    out(&|| E::Un(UnOp::Neg, b(c.clone())));
                    out(&|| E::Un(UnOp::Pos, b(c.clone())));
                }
                if p.logic {
                    out(&|| E::Un(UnOp::Not, b(c.clone())));
                }
                if p.bitwise {
                    out(&|| E::Un(UnOp::BitNot, b(c.clone())));
                }
                if p.arrays {
                    out(&|| E::Array(vec![c.clone()]));
                }
                if sc.in_obj && p.objects {
                    out(&|| E::InSuper(b(c.clone())));
                    out(&|| E::SuperIndex(b(c.clone())));
                }
                if p.functions {
                    out(&|| E::Call(b(c.clone()), vec![], false));
                    out(&|| E::Func(vec![], b(c.clone())));
                }
                if p.slices {
                    out(&|| E::Slice(b(c.clone()), None, None, None));
                }
            }
            // object literals with one field: children live in object scope
            if p.objects {
                let cs = self.all(n - 1, sc.obj());
                for c in cs.iter() {
                    for vis in [Vis::Default, Vis::Hidden, Vis::Forced] {
                        for plus in [false, true] {
                            out(&|| E::Object(vec![field("a", vis, plus, c.clone())]));
                        }
                    }
                    out(&|| E::Object(vec![field("b", Vis::Default, false, c.clone())]));
                    out(&|| E::Object(vec![Member::Assert(c.clone(), None)]));
                }
                if p.functions {
                    // method: parameter in scope of the body
                    let cs = self.all(n - 1, fsc.obj());
                    for c in cs.iter() {
                        out(&|| E::Object(vec![Member::Field {
                            name: FieldName::Id("a".into()),
                            plus: false,
                            vis: Vis::Default,
                            params: Some(vec![param(fresh, None)]),
                            body: c.clone(),
                        }]));
                    }
                }
            }
            if p.functions {
                let cs = self.all(n - 1, fsc);
                for c in cs.iter() {
                    out(&|| E::Func(vec![param(fresh, None)], b(c.clone())));
                }
            }
        }
        if n < 3 {
            return;
        }
        // ---------------- two children
        for (i, j) in parts2(n - 1) {
            let (as_, bs) = (self.all(i, sc), self.all(j, sc));
            for a in as_.iter() {
                for c in bs.iter() {
                    let (a, c) = (a.clone(), c.clone());
                    let mut bin = |op: BinOp| out(&|| E::Bin(op, b(a.clone()), b(c.clone())));
                    bin(BinOp::Add);
                    if p.arith {
                        bin(BinOp::Sub);
                        bin(BinOp::Mul);
                        bin(BinOp::Div);
                        bin(BinOp::Rem);
                    }
                    if p.cmp || p.objects || p.functions {
                        bin(BinOp::Eq);
                    }
                    if p.cmp {
                        bin(BinOp::Ne);
                        bin(BinOp::Lt);
                        bin(BinOp::Le);
                        bin(BinOp::Gt);
                        bin(BinOp::Ge);
                    } else if p.functions {
                        bin(BinOp::Lt);
                    }
                    if p.objects {
                        bin(BinOp::In);
                    }
                    if p.logic || p.functions {
                        bin(BinOp::And);
                    }
                    if p.logic {
                        bin(BinOp::Or);
                    }
                    if p.bitwise {
                        bin(BinOp::BitAnd);
                        bin(BinOp::BitOr);
                        bin(BinOp::BitXor);
                        bin(BinOp::Shl);
                        bin(BinOp::Shr);
                    }
                    if p.objects || p.arrays || p.strings || p.functions {
                        out(&|| E::Index(b(a.clone()), b(c.clone())));
                    }
                    if p.functions {
                        out(&|| E::Call(b(a.clone()), vec![Arg::Pos(c.clone())], false));
                        out(&|| E::Call(b(a.clone()), vec![Arg::Named("x".into(), c.clone())], false));
                    }
                    if p.functions || p.lazy || p.logic {
                        out(&|| E::If(b(a.clone()), b(c.clone()), None));
                    }
                    if p.arrays {
                        out(&|| E::Array(vec![a.clone(), c.clone()]));
                    }
                    if p.lazy {
                        out(&|| E::Assert(b(a.clone()), None, b(c.clone())));
                    }
                    if p.slices {
                        out(&|| E::Slice(b(a.clone()), Some(b(c.clone())), None, None));
                        out(&|| E::Slice(b(a.clone()), None, Some(b(c.clone())), None));
                        out(&|| E::Slice(b(a.clone()), None, None, Some(b(c.clone()))));
                    }
                    if p.objects_deep && p.stdfns {
                        out(&|| stdcall("objectHas", vec![a.clone(), c.clone()]));
                        out(&|| stdcall("objectHasAll", vec![a.clone(), c.clone()]));
                    }
                }
            }
            // local x = a; c   (both see x)
            {
                let (as_, bs) = (self.all(i, fsc), self.all(j, fsc));
                for a in as_.iter() {
                    for c in bs.iter() {
                        out(&|| E::Local(vec![bind(fresh, a.clone())], b(c.clone())));
                        if p.functions {
                            // default parameter seeing itself / used by body
                            out(&|| E::Func(vec![param(fresh, Some(a.clone()))], b(c.clone())));
                        }
                    }
                }
            }
            if p.functions {
                // local f(x) = a; c    with f bound as `y`-less name: reuse fresh as function name
                let (fname, nsc) = sc.fresh();
                let (pname, psc) = nsc.fresh();
                let (as_, bs) = (self.all(i, psc), self.all(j, nsc));
                for a in as_.iter() {
                    for c in bs.iter() {
                        out(&|| E::Local(
                            vec![Bind {
                                name: fname.into(),
                                params: Some(vec![param(pname, None)]),
                                body: a.clone(),
                            }],
                            b(c.clone()),
                        ));
                    }
                }
            }
            if p.objects {
                let osc = sc.obj();
                let (as_, bs) = (self.all(i, osc), self.all(j, osc));
                for a in as_.iter() {
                    for c in bs.iter() {
                        out(&|| E::Object(vec![
                            field("a", Vis::Default, false, a.clone()),
                            field("b", Vis::Default, false, c.clone()),
                        ]));
                        out(&|| E::Object(vec![
                            field("a", Vis::Hidden, false, a.clone()),
                            field("b", Vis::Default, true, c.clone()),
                        ]));
                        out(&|| E::Object(vec![
                            Member::Assert(a.clone(), None),
                            field("a", Vis::Default, false, c.clone()),
                        ]));
                        if p.objects_deep {
                            out(&|| E::Object(vec![Member::Assert(a.clone(), Some(c.clone()))]));
                        }
                    }
                }
                let (lname, lsc) = sc.obj().fresh();
                let (as_, bs) = (self.all(i, lsc), self.all(j, lsc));
                for a in as_.iter() {
                    for c in bs.iter() {
                        out(&|| E::Object(vec![
                            Member::Local(bind(lname, a.clone())),
                            field("a", Vis::Default, false, c.clone()),
                        ]));
                    }
                }
                // computed name: outer scope for the name, object scope for the body
                let (as_, bs) = (self.all(i, sc), self.all(j, sc.obj()));
                for a in as_.iter() {
                    for c in bs.iter() {
                        out(&|| E::Object(vec![Member::Field {
                            name: FieldName::Expr(a.clone()),
                            plus: false,
                            vis: Vis::Default,
                            params: None,
                            body: c.clone(),
                        }]));
                    }
                }
                // extension sugar  a { a+: c }
                if p.objects_deep {
                    let (as_, bs) = (self.all(i, sc), self.all(j, sc.obj()));
                    for a in as_.iter() {
                        for c in bs.iter() {
                            out(&|| E::ObjExt(
                                b(a.clone()),
                                b(E::Object(vec![field("a", Vis::Default, true, c.clone())])),
                            ));
                        }
                    }
                }
            }
            if p.comps {
                // [c for x in a]
                let (as_, bs) = (self.all(i, sc), self.all(j, fsc));
                for a in as_.iter() {
                    for c in bs.iter() {
                        out(&|| E::ArrComp(b(c.clone()), vec![Spec::For(fresh.into(), a.clone())]));
                    }
                }
                if p.objects {
                    // {[x]: c for x in a}
                    let (as_, bs) = (self.all(i, sc), self.all(j, fsc.obj()));
                    for a in as_.iter() {
                        for c in bs.iter() {
                            out(&|| E::ObjComp {
                                locals1: vec![],
                                name: b(var(fresh)),
                                plus: false,
                                body: b(c.clone()),
                                locals2: vec![],
                                specs: vec![Spec::For(fresh.into(), a.clone())],
                            });
                        }
                    }
                }
            }
        }
        if n < 4 {
            return;
        }
        // ---------------- three children
        for (i, j, k) in parts3(n - 1) {
            if p.functions || p.lazy || p.logic {
                let (as_, bs, cs) = (self.all(i, sc), self.all(j, sc), self.all(k, sc));
                for a in as_.iter() {
                    for c in bs.iter() {
                        for d in cs.iter() {
                            out(&|| E::If(b(a.clone()), b(c.clone()), Some(b(d.clone()))));
                        }
                    }
                }
            }
            if p.functions {
                let (as_, bs, cs) = (self.all(i, sc), self.all(j, sc), self.all(k, sc));
                for a in as_.iter() {
                    for c in bs.iter() {
                        for d in cs.iter() {
                            out(&|| E::Call(
                                b(a.clone()),
                                vec![Arg::Pos(c.clone()), Arg::Pos(d.clone())],
                                false,
                            ));
                            out(&|| E::Call(
                                b(a.clone()),
                                vec![Arg::Pos(c.clone()), Arg::Named("y".into(), d.clone())],
                                false,
                            ));
                        }
                    }
                }
                // function(x, y = a) c   applied shape is left to the call production
                let (n1, s1) = sc.fresh();
                let (n2, s2) = s1.fresh();
                if n1 != n2 {
                    let (as_, bs) = (self.all(i + j - 1, s2), self.all(k, s2));
                    if i == 1 {
                        for a in as_.iter() {
                            for c in bs.iter() {
                                out(&|| E::Func(
                                    vec![param(n1, None), param(n2, Some(a.clone()))],
                                    b(c.clone()),
                                ));
                            }
                        }
                    }
                }
            }
            if p.lazy {
                let (as_, bs, cs) = (self.all(i, sc), self.all(j, sc), self.all(k, sc));
                for a in as_.iter() {
                    for c in bs.iter() {
                        for d in cs.iter() {
                            out(&|| E::Assert(b(a.clone()), Some(b(c.clone())), b(d.clone())));
                        }
                    }
                }
            }
            if p.slices {
                let (as_, bs, cs) = (self.all(i, sc), self.all(j, sc), self.all(k, sc));
                for a in as_.iter() {
                    for c in bs.iter() {
                        for d in cs.iter() {
                            out(&|| E::Slice(b(a.clone()), Some(b(c.clone())), Some(b(d.clone())), None));
                            out(&|| E::Slice(b(a.clone()), Some(b(c.clone())), None, Some(b(d.clone()))));
                        }
                    }
                }
            }
            {
                // local x = a, y = c; d   (two mutually visible binds)
                let (n1, s1) = sc.fresh();
                let (n2, s2) = s1.fresh();
                if n1 != n2 && (p.lazy || p.functions) {
                    let (as_, bs, cs) = (self.all(i, s2), self.all(j, s2), self.all(k, s2));
                    for a in as_.iter() {
                        for c in bs.iter() {
                            for d in cs.iter() {
                                out(&|| E::Local(
                                    vec![bind(n1, a.clone()), bind(n2, c.clone())],
                                    b(d.clone()),
                                ));
                            }
                        }
                    }
                }
            }
            if p.comps {
                // [d for x in a if c]
                let (as_, bs, cs) = (self.all(i, sc), self.all(j, fsc), self.all(k, fsc));
                for a in as_.iter() {
                    for c in bs.iter() {
                        for d in cs.iter() {
                            out(&|| E::ArrComp(
                                b(d.clone()),
                                vec![Spec::For(fresh.into(), a.clone()), Spec::If(c.clone())],
                            ));
                        }
                    }
                }
                // [d for x in a for y in c]
                let (n2, s2) = fsc.fresh();
                if n2 != fresh {
                    let (as_, bs, cs) = (self.all(i, sc), self.all(j, fsc), self.all(k, s2));
                    for a in as_.iter() {
                        for c in bs.iter() {
                            for d in cs.iter() {
                                out(&|| E::ArrComp(
                                    b(d.clone()),
                                    vec![
                                        Spec::For(fresh.into(), a.clone()),
                                        Spec::For(n2.into(), c.clone()),
                                    ],
                                ));
                            }
                        }
                    }
                }
                if p.objects {
                    // {[c]: d for x in a}
                    let (as_, bs, cs) = (self.all(i, sc), self.all(j, fsc), self.all(k, fsc.obj()));
                    for a in as_.iter() {
                        for c in bs.iter() {
                            for d in cs.iter() {
                                out(&|| E::ObjComp {
                                    locals1: vec![],
                                    name: b(c.clone()),
                                    plus: false,
                                    body: b(d.clone()),
                                    locals2: vec![],
                                    specs: vec![Spec::For(fresh.into(), a.clone())],
                                });
                            }
                        }
                    }
                }
            }
            if p.objects_deep {
                let osc = sc.obj();
                let (as_, bs, cs) = (self.all(i, osc), self.all(j, osc), self.all(k, osc));
                for a in as_.iter() {
                    for c in bs.iter() {
                        for d in cs.iter() {
                            out(&|| E::Object(vec![
                                Member::Assert(a.clone(), Some(c.clone())),
                                field("a", Vis::Default, false, d.clone()),
                            ]));
                        }
                    }
                }
            }
        }
    }
}

/// Every program of exactly `n` nodes, streamed, restricted to shard `shard` of `nshards`
/// by running index.
pub fn for_each_sharded(
    profile: Profile,
    n: usize,
    shard: usize,
    nshards: usize,
    f: &mut dyn FnMut(u64, E),
) -> u64 {
    let mut g = warmed(profile, n);
    let mut idx = 0u64;
    g.for_each_lazy(n, ROOT, &mut |mk| {
        if (idx % nshards as u64) as usize == shard {
            f(idx, mk());
        }
        idx += 1;
    });
    idx
}

/// Generators whose memo tables were filled in the parent process before forking (children
/// inherit them copy-on-write instead of recomputing them per shard).
pub struct Warm(pub std::sync::Mutex<Vec<(Profile, usize, SendGen)>>);
pub struct SendGen(pub Gen);
// Safety: a `Gen` is only ever touched by one thread at a time (behind the mutex) and its Rc
// counts are process-local.
unsafe impl Send for SendGen {}

pub static WARM: Warm = Warm(std::sync::Mutex::new(Vec::new()));

/// Fills the memo tables needed to enumerate size `n` (call in the parent before forking).
pub fn warm(profile: Profile, n: usize) {
    let mut g = Gen::new(profile);
    if n > 1 {
        g.count(n, ROOT);
    }
    let mut w = WARM.0.lock().unwrap();
    w.retain(|(p, m, _)| !(*p == profile && *m == n));
    if w.len() > 2 {
        w.remove(0);
    }
    w.push((profile, n, SendGen(g)));
}

fn warmed(profile: Profile, n: usize) -> Gen {
    let w = WARM.0.lock().unwrap();
    match w.iter().find(|(p, m, _)| *p == profile && *m == n) {
        Some((_, _, g)) => g.0.clone(),
        None => Gen::new(profile),
    }
}
