//! C13 — imports resolve deterministically, load once and deliver exact content.
//! Enumeration of directory layouts x -J lists x spellings x import kinds on the real binary
//! against ref_import (importer's directory first, then -J right-most first, absolute paths
//! bypass the search), plus load-once, thisFile, cycles, content and fault cases.
use crate::cli::{self, RunOut, Stdout};
use crate::util::{self, Ctx, LevelInfo, Report};
use serde_json::{Value as J, json};

const DIRS: [&str; 4] = ["D0", "J1", "J2", "J3"];

fn jlists() -> Vec<Vec<usize>> {
    // all sequences of distinct J indexes (1..=3) of length 0..=3
    let mut v: Vec<Vec<usize>> = vec![vec![]];
    for a in 1..=3 {
        v.push(vec![a]);
        for b in 1..=3 {
            if b != a {
                v.push(vec![a, b]);
                for c in 1..=3 {
                    if c != a && c != b {
                        v.push(vec![a, b, c]);
                    }
                }
            }
        }
    }
    v
}

/// -J lists in which a directory occurs more than once (right-most occurrence decides): all
/// sequences of length 2..=3 with a repetition, and the length-4 ones over two directories
fn jlists_with_repeats() -> Vec<Vec<usize>> {
    let mut v = Vec::new();
    for a in 1..=3usize {
        for b in 1..=3usize {
            if a == b {
                v.push(vec![a, b]);
            }
            for c in 1..=3usize {
                if a == b || b == c || a == c {
                    v.push(vec![a, b, c]);
                }
                if a != b {
                    for d in [a, b] {
                        if c == a || c == b {
                            v.push(vec![a, b, c, d]);
                        }
                    }
                }
            }
        }
    }
    v.sort();
    v.dedup();
    v
}

fn setup(root: &str, present: u32) {
    let _ = std::fs::remove_dir_all(root);
    for (i, d) in DIRS.iter().enumerate() {
        std::fs::create_dir_all(format!("{root}/{d}/sub")).unwrap();
        if present & (1 << i) != 0 {
            std::fs::write(format!("{root}/{d}/x.libsonnet"), format!("{{ where: std.trace(\"loaded:x@{d}\", \"{d}\") }}")).unwrap();
        }
    }
}

/// the model: which directory's file is found
fn ref_import(present: u32, jlist: &[usize], spelling: &str) -> Option<usize> {
    if let Some(d) = spelling.strip_prefix("abs:") {
        let i = DIRS.iter().position(|x| *x == d).unwrap();
        return if present & (1 << i) != 0 { Some(i) } else { None };
    }
    let mut order = vec![0usize];
    order.extend(jlist.iter().rev());
    order.into_iter().find(|&i| present & (1 << i) != 0)
}

fn describe(o: &RunOut) -> String {
    format!("exit {:?} stdout {:?} stderr {:?}", o.code, util::truncate(&String::from_utf8_lossy(&o.stdout), 200), util::truncate(&String::from_utf8_lossy(&o.stderr), 300))
}

fn layout_sweep(sh: &util::Shard, quick: bool) -> Report {
    let mut rep = Report::new();
    let root = cli::scratch("c13");
    let jl = jlists();
    let jrep = jlists_with_repeats();
    let spellings: Vec<&str> = vec!["x.libsonnet", "./x.libsonnet", "sub/../x.libsonnet", "abs:D0", "abs:J2"];
    let kinds = ["import", "importstr", "importbin"];
    let mut idx = 0u64;
    for present in 0..16u32 {
        if !sh.mine(present as u64) {
            continue;
        }
        setup(&root, present);
        for (li, jlist) in jl.iter().chain(jrep.iter()).enumerate() {
            let repeated = li >= jl.len();
            for sp in &spellings {
                for kind in kinds {
                    idx += 1;
                    if repeated && (kind != "import" || *sp != "x.libsonnet") {
                        continue; // lists with repetitions: plain spelling, import only
                    }
                    if quick && kind != "import" && (idx % 3 != 0) {
                        continue;
                    }
                    let path = match sp.strip_prefix("abs:") {
                        Some(d) => format!("{root}/{d}/x.libsonnet"),
                        None => sp.to_string(),
                    };
                    let main = match kind {
                        "import" => format!("(import \"{path}\").where"),
                        "importstr" => format!("importstr \"{path}\""),
                        _ => format!("std.length(importbin \"{path}\")"),
                    };
                    std::fs::write(format!("{root}/D0/main.jsonnet"), &main).unwrap();
                    let mut args = vec![format!("{root}/D0/main.jsonnet")];
                    for j in jlist {
                        args.push("-J".into());
                        args.push(format!("{root}/{}", DIRS[*j]));
                    }
                    let o = cli::run(&args, None, Stdout::Capture, &[], None);
                    rep.evaluations += 1;
                    rep.states += 1;
                    rep.traces_validated += 1;
                    rep.transitions += 1;
                    let want = ref_import(present, jlist, sp);
                    let case = json!({"type":"import","present":present,"jlist":jlist,"spelling":sp,"kind":kind});
                    let what = format!("files in {:?}, -J {:?}, {kind} {sp:?}", (0..4).filter(|i| present & (1 << i) != 0).map(|i| DIRS[i]).collect::<Vec<_>>(), jlist.iter().map(|j| DIRS[*j]).collect::<Vec<_>>());
                    let stderr = String::from_utf8_lossy(&o.stderr).to_string();
                    if o.signal.is_some() || !matches!(o.code, Some(0 | 1)) || stderr.contains("panicked at") {
                        rep.violation("C13/crash", format!("{what}: {}", describe(&o)), case);
                        continue;
                    }
                    rep.outcome(if want.is_some() { "resolved" } else { "not-found" });
                    rep.distinct(&(present, jlist.len(), *sp, kind));
                    match want {
                        None => {
                            if o.code != Some(1) || !o.stdout.is_empty() {
                                rep.violation("C13/missing-file-not-an-error", format!("{what}: no candidate exists but {}", describe(&o)), case);
                            } else if !stderr.contains("main.jsonnet:1:") {
                                rep.violation("C13/error-not-at-import-site", format!("{what}: the diagnostic does not point at the import expression: {}", util::truncate(&stderr, 300)), case);
                            }
                        }
                        Some(i) => {
                            let d = DIRS[i];
                            let file_text = format!("{{ where: std.trace(\"loaded:x@{d}\", \"{d}\") }}");
                            let expect_out = match kind {
                                "import" => format!("\"{d}\"\n"),
                                "importstr" => format!("{}\n", serde_json::to_string(&file_text).unwrap()),
                                _ => format!("{}\n", file_text.len()),
                            };
                            if o.code != Some(0) || String::from_utf8_lossy(&o.stdout) != expect_out {
                                rep.violation("C13/wrong-file-resolved", format!("{what}: expected the file in {d} ({expect_out:?}) but {}", describe(&o)), case);
                            } else if kind == "import" && stderr.matches("TRACE:").count() != 1 {
                                rep.violation("C13/not-loaded-exactly-once", format!("{what}: {} trace lines", stderr.matches("TRACE:").count()), case);
                            }
                        }
                    }
                    if rep.evaluations % 97 == 1 {
                        rep.sample(json!({"layout": what, "expected_dir": want.map(|i| DIRS[i])}));
                    }
                }
            }
        }
    }
    let _ = std::fs::remove_dir_all(&root);
    rep
}

struct Special {
    what: &'static str,
    files: Vec<(&'static str, Vec<u8>)>,
    symlinks: Vec<(&'static str, &'static str)>,
    dirs: Vec<&'static str>,
    main: &'static str,
    jpaths: Vec<&'static str>,
    /// expected JSON on stdout (None = must fail with exit 1), expected number of TRACE lines
    want: Option<&'static str>,
    traces: Option<usize>,
    stderr_has: Option<&'static str>,
}

fn specials() -> Vec<Special> {
    let lib = b"{ v: std.trace(\"loaded:lib\", 1), file: std.thisFile }".to_vec();
    vec![
        Special { what: "several spellings load the file once", files: vec![("D0/x.libsonnet", lib.clone())], symlinks: vec![("D0/y.libsonnet", "x.libsonnet"), ("D0/ldir", "sub2")], dirs: vec!["D0/sub", "D0/sub2"], main: "[(import \"x.libsonnet\").v, (import \"./x.libsonnet\").v, (import \"sub/../x.libsonnet\").v, (import \"y.libsonnet\").v]", jpaths: vec![], want: Some("[1,1,1,1]"), traces: Some(1), stderr_has: None },
        Special { what: "same file through -J and through the importer's directory loads once", files: vec![("D0/x.libsonnet", lib.clone())], symlinks: vec![("J1", "D0")], dirs: vec![], main: "[(import \"x.libsonnet\").v, (import \"../J1/x.libsonnet\").v]", jpaths: vec![], want: Some("[1,1]"), traces: Some(1), stderr_has: None },
        Special { what: "a library's own directory wins over the importer's and other -J", files: vec![("J2/lib.libsonnet", b"(import \"x.libsonnet\").where".to_vec()), ("J2/x.libsonnet", b"{where: \"J2\"}".to_vec()), ("D0/x.libsonnet", b"{where: \"D0\"}".to_vec()), ("J1/x.libsonnet", b"{where: \"J1\"}".to_vec())], symlinks: vec![], dirs: vec![], main: "[import \"lib.libsonnet\", (import \"x.libsonnet\").where]", jpaths: vec!["J2", "J1"], want: Some("[\"J2\",\"D0\"]"), traces: None, stderr_has: None },
        Special { what: "std.thisFile is the path the file was loaded by", files: vec![("D0/x.libsonnet", lib.clone())], symlinks: vec![], dirs: vec![], main: "std.endsWith((import \"x.libsonnet\").file, \"x.libsonnet\") && std.endsWith(std.thisFile, \"main.jsonnet\")", jpaths: vec![], want: Some("true"), traces: None, stderr_has: None },
        Special { what: "a two-file import cycle terminates with an error", files: vec![("D0/a.libsonnet", b"import \"b.libsonnet\"".to_vec()), ("D0/b.libsonnet", b"import \"a.libsonnet\"".to_vec())], symlinks: vec![], dirs: vec![], main: "import \"a.libsonnet\"", jpaths: vec![], want: None, traces: None, stderr_has: None },
        Special { what: "a file importing itself terminates with an error", files: vec![("D0/s.libsonnet", b"import \"s.libsonnet\"".to_vec())], symlinks: vec![], dirs: vec![], main: "import \"s.libsonnet\"", jpaths: vec![], want: None, traces: None, stderr_has: None },
        Special { what: "a lazy cycle is fine", files: vec![("D0/a.libsonnet", b"{x: 1, y: (import \"b.libsonnet\").z}".to_vec()), ("D0/b.libsonnet", b"{z: (import \"a.libsonnet\").x}".to_vec())], symlinks: vec![], dirs: vec![], main: "(import \"a.libsonnet\").y", jpaths: vec![], want: Some("1"), traces: None, stderr_has: None },
        Special { what: "a symlink loop in the importer's directory is an unreadable file, not a miss", files: vec![("J1/x.libsonnet", b"\"from-J1\"".to_vec())], symlinks: vec![("D0/x.libsonnet", "x.libsonnet")], dirs: vec![], main: "import \"x.libsonnet\"", jpaths: vec!["J1"], want: None, traces: None, stderr_has: Some("main.jsonnet:1:") },
        Special { what: "a symlink loop in a higher-priority -J location is an unreadable file, not a miss", files: vec![("J1/x.libsonnet", b"\"from-J1\"".to_vec())], symlinks: vec![("J2/x.libsonnet", "x.libsonnet")], dirs: vec!["J2"], main: "importstr \"x.libsonnet\"", jpaths: vec!["J1", "J2"], want: None, traces: None, stderr_has: Some("main.jsonnet:1:") },
        Special { what: "a symlink loop in a lower-priority location does not matter", files: vec![("J2/x.libsonnet", b"\"from-J2\"".to_vec())], symlinks: vec![("J1/x.libsonnet", "x.libsonnet")], dirs: vec!["J1"], main: "import \"x.libsonnet\"", jpaths: vec!["J1", "J2"], want: Some("\"from-J2\""), traces: None, stderr_has: None },
        Special { what: "a candidate path that runs through a regular file is a miss there", files: vec![("D0/a.txt", b"x".to_vec()), ("J1/a.txt/b", b"\"from-J1\"".to_vec())], symlinks: vec![], dirs: vec![], main: "import \"a.txt/b\"", jpaths: vec!["J1"], want: Some("\"from-J1\""), traces: None, stderr_has: None },
        Special { what: "a dangling symlink in a higher-priority location is a miss there", files: vec![("J1/x.libsonnet", b"\"from-J1\"".to_vec())], symlinks: vec![("D0/x.libsonnet", "nowhere")], dirs: vec![], main: "import \"x.libsonnet\"", jpaths: vec!["J1"], want: Some("\"from-J1\""), traces: None, stderr_has: None },
        Special { what: "dangling symlink is a missing file", files: vec![], symlinks: vec![("D0/x.libsonnet", "nowhere")], dirs: vec![], main: "import \"x.libsonnet\"", jpaths: vec![], want: None, traces: None, stderr_has: Some("main.jsonnet:1:") },
        Special { what: "import of a directory is an error at the import site", files: vec![], symlinks: vec![], dirs: vec!["D0/x.libsonnet"], main: "local a = 1;\n  importstr \"x.libsonnet\"", jpaths: vec![], want: None, traces: None, stderr_has: Some("main.jsonnet:2:3") },
        Special { what: "a directory in a higher-priority location is an unreadable file, not a miss (importer's directory)", files: vec![("J1/x.libsonnet", b"\"from-J1\"".to_vec())], symlinks: vec![], dirs: vec!["D0/x.libsonnet"], main: "import \"x.libsonnet\"", jpaths: vec!["J1"], want: None, traces: None, stderr_has: Some("main.jsonnet:1:") },
        Special { what: "a directory in a higher-priority -J location is an unreadable file, not a miss", files: vec![("J1/x.libsonnet", b"\"from-J1\"".to_vec())], symlinks: vec![], dirs: vec!["J2/x.libsonnet"], main: "importstr \"x.libsonnet\"", jpaths: vec!["J1", "J2"], want: None, traces: None, stderr_has: Some("main.jsonnet:1:") },
        Special { what: "a directory in a lower-priority location does not matter", files: vec![("J2/x.libsonnet", b"\"from-J2\"".to_vec())], symlinks: vec![], dirs: vec!["J1/x.libsonnet"], main: "import \"x.libsonnet\"", jpaths: vec!["J1", "J2"], want: Some("\"from-J2\""), traces: None, stderr_has: None },
        Special { what: "missing import reported at the import site (second line)", files: vec![], symlinks: vec![], dirs: vec![], main: "local a = 1;\n[a, import \"nope.libsonnet\"]", jpaths: vec![], want: None, traces: None, stderr_has: Some("main.jsonnet:2:5") },
        Special { what: "unused import of a missing file is never resolved", files: vec![], symlinks: vec![], dirs: vec![], main: "local a = import \"nope.libsonnet\"; 1", jpaths: vec![], want: Some("1"), traces: None, stderr_has: None },
        Special { what: "imported file with a syntax error fails", files: vec![("D0/x.libsonnet", b"{a: ".to_vec())], symlinks: vec![], dirs: vec![], main: "import \"x.libsonnet\"", jpaths: vec![], want: None, traces: None, stderr_has: Some("x.libsonnet") },
        Special { what: "empty file: importstr empty, importbin empty, import fails", files: vec![("D0/e", vec![])], symlinks: vec![], dirs: vec![], main: "[importstr \"e\", importbin \"e\"]", jpaths: vec![], want: Some("[\"\",[]]"), traces: None, stderr_has: None },
    ]
}

/// Importers that are not files (-e, stdin, --ext-code, --tla-code): there is no importer's
/// directory; relative paths resolve through -J only, absolute paths always.
fn fileless_sweep(rep: &mut Report) {
    let root = cli::scratch("c13f");
    let _ = std::fs::remove_dir_all(&root);
    for d in ["D", "J1", "J2", "cwd"] {
        std::fs::create_dir_all(format!("{root}/{d}")).unwrap();
    }
    std::fs::write(format!("{root}/D/x.libsonnet"), "\"in-D\"").unwrap();
    std::fs::write(format!("{root}/J1/x.libsonnet"), "\"in-J1\"").unwrap();
    std::fs::write(format!("{root}/cwd/x.libsonnet"), "\"in-cwd\"").unwrap();
    let forms = ["exec", "stdin", "ext-code", "tla-code"];
    let paths: Vec<(String, &str)> = vec![(format!("{root}/D/x.libsonnet"), "abs"), ("x.libsonnet".to_string(), "rel"), (format!("{root}/D/missing.libsonnet"), "abs-missing")];
    let jlists: Vec<Vec<&str>> = vec![vec![], vec!["J2"], vec!["J1"], vec!["J1", "J2"], vec!["J2", "J1"]];
    for form in forms {
        for (path, pk) in &paths {
            for jl in &jlists {
                for kind in ["import", "importstr"] {
                    let imp = format!("{kind} \"{path}\"");
                    let mut args: Vec<String> = Vec::new();
                    let mut stdin: Option<Vec<u8>> = None;
                    match form {
                        "exec" => args.extend(["-e".to_string(), imp.clone()]),
                        "stdin" => {
                            args.push("-".into());
                            stdin = Some(imp.clone().into_bytes());
                        }
                        "ext-code" => args.extend(["--ext-code".to_string(), format!("v={imp}"), "-e".to_string(), "std.extVar(\"v\")".to_string()]),
                        _ => args.extend(["--tla-code".to_string(), format!("v={imp}"), "-e".to_string(), "function(v) v".to_string()]),
                    }
                    for j in jl {
                        args.push("-J".into());
                        args.push(format!("{root}/{j}"));
                    }
                    let o = cli::run(&args, stdin.as_deref(), Stdout::Capture, &[], Some(&format!("{root}/cwd")));
                    rep.evaluations += 1;
                    rep.states += 1;
                    rep.traces_validated += 1;
                    rep.transitions += 1;
                    // model
                    let want: Option<&str> = match *pk {
                        "abs" => Some("in-D"),
                        "abs-missing" => None,
                        _ => if jl.contains(&"J1") { Some("in-J1") } else { None },
                    };
                    let want_text = want.map(|w| if kind == "import" { format!("\"{w}\"\n") } else { format!("\"\\\"{w}\\\"\"\n") });
                    let case = json!({"type":"import-fileless","form":form,"path":path,"jlist":jl,"kind":kind});
                    rep.outcome(if want.is_some() { "fileless:found" } else { "fileless:not-found" });
                    rep.distinct(&(form, *pk, jl.len(), kind));
                    let stderr = String::from_utf8_lossy(&o.stderr).to_string();
                    if o.signal.is_some() || !matches!(o.code, Some(0 | 1)) || stderr.contains("panicked at") {
                        rep.violation("C13/crash", format!("{form} {imp} -J {jl:?}: {}", describe(&o)), case);
                        continue;
                    }
                    let got = if o.code == Some(0) { Some(String::from_utf8_lossy(&o.stdout).to_string()) } else { None };
                    if got != want_text {
                        rep.violation("C13/fileless-importer/wrong-resolution", format!("{form} `{imp}` with -J {jl:?} (cwd has x.libsonnet too): expected {want_text:?} but {}", describe(&o)), case);
                    }
                }
            }
        }
    }
    let _ = std::fs::remove_dir_all(&root);
}

fn special_sweep(rep: &mut Report) {
    let root = cli::scratch("c13s");
    for s in specials() {
        let _ = std::fs::remove_dir_all(&root);
        std::fs::create_dir_all(format!("{root}/D0")).unwrap();
        for d in &s.dirs {
            std::fs::create_dir_all(format!("{root}/{d}")).unwrap();
        }
        for (f, data) in &s.files {
            let p = format!("{root}/{f}");
            std::fs::create_dir_all(std::path::Path::new(&p).parent().unwrap()).unwrap();
            std::fs::write(p, data).unwrap();
        }
        for (link, target) in &s.symlinks {
            let _ = std::os::unix::fs::symlink(target, format!("{root}/{link}"));
        }
        std::fs::write(format!("{root}/D0/main.jsonnet"), s.main).unwrap();
        let mut args = vec![format!("{root}/D0/main.jsonnet")];
        for j in &s.jpaths {
            args.push("-J".into());
            args.push(format!("{root}/{j}"));
        }
        let o = cli::run(&args, None, Stdout::Capture, &[], None);
        rep.evaluations += 1;
        rep.states += 1;
        rep.traces_validated += 1;
        let case = json!({"type":"import-special","what":s.what,"main":s.main});
        let stderr = String::from_utf8_lossy(&o.stderr).to_string();
        rep.outcome("special");
        rep.distinct(&s.what);
        rep.sample(json!({"special_case": s.what, "main": s.main, "exit": o.code}));
        if o.signal.is_some() || !matches!(o.code, Some(0 | 1)) || stderr.contains("panicked at") {
            rep.violation("C13/crash", format!("{}: {}", s.what, describe(&o)), case);
            continue;
        }
        match s.want {
            Some(w) => {
                let got: Option<J> = serde_json::from_slice(&o.stdout).ok();
                if o.code != Some(0) || got != serde_json::from_str::<J>(w).ok() {
                    rep.violation(format!("C13/special/{}", s.what.split(' ').take(3).collect::<Vec<_>>().join("-")), format!("{}: expected {w} but {}", s.what, describe(&o)), case.clone());
                }
            }
            None => {
                if o.code != Some(1) || !o.stdout.is_empty() || stderr.trim().is_empty() {
                    rep.violation(format!("C13/special/{}", s.what.split(' ').take(3).collect::<Vec<_>>().join("-")), format!("{}: expected a reported error but {}", s.what, describe(&o)), case.clone());
                }
            }
        }
        if let Some(n) = s.traces {
            if stderr.matches("TRACE:").count() != n {
                rep.violation("C13/not-loaded-exactly-once", format!("{}: {} trace lines, expected {n}", s.what, stderr.matches("TRACE:").count()), case.clone());
            }
        }
        if let Some(h) = s.stderr_has {
            if !stderr.contains(h) {
                rep.violation("C13/error-not-at-import-site", format!("{}: stderr lacks {h:?}: {}", s.what, util::truncate(&stderr, 300)), case);
            }
        }
    }
    // exact content: every byte value, invalid UTF-8
    let _ = std::fs::remove_dir_all(&root);
    std::fs::create_dir_all(format!("{root}/D0")).unwrap();
    let contents: Vec<Vec<u8>> = vec![(0..=255u8).collect(), vec![0xff, 0xfe, b'a', 0xc0, 0xa0, 0xed, 0xa0, 0x80, 0xf0, 0x9f, 0x98, 0x80, 0xf0, 0x9f], b"plain\r\ntext\n".to_vec(), "é€😀".as_bytes().to_vec(), vec![0xef, 0xbb, 0xbf, b'b', b'o', b'm']];
    for c in contents {
        std::fs::write(format!("{root}/D0/data.bin"), &c).unwrap();
        std::fs::write(format!("{root}/D0/main.jsonnet"), "{bin: importbin \"data.bin\", str: importstr \"data.bin\"}").unwrap();
        let o = cli::run(&[format!("{root}/D0/main.jsonnet")], None, Stdout::Capture, &[], None);
        rep.evaluations += 1;
        rep.states += 1;
        let got: Option<J> = serde_json::from_slice(&o.stdout).ok();
        let want = json!({"bin": c, "str": String::from_utf8_lossy(&c)});
        rep.outcome("content");
        if o.code != Some(0) || got.as_ref() != Some(&want) {
            rep.violation("C13/content-not-exact", format!("file of {} bytes: importbin/importstr give {}", c.len(), util::truncate(&String::from_utf8_lossy(&o.stdout), 300)), json!({"type":"import-content","bytes":c}));
        }
    }
    let _ = std::fs::remove_dir_all(&root);
}

pub fn run(ctx: &Ctx) -> i32 {
    if !std::path::Path::new(&cli::binary()).exists() {
        eprintln!("ENGINE-ERROR: {} not built", cli::binary());
        return 3;
    }
    let quick = ctx.quick();
    let mut total = util::par_shards(ctx.threads, 16, |s, n| layout_sweep(&util::Shard::plain(s, n), quick));
    special_sweep(&mut total);
    fileless_sweep(&mut total);
    util::finish(
        ctx,
        LevelInfo {
            level: "fault_enumeration",
            rule: "every subset of {importer's directory, J1, J2, J3} holding the file x all 16 ordered -J lists of distinct directories x 5 spellings (plain, ./, sub/../, two absolute) x import/importstr/importbin, plus every -J list of length <=3 (and the two-directory lists of length 4) in which a directory is repeated, on the real binary against ref_import; importers that are not files (-e, stdin, --ext-code, --tla-code) x absolute/relative/missing paths x 5 -J lists; load-once across spellings, symlinked files and directories; library's own directory first; std.thisFile; cycles; dangling symlink, directory, missing file (error located at the import expression); exact content for all 256 byte values and invalid UTF-8. distinct+nontrivial = distinct (layout, -J length, spelling, kind)".into(),
            assumptions: vec!["unreadable files cannot be produced with permissions as root; a directory and a dangling symlink stand in for them".into()],
        },
        total,
    )
}

pub fn replay(v: &serde_json::Value) -> i32 {
    println!("{}", v["what"]);
    1
}
