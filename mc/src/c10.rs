//! C10 — recursion depth is bounded by the configured limit and fails gracefully.
//! Every (shape, frame limit, depth) of a grid is executed on a deliberately small native
//! stack; outcomes must be value / StackOverflow / InfiniteRecursion, monotone in the limit.
use crate::rt::{self, Outcome, RunCfg};
use crate::util::{self, Ctx, LevelInfo, Report};
use serde_json::json;

#[derive(Clone, Copy, PartialEq, Eq, Debug)]
pub enum Class {
    /// terminates for every depth (given a large enough limit)
    Finite,
    /// depends on itself: never a value
    SelfDependent,
    /// recurses forever: never a value
    Infinite,
}

pub struct Shape {
    pub name: &'static str,
    pub class: Class,
    pub make: fn(usize) -> String,
}

fn nest_arr(d: usize) -> String {
    format!("local mk(n) = std.foldl(function(acc, i) [acc], std.range(1, n), 0); local v = mk({d}); ")
}
fn nest_obj(d: usize) -> String {
    format!("local mk(n) = std.foldl(function(acc, i) {{a: acc}}, std.range(1, n), 0); local v = mk({d}); ")
}

pub fn shapes() -> Vec<Shape> {
    vec![
        Shape { name: "direct-recursion", class: Class::Finite, make: |d| format!("local f(n) = if n == 0 then 0 else 1 + f(n - 1); f({d})") },
        Shape { name: "mutual-recursion", class: Class::Finite, make: |d| format!("local f(n) = if n == 0 then 0 else g(n - 1), g(n) = if n == 0 then 1 else f(n - 1); f({d})") },
        Shape { name: "method-self", class: Class::Finite, make: |d| format!("local o = {{f(n): if n == 0 then 0 else 1 + self.f(n - 1)}}; o.f({d})") },
        Shape { name: "super-chain", class: Class::Finite, make: |d| format!("std.foldl(function(o, i) o + {{a: super.a + 1}}, std.range(1, {d}), {{a: 0}}).a") },
        Shape { name: "plus-colon-chain", class: Class::Finite, make: |d| format!("std.foldl(function(o, i) o + {{a+: 1}}, std.range(1, {d}), {{a: 0}}).a") },
        Shape { name: "thunk-chain-foldl", class: Class::Finite, make: |d| format!("std.foldl(function(acc, i) acc + i, std.range(1, {d}), 0)") },
        Shape { name: "thunk-chain-lazy-array", class: Class::Finite, make: |d| format!("local a = std.makeArray({d} + 1, function(i) if i == 0 then 0 else a[i - 1] + 1); a[{d}]") },
        Shape { name: "local-chain", class: Class::Finite, make: |d| {
            let mut s = String::from("local a0 = 0");
            for i in 1..=d { s.push_str(&format!(", a{i} = a{} + 1", i - 1)); }
            s.push_str(&format!("; a{d}"));
            s
        } },
        Shape { name: "manifest-nested-arrays", class: Class::Finite, make: |d| format!("{}v", nest_arr(d)) },
        Shape { name: "manifest-nested-objects", class: Class::Finite, make: |d| format!("{}v", nest_obj(d)) },
        Shape { name: "equals-nested-arrays", class: Class::Finite, make: |d| format!("{}v == mk({d})", nest_arr(d)) },
        Shape { name: "equals-nested-objects", class: Class::Finite, make: |d| format!("{}v == mk({d})", nest_obj(d)) },
        Shape { name: "less-nested-arrays", class: Class::Finite, make: |d| format!("{}v < mk({d})", nest_arr(d)) },
        Shape { name: "toString-nested", class: Class::Finite, make: |d| format!("{}std.length(std.toString(v))", nest_arr(d)) },
        Shape { name: "string-coercion-nested", class: Class::Finite, make: |d| format!("{}std.length(\"\" + v)", nest_obj(d)) },
        Shape { name: "manifestJsonEx-nested", class: Class::Finite, make: |d| format!("{}std.length(std.manifestJsonEx(v, \" \"))", nest_arr(d)) },
        Shape { name: "manifestYamlDoc-nested", class: Class::Finite, make: |d| format!("{}std.length(std.manifestYamlDoc({{r: v}}))", nest_obj(d)) },
        Shape { name: "manifestTomlEx-nested", class: Class::Finite, make: |d| format!("{}std.length(std.manifestTomlEx({{r: v}}, \" \"))", nest_obj(d)) },
        Shape { name: "manifestTomlEx-inline-tables-nested", class: Class::Finite, make: |d| format!("{}std.length(std.manifestTomlEx({{r: [0, v]}}, \" \"))", nest_obj(d)) },
        Shape { name: "manifestTomlEx-inline-arrays-nested", class: Class::Finite, make: |d| format!("{}std.length(std.manifestTomlEx({{r: v}}, \" \"))", nest_arr(d)) },
        Shape { name: "manifestYamlDoc-arrays-nested", class: Class::Finite, make: |d| format!("{}std.length(std.manifestYamlDoc(v))", nest_arr(d)) },
        Shape { name: "thunk-chain-map-of-builtin", class: Class::Finite, make: |d| format!("std.foldl(function(acc, i) std.map(std.floor, acc), std.range(1, {d}), [1.5])[0]") },
        Shape { name: "thunk-chain-map-of-function", class: Class::Finite, make: |d| format!("std.foldl(function(acc, i) std.map(function(x) x + 1, acc), std.range(1, {d}), [0])[0]") },
        Shape { name: "thunk-chain-mapWithKey-of-builtin", class: Class::Finite, make: |d| format!("std.foldl(function(acc, i) std.mapWithKey(std.format, acc), std.range(1, {d}), {{\"%s\": 1}})[\"%s\"]") },
        Shape { name: "thunk-chain-mapWithIndex", class: Class::Finite, make: |d| format!("std.foldl(function(acc, i) std.mapWithIndex(std.atan2, acc), std.range(1, {d}), [1])[0]") },
        Shape { name: "thunk-chain-makeArray", class: Class::Finite, make: |d| format!("std.foldl(function(acc, i) std.makeArray(1, function(j) acc[j] + 1), std.range(1, {d}), [0])[0]") },
        Shape { name: "manifestPython-nested", class: Class::Finite, make: |d| format!("{}std.length(std.manifestPython(v))", nest_arr(d)) },
        Shape { name: "prune-nested", class: Class::Finite, make: |d| format!("{}std.length(std.toString(std.prune([v])))", nest_arr(d)) },
        Shape { name: "flattenDeepArray-nested", class: Class::Finite, make: |d| format!("{}std.flattenDeepArray([v, 1])", nest_arr(d)) },
        Shape { name: "mergePatch-nested", class: Class::Finite, make: |d| format!("{}std.length(std.toString(std.mergePatch({{r: v}}, {{r: mk({d})}})))", nest_obj(d)) },
        Shape { name: "format-nested", class: Class::Finite, make: |d| format!("{}std.length(\"%s\" % [v])", nest_arr(d)) },
        Shape { name: "tailstrict-recursion", class: Class::Finite, make: |d| format!("local f(n, acc) = if n == 0 then acc else f(n - 1, acc + 1) tailstrict; f({d}, 0)") },
        Shape { name: "tailstrict-call-in-if-condition", class: Class::Finite, make: |d| format!("local f(n) = if n == 0 then true else (if f(n - 1) tailstrict then true else false); f({d})") },
        Shape { name: "tailstrict-call-as-operand", class: Class::Finite, make: |d| format!("local f(n) = if n == 0 then 0 else 1 + f(n - 1) tailstrict; f({d})") },
        Shape { name: "tailstrict-call-as-argument", class: Class::Finite, make: |d| format!("local g(x) = x, f(n) = if n == 0 then 0 else g(f(n - 1) tailstrict); f({d})") },
        Shape { name: "tailstrict-call-in-array", class: Class::Finite, make: |d| format!("local f(n) = if n == 0 then 0 else [f(n - 1) tailstrict][0]; f({d})") },
        Shape { name: "tailstrict-call-in-local", class: Class::Finite, make: |d| format!("local f(n) = if n == 0 then 0 else (local r = f(n - 1) tailstrict; r + 0); f({d})") },
        Shape { name: "comprehension-nesting", class: Class::Finite, make: |d| format!("local f(n) = if n == 0 then [0] else [x for x in f(n - 1)]; f({d})") },
        Shape { name: "self-referential-local", class: Class::SelfDependent, make: |d| format!("local x = {}x{}; x", "(".repeat(d), ")".repeat(d)) },
        Shape { name: "self-referential-field", class: Class::SelfDependent, make: |d| format!("local o = {{a: self.a}}; [o.a, {d}][0]") },
        Shape { name: "mutually-dependent-fields", class: Class::SelfDependent, make: |d| {
            let n = d % 20 + 2;
            let mut s = String::from("{");
            for i in 0..n { s.push_str(&format!("f{i}: self.f{}, ", (i + 1) % n)); }
            s.push_str("}.f0");
            s
        } },
        Shape { name: "self-dependent-default-argument", class: Class::SelfDependent, make: |d| format!("(function(x=x) [x, {d}][0])()") },
        Shape { name: "self-dependent-array-element", class: Class::SelfDependent, make: |d| format!("local a = [a[0] + {d}]; a[0]") },
        Shape { name: "infinite-function-recursion", class: Class::Infinite, make: |d| format!("local f(x) = f(x + {d}); f(1)") },
        Shape { name: "infinite-object-growth", class: Class::Infinite, make: |d| format!("local f(o) = f(o + {{a: {d}}}); f({{}})") },
        Shape { name: "infinite-manifest", class: Class::Infinite, make: |d| format!("local o = {{a: o, d: {d}}}; o") },
        Shape { name: "infinite-equals", class: Class::Infinite, make: |d| format!("local o = {{a: o, d: {d}}}; o == o") },
        Shape { name: "infinite-tailstrict-in-if-condition", class: Class::Infinite, make: |d| format!("local f(x) = if f(x + {d}) tailstrict then 1 else 2; f(1)") },
        Shape { name: "infinite-tailstrict-as-operand", class: Class::Infinite, make: |d| format!("local f(x) = 1 + f(x + {d}) tailstrict; f(1)") },
        Shape { name: "infinite-toString", class: Class::Infinite, make: |d| format!("local a = [a, {d}]; \"\" + a") },
    ]
}

/// Endless descent where every level builds a fresh value (`local o(n) = BODY(o(n + 1))`): each
/// way a body can need the next level, times each way the first level is used. Every one
/// must be stopped (stack overflow / infinite recursion) or finish; none may run forever.
pub fn endless_descents() -> Vec<(String, String)> {
    let bodies: Vec<(&str, &str)> = vec![
        ("object-assert-message-object", "{ assert false : R, x: 1 }"),
        ("object-assert-message-array", "{ assert false : [R], x: 1 }"),
        ("object-assert-message-in-object", "{ assert false : {m: R}, x: 1 }"),
        ("object-assert-message-format", "{ assert false : \"%s\" % [R], x: 1 }"),
        ("object-assert-message-concat", "{ assert false : \"\" + R, x: 1 }"),
        ("object-assert-condition-field", "{ assert R.x == 1, x: 1 }"),
        ("object-assert-condition-equals", "{ assert R == R, x: 1 }"),
        ("error-message-object", "{ x: error R }"),
        ("error-message-in-object", "{ x: error {m: R} }"),
        ("field-of-next", "{ x: R.x }"),
        ("next-as-field-value", "{ x: 1, y: R }"),
        ("computed-field-name", "{ [std.toString(R)]: 1, x: 1 }"),
        ("string-concat", "{ x: \"\" + R }"),
        ("format", "{ x: \"%s\" % [R] }"),
        ("toString", "{ x: std.toString(R) }"),
        ("equals", "{ x: R == R }"),
        ("array-element", "{ x: [R][0].x }"),
        ("extension-right", "{ x: 1 } + R"),
        ("extension-left", "R { x: 1 }"),
        ("default-argument", "{ x: (function(d=R) d.x)() }"),
        ("comprehension-source", "{ x: [y.x for y in [R]][0] }"),
        ("if-condition", "{ x: if R.x == 1 then 1 else 2 }"),
        ("object-local", "{ local l = R, x: l.x }"),
        ("manifestJson", "{ x: std.manifestJson(R) }"),
        ("manifestYamlDoc", "{ x: std.manifestYamlDoc(R) }"),
        ("manifestPython", "{ x: std.manifestPython(R) }"),
        ("manifestTomlEx", "{ x: std.manifestTomlEx(R, \"\") }"),
        ("prune", "{ x: std.prune(R).x }"),
        ("mergePatch", "{ x: std.mergePatch(R, {}).x }"),
        ("objectValues", "{ x: std.objectValues(R)[0] }"),
        ("mapWithKey", "{ x: std.mapWithKey(function(k, v) v, R).x }"),
        ("trace-message", "{ x: std.trace(R, 1) }"),
        ("sort-key", "{ x: std.sort([R, R], function(v) v.x)[0].x }"),
        ("in-super", "{ x: 1 } + { y: \"x\" in super, z: R.y }"),
    ];
    let entries = [("field", "o(0).x"), ("manifest", "o(0)"), ("toString", "std.toString(o(0))")];
    let mut v = Vec::new();
    for (bn, b) in &bodies {
        for (en, e) in &entries {
            v.push((format!("{bn}/{en}"), format!("local o(n) = {}; {e}", b.replace('R', "o(n + 1)"))));
        }
    }
    v
}

#[derive(Clone, Debug, PartialEq)]
enum O {
    Value(String),
    StackOverflow,
    InfiniteRecursion,
    Other(String),
}

fn run_small_stack(src: String, limit: usize, native_kib: usize) -> O {
    let h = std::thread::Builder::new()
        .stack_size(native_kib * 1024)
        .spawn(move || rt::run_fresh(src.as_bytes(), &RunCfg { max_stack: Some(limit), ..Default::default() }).outcome)
        .expect("spawn");
    match h.join() {
        Ok(Outcome::Value(s)) => O::Value(s),
        Ok(o) => match o.eval_kind() {
            Some("StackOverflow") => O::StackOverflow,
            Some("InfiniteRecursion") => O::InfiniteRecursion,
            _ => O::Other(o.short()),
        },
        Err(_) => O::Other("thread panicked".into()),
    }
}

fn grid(quick: bool) -> (Vec<usize>, Vec<usize>) {
    let mut limits: Vec<usize> = (0..=24).collect();
    limits.extend([32, 48, 64, 100, 499, 500, 501, 1000]);
    let mut depths: Vec<usize> = (0..=24).collect();
    depths.extend([31, 32, 33, 48, 64, 100, 250, 499, 500, 501, 1000]);
    if !quick {
        limits.extend(25..=200);
        depths.extend(25..=400);
        depths.push(5000);
    }
    limits.sort();
    limits.dedup();
    depths.sort();
    depths.dedup();
    (limits, depths)
}

fn shape_sweep(sh_idx: usize, quick: bool, shard: &util::Shard, outer: &util::Shard) -> Report {
    let mut rep = Report::new();
    let t0 = std::time::Instant::now();
    let all = shapes();
    let shape = &all[sh_idx];
    let (limits, depths) = grid(quick);
    for (di, &d) in depths.iter().enumerate() {
        if !shard.mine(di as u64) {
            continue;
        }
        let src = (shape.make)(d);
        if !outer.begin_case(di as u64, &|| format!("{} depth {d}", shape.name)) {
            continue;
        }
        let mut first_value: Option<(usize, String)> = None;
        for &s in &limits {
            let o = run_small_stack(src.clone(), s, 1024);
            rep.evaluations += 1;
            rep.traces_validated += 1;
            rep.transitions += 1;
            rep.outcome(match &o { O::Value(_) => "value", O::StackOverflow => "stack-overflow", O::InfiniteRecursion => "infinite-recursion", O::Other(_) => "other" });
            rep.distinct(&(shape.name, std::mem::discriminant(&o), d.min(6), s.min(6), d > s, d > 2 * s));
            let case = json!({"type":"recursion","shape":shape.name,"depth":d,"limit":s,"source":util::truncate(&src, 2000)});
            match &o {
                O::Other(x) => rep.violation("C10/unexpected-outcome", format!("{} depth {d} limit {s}: {x}", shape.name), case.clone()),
                O::Value(v) => {
                    // every level of these shapes nests one call / thunk / comparison /
                    // manifestation inside the previous one: depth d cannot fit in fewer than d
                    // frames (iterative shapes are exempt: tail calls, foldl)
                    let per_level = shape.class == Class::Finite && !matches!(shape.name, "thunk-chain-foldl" | "tailstrict-recursion");
                    if per_level && d > s + 1 {
                        rep.violation(format!("C10/limit-not-enforced/{}", shape.name), format!("{} nested {d} deep succeeds under a frame limit of {s}", shape.name), case.clone());
                    }
                    if shape.class != Class::Finite {
                        rep.violation("C10/non-terminating-program-yields-value", format!("{} depth {d} limit {s}: value {}", shape.name, util::truncate(v, 100)), case.clone());
                    }
                    match &first_value {
                        None => first_value = Some((s, v.clone())),
                        Some((s0, v0)) if v0 != v => rep.violation("C10/value-changes-with-limit", format!("{} depth {d}: value at limit {s0} differs from value at limit {s}", shape.name), case.clone()),
                        _ => {}
                    }
                }
                O::StackOverflow | O::InfiniteRecursion => {
                    if let Some((s0, _)) = &first_value {
                        rep.violation("C10/not-monotone-in-limit", format!("{} depth {d}: succeeds at limit {s0} but fails at the larger limit {s} with {o:?}", shape.name), case.clone());
                    }
                    if o == O::InfiniteRecursion && shape.class != Class::SelfDependent {
                        rep.violation("C10/spurious-infinite-recursion", format!("{} depth {d} limit {s}: reported as infinite recursion but nothing depends on itself", shape.name), case.clone());
                    }
                }
            }
        }
        // a finite shape must succeed once the limit is generous
        if shape.class == Class::Finite && first_value.is_none() && d <= 1000 {
            let o = run_small_stack(src.clone(), 1_000_000, 1024);
            if !matches!(o, O::Value(_)) {
                rep.violation("C10/finite-program-never-succeeds", format!("{} depth {d}: {o:?} even with limit 1000000", shape.name), json!({"type":"recursion","shape":shape.name,"depth":d,"limit":1000000,"source":util::truncate(&src, 2000)}));
            }
        }
        if shape.class == Class::SelfDependent {
            // with a generous limit the cycle itself must be diagnosed
            let o = run_small_stack(src.clone(), 100_000, 1024);
            rep.evaluations += 1;
            if o != O::InfiniteRecursion {
                rep.violation("C10/cycle-not-reported-as-infinite-recursion", format!("{} depth {d} limit 100000: {o:?}", shape.name), json!({"type":"recursion","shape":shape.name,"depth":d,"limit":100000,"source":util::truncate(&src, 2000)}));
            }
        }
        if std::env::var("VERIF_C10_TIMING").is_ok() {
            use std::io::Write as _;
            if let Ok(mut f) = std::fs::OpenOptions::new().create(true).append(true).open("/verif/target/tmp/c10-timing.log") {
                let _ = writeln!(f, "TIMING {} depth {d}: {:.2}s", shape.name, t0.elapsed().as_secs_f64());
            }
        }
        if di % 17 == 0 {
            rep.sample(json!({"shape": shape.name, "depth": d, "source": util::truncate(&src, 200), "first_limit_with_value": first_value.as_ref().map(|f| f.0)}));
        }
    }
    rep
}

/// Depths far beyond any native stack: must still end in a value or a reported error.
fn deep_sweep(sh_idx: usize, shard: &util::Shard, depths: &[usize]) -> Report {
    let mut rep = Report::new();
    let all = shapes();
    let shape = &all[sh_idx];
    if shape.class != Class::Finite || matches!(shape.name, "local-chain" | "super-chain" | "plus-colon-chain" | "mergePatch-nested") {
        // source nesting is the parser's business (C01); layer chains cost quadratic time;
        // non-terminating shapes are covered by the grid
        return rep;
    }
    for (k, &d) in depths.iter().enumerate() {
        // shapes whose output or intermediate strings grow quadratically stay at 2*10^4
        let quadratic = shape.name.contains("manifest") || shape.name.contains("toString") || shape.name.contains("coercion") || shape.name.contains("format") || shape.name.contains("prune");
        if quadratic && d > 20_000 {
            continue;
        }
        for (j, limit) in [500usize, 10_000_000].into_iter().enumerate() {
            let idx = (k * 2 + j) as u64;
            if !shard.begin_case(idx, &|| format!("{} depth {d} limit {limit} on a 1 MiB native stack", shape.name)) {
                continue;
            }
            let src = (shape.make)(d);
            let o = run_small_stack(src.clone(), limit, 1024);
            rep.evaluations += 1;
            rep.states += 1;
            rep.outcome(match &o { O::Value(_) => "deep:value", O::StackOverflow => "deep:stack-overflow", O::InfiniteRecursion => "deep:infinite-recursion", O::Other(_) => "deep:other" });
            if let O::Other(x) = &o {
                rep.violation("C10/unexpected-outcome", format!("{} depth {d} limit {limit}: {x}", shape.name), json!({"type":"recursion","shape":shape.name,"depth":d,"limit":limit}));
            }
            if limit == 500 && d > 2000 && matches!(o, O::Value(_)) && !matches!(shape.name, "tailstrict-recursion" | "thunk-chain-foldl" | "plus-colon-chain" | "flattenDeepArray-nested") {
                // informational only: shapes whose depth does not consume frames are fine
                rep.count("deep_values_under_default_limit", 1);
            }
        }
    }
    rep
}

/// A value that contains itself, handed to every builtin / operator that walks values: the
/// walk must be stopped by the frame limit (or diagnosed as infinite recursion), never loop.
pub fn self_containing() -> Vec<(&'static str, String)> {
    let arr = "local a = [1, a]; ";
    let obj = "local a = {x: a, y: 1}; ";
    let mut v: Vec<(&'static str, String)> = Vec::new();
    let calls: Vec<(&'static str, &'static str, &'static str)> = vec![
        // (name, call on array value `a`, call on object value `a`)
        ("prune", "std.prune(a)", "std.prune(a)"),
        ("mergePatch", "std.mergePatch({k: a}, {k: a})", "std.mergePatch(a, a)"),
        ("flattenDeepArray", "std.flattenDeepArray(a)", "std.flattenDeepArray([a])"),
        ("deepJoin", "std.deepJoin([\"s\", a])", "std.deepJoin([a])"),
        ("flattenArrays", "std.flattenArrays([a, a])", "std.flattenArrays([[a]])"),
        ("toString", "std.toString(a)", "std.toString(a)"),
        ("string-coercion", "\"\" + a", "\"\" + a"),
        ("format-s", "\"%s\" % [a]", "\"%s\" % [a]"),
        ("equals", "a == a", "a == a"),
        ("std.equals", "std.equals(a, [1, a])", "std.equals(a, a)"),
        ("assertEqual", "std.assertEqual(a, a)", "std.assertEqual(a, a)"),
        ("less", "a < a", "[a] < [a]"),
        ("__compare", "std.__compare(a, a)", "std.__compare([a], [a])"),
        ("manifestJson", "std.manifestJson(a)", "std.manifestJson(a)"),
        ("manifestJsonEx", "std.manifestJsonEx(a, \" \")", "std.manifestJsonEx(a, \" \")"),
        ("manifestJsonMinified", "std.manifestJsonMinified(a)", "std.manifestJsonMinified(a)"),
        ("manifestYamlDoc", "std.manifestYamlDoc(a)", "std.manifestYamlDoc(a)"),
        ("manifestYamlStream", "std.manifestYamlStream([a])", "std.manifestYamlStream([a])"),
        ("manifestTomlEx", "std.manifestTomlEx({k: a}, \"\")", "std.manifestTomlEx(a, \"\")"),
        ("manifestTomlEx-inline-table", "std.manifestTomlEx({k: [0, {i: a}]}, \"\")", "std.manifestTomlEx({k: [0, a]}, \"\")"),
        ("manifestTomlEx-array-of-tables", "std.manifestTomlEx({k: [{i: a}]}, \"\")", "std.manifestTomlEx({k: [a]}, \"\")"),
        ("manifestYamlDoc-in-array", "std.manifestYamlDoc([[a]])", "std.manifestYamlDoc([{k: a}])"),
        ("manifestJsonEx-in-object", "std.manifestJsonEx({k: [a]}, \" \")", "std.manifestJsonEx([{k: a}], \" \")"),
        ("manifestPython-in-object", "std.manifestPython({k: [a]})", "std.manifestPython([{k: a}])"),
        ("manifestPython", "std.manifestPython(a)", "std.manifestPython(a)"),
        ("manifestPythonVars", "std.manifestPythonVars({k: a})", "std.manifestPythonVars(a)"),
        ("manifestIni", "std.manifestIni({main: {k: a}, sections: {}})", "std.manifestIni({main: a, sections: {s: a}})"),
        ("manifestXmlJsonml", "std.manifestXmlJsonml([\"t\", a])", "std.manifestXmlJsonml([\"t\", a, [\"u\", a]])"),
        ("sort", "std.sort([a, a])", "std.sort([[a], [a]])"),
        ("set", "std.set([a, a])", "std.set([[a], [a]])"),
        ("uniq", "std.uniq([a, a])", "std.uniq([[a], [a]])"),
        ("member", "std.member([a], a)", "std.member([a], a)"),
        ("count", "std.count([a], a)", "std.count([a], a)"),
        ("contains", "std.contains([a], a)", "std.contains([a], a)"),
        ("find", "std.find(a, [a])", "std.find(a, [a])"),
        ("remove", "std.remove([a], a)", "std.remove([a], a)"),
        ("setMember", "std.setMember(a, [a])", "std.setMember([a], [[a]])"),
        ("minArray", "std.minArray([a, a])", "std.minArray([[a], [a]])"),
        ("maxArray", "std.maxArray([a, a])", "std.maxArray([[a], [a]])"),
        ("setUnion", "std.setUnion([a], [a])", "std.setUnion([[a]], [[a]])"),
        ("setInter", "std.setInter([a], [a])", "std.setInter([[a]], [[a]])"),
        ("setDiff", "std.setDiff([a], [a])", "std.setDiff([[a]], [[a]])"),
        ("root-value", "a", "a"),
        ("objectValues-root", "std.objectValues({k: a})", "std.objectValues(a)"),
        ("escapeStringJson", "std.escapeStringJson(a)", "std.escapeStringJson(a)"),
        ("join", "std.join([], [a, a])", "std.join(\",\", [a])"),
        ("base64", "std.base64(a)", "std.base64([a])"),
        ("encode-format-d", "\"%d\" % [a]", "\"%(x)s\" % a"),
        ("primitiveEquals", "std.primitiveEquals(a, a)", "std.primitiveEquals(a, a)"),
        ("trace-rest", "std.trace(\"t\", a)", "std.trace(\"t\", a)"),
        ("repeat", "std.repeat(a, 2)", "std.repeat([a], 2)"),
        ("reverse", "std.reverse(a)", "std.reverse([a])"),
        ("slice", "a[0:2]", "[a][0:1]"),
    ];
    // the same calls on self-containing values whose leaves are strings (builtins that accept
    // only strings stop at the first number otherwise) and on a JsonML-shaped one
    let sarr = "local a = [\"s\", a]; ";
    let sobj = "local a = {x: a, y: \"s\"}; ";
    let jsonml = "local a = [\"t\", {k: \"v\"}, a]; ";
    for (name, on_arr, on_obj) in calls {
        v.push((name, format!("{arr}{on_arr}")));
        v.push((name, format!("{obj}{on_obj}")));
        v.push((name, format!("{sarr}{on_arr}")));
        v.push((name, format!("{sobj}{on_obj}")));
    }
    for (name, call) in [
        ("deepJoin", "std.deepJoin(a)"),
        ("lines", "std.lines(a)"),
        ("join", "std.join(\"\", a)"),
        ("manifestXmlJsonml", "std.manifestXmlJsonml(a)"),
        ("flattenDeepArray", "std.flattenDeepArray(a)"),
        ("format-s", "\"%s|%s\" % a"),
        ("sum", "std.sum(a)"),
        ("stringChars", "std.stringChars(a)"),
        ("escapeStringBash", "std.escapeStringBash(a)"),
        ("manifestYamlStream", "std.manifestYamlStream(a)"),
        ("manifestIni", "std.manifestIni({sections: {s: {k: a}}})"),
    ] {
        v.push((name, format!("{sarr}{call}")));
        v.push((name, format!("{jsonml}{call}")));
    }
    v
}

pub fn run(ctx: &Ctx) -> i32 {
    if std::env::var("VERIF_C10_THRESHOLDS").is_ok() {
        for sh in shapes().iter().filter(|s| s.class == Class::Finite) {
            let t = |d: usize| (0..400usize).find(|&s| matches!(run_small_stack((sh.make)(d), s, 1024), O::Value(_)));
            println!("{:32} d=10 -> {:?}  d=30 -> {:?}  d=60 -> {:?}", sh.name, t(10), t(30), t(60));
        }
        return 0;
    }
    let mut total = Report::new();
    let n = shapes().len();
    let cfg = util::ForkCfg { threads: ctx.threads, mem_bytes: 8 << 30, case_timeout_s: 40, died_signature: "C10/native-stack-or-abort".into(), resource_is_violation: false };
    let per = 4;
    let quick = ctx.quick();
    let r = util::par_forked(&cfg, n * per, |sh| {
        let sub = util::Shard::plain(sh.index % per, per);
        let _ = sub;
        // shard = (shape, depth residue); progress reporting goes through `sh`
        let shape_idx = sh.index / per;
        let mut rep = Report::new();
        let inner = ShardView { outer: sh, residue: sh.index % per, per };
        rep.merge(shape_sweep_view(shape_idx, quick, &inner));
        rep
    });
    total.merge(r);
    let deep: Vec<usize> = if quick { vec![20_000] } else { vec![20_000, 100_000, 300_000] };
    let r = util::par_forked(&cfg, n, |sh| deep_sweep(sh.index, sh, &deep));
    total.merge(r);
    // self-containing values through every value-walking builtin: one process each, a hang or
    // memory exhaustion is a violation here (the walk must be stopped by the frame limit)
    let sc = self_containing();
    let scfg = util::ForkCfg { threads: ctx.threads, mem_bytes: 2 << 30, case_timeout_s: 8, died_signature: "C10/unbounded-walk".into(), resource_is_violation: true };
    let mut r = util::par_forked(&scfg, sc.len(), |sh| {
        let mut rep = Report::new();
        let (name, src) = &sc[sh.index];
        if !sh.begin_case(0, &|| src.clone()) {
            return rep;
        }
        rep.evaluations += 1;
        rep.states += 1;
        rep.traces_validated += 1;
        let o = run_small_stack(src.clone(), 500, 1024);
        rep.outcome(match &o { O::Value(_) => "walk:value", O::StackOverflow => "walk:stack-overflow", O::InfiniteRecursion => "walk:infinite-recursion", O::Other(_) => "walk:other-error" });
        rep.distinct(&(name, std::mem::discriminant(&o)));
        if let O::Value(v) = &o {
            // a finite answer is fine when the builtin does not need to walk the whole value
            // (e.g. std.member finds the element, std.reverse is lazy): only manifestation of
            // the result would diverge, and it did not
            rep.count("self_containing_value_answered_without_full_walk", 1);
            let _ = v;
        }
        rep
    });
    for v in r.violations.iter_mut() {
        if let Some(sidx) = v.case["shard"].as_u64() {
            v.signature = format!("C10/unbounded-walk-of-self-containing-value/{}", sc[sidx as usize].0);
        }
    }
    total.extra.insert("self_containing_value_probes".into(), json!(sc.len()));
    total.merge(r);
    // non-terminating and self-dependent shapes once more, one process each: here a hang (watchdog)
    // or memory exhaustion is itself the violation
    let nonterm: Vec<(usize, usize, usize)> = shapes()
        .iter()
        .enumerate()
        .filter(|(_, s)| s.class != Class::Finite)
        .flat_map(|(i, _)| [(i, 0usize, 50usize), (i, 3, 500), (i, 7, 500)])
        .collect();
    let icfg = util::ForkCfg { threads: ctx.threads, mem_bytes: 2 << 30, case_timeout_s: 15, died_signature: "C10/never-stopped".into(), resource_is_violation: true };
    let mut r = util::par_forked(&icfg, nonterm.len(), |sh| {
        let mut rep = Report::new();
        let (si, d, limit) = nonterm[sh.index];
        let all = shapes();
        let src = (all[si].make)(d);
        if !sh.begin_case(0, &|| format!("{} depth {d} limit {limit}: {src}", all[si].name)) {
            return rep;
        }
        rep.evaluations += 1;
        rep.states += 1;
        let o = run_small_stack(src.clone(), limit, 1024);
        rep.outcome(match &o { O::Value(_) => "nonterminating:value", O::StackOverflow => "nonterminating:stack-overflow", O::InfiniteRecursion => "nonterminating:infinite-recursion", O::Other(_) => "nonterminating:other" });
        if !matches!(o, O::StackOverflow | O::InfiniteRecursion) {
            rep.violation("C10/non-terminating-program-not-stopped", format!("{} depth {d} limit {limit}: {o:?}", all[si].name), json!({"type":"recursion","shape":all[si].name,"depth":d,"limit":limit,"source":src}));
        }
        rep
    });
    for v in r.violations.iter_mut() {
        if v.signature.ends_with("/process-died") {
            if let Some(sidx) = v.case["shard"].as_u64() {
                v.signature = format!("C10/never-stopped/{}", shapes()[nonterm[sidx as usize].0].name);
            }
        }
    }
    total.merge(r);
    // endless descents through fresh values, one process each (a hang is the violation)
    let ed = endless_descents();
    let mut r = util::par_forked(&icfg, ed.len(), |sh| {
        let mut rep = Report::new();
        let (name, src) = &ed[sh.index];
        if !sh.begin_case(0, &|| format!("{name}: {src}")) {
            return rep;
        }
        rep.evaluations += 1;
        rep.states += 1;
        rep.traces_validated += 1;
        let o = run_small_stack(src.clone(), 200, 1024);
        rep.outcome(match &o { O::Value(_) => "descent:value", O::StackOverflow => "descent:stack-overflow", O::InfiniteRecursion => "descent:infinite-recursion", O::Other(_) => "descent:other-error" });
        rep.distinct(&(name.split('/').next().unwrap_or("").to_string(), std::mem::discriminant(&o)));
        rep
    });
    for v in r.violations.iter_mut() {
        if let Some(sidx) = v.case["shard"].as_u64() {
            v.signature = format!("C10/never-stopped/descent-through-{}", ed[sidx as usize].0.split('/').next().unwrap_or(""));
        }
    }
    total.extra.insert("endless_descent_probes".into(), json!(ed.len()));
    total.merge(r);
    // redundant parentheses around a tail-position `tailstrict` call change nothing: same value,
    // same smallest sufficient frame limit (C15: a text means what its parenthesised form means)
    for (name, plain, paren) in [
        ("else-branch", "local f(n, acc) = if n == 0 then acc else f(n - 1, acc + 1) tailstrict; f(D, 0)", "local f(n, acc) = if n == 0 then acc else (f(n - 1, acc + 1) tailstrict); f(D, 0)"),
        ("whole-body", "local f(n, acc) = if n == 0 then acc else f(n - 1, acc + 1) tailstrict; f(D, 0)", "local f(n, acc) = (if n == 0 then acc else f(n - 1, acc + 1) tailstrict); f(D, 0)"),
        ("local-body", "local f(n, acc) = local m = n - 1; if n == 0 then acc else f(m, acc + 1) tailstrict; f(D, 0)", "local f(n, acc) = local m = n - 1; (if n == 0 then acc else ((f(m, acc + 1) tailstrict))); f(D, 0)"),
        ("method", "{ f(n, acc):: if n == 0 then acc else self.f(n - 1, acc + 1) tailstrict }.f(D, 0)", "{ f(n, acc):: (if n == 0 then acc else (self.f(n - 1, acc + 1) tailstrict)) }.f(D, 0)"),
    ] {
        for d in [5usize, 40, 300] {
            let threshold = |src: &str| (0..60usize).find(|&s| matches!(run_small_stack(src.replace('D', &d.to_string()), s, 1024), O::Value(_)));
            let (a, b) = (threshold(plain), threshold(paren));
            total.evaluations += 2;
            total.states += 1;
            if a != b {
                total.violation(
                    "C10/parentheses-change-tailstrict",
                    format!("tailstrict {name} depth {d}: smallest sufficient limit {a:?} as written, {b:?} with redundant parentheses"),
                    json!({"type":"recursion","shape":"tailstrict-parenthesised","depth":d,"limit":a.unwrap_or(0),"source":paren.replace('D', &d.to_string())}),
                );
            }
        }
    }
    // `tailstrict` on a call that is NOT in tail position only forces the arguments: the frame
    // threshold must be the one of the same program without the annotation
    for shape in shapes().iter().filter(|s| s.name.starts_with("tailstrict-call-")) {
        for d in [5usize, 17, 30] {
            let with = (shape.make)(d);
            let without = with.replace(" tailstrict", "");
            let threshold = |src: &str| (0..200usize).find(|&s| matches!(run_small_stack(src.to_string(), s, 1024), O::Value(_)));
            let (a, b) = (threshold(&with), threshold(&without));
            total.evaluations += 2;
            if a != b {
                total.violation(
                    "C10/tailstrict-changes-frame-accounting",
                    format!("{} depth {d}: smallest sufficient limit {a:?} with `tailstrict`, {b:?} without (the call is not in tail position)", shape.name),
                    json!({"type":"recursion","shape":shape.name,"depth":d,"limit":a.unwrap_or(0),"source":with}),
                );
            }
        }
    }
    let (l, d) = grid(quick);
    total.extra.insert("shapes".into(), json!(n));
    total.extra.insert("limits".into(), json!(l.len()));
    total.extra.insert("depths".into(), json!(d.len()));
    total.extra.insert("deep_depths".into(), json!(deep));
    total.states += (n * d.len()) as u64;
    util::finish(
        ctx,
        LevelInfo {
            level: "model_checking",
            rule: "every (recursion shape, frame limit, depth) of the grid (36 shapes x limits 0..24(..200),32,48,64,100,499..501,1000 x depths 0..24(..400),31..33,48,64,100,250,499..501,1000(,5000)) executed on a 1 MiB native stack; depths 2*10^4..3*10^5 at limits 500 and 10^7. Oracle: value / StackOverflow / InfiniteRecursion only, one threshold per (shape, depth), identical value above it, cycles reported as infinite recursion under a generous limit, non-terminating shapes never yield a value, process never dies. distinct+nontrivial = distinct (shape, outcome kind, depth, limit) classes".into(),
            assumptions: vec!["the frame limit is the library's max_stack; source-text nesting depth (parser recursion) belongs to C01".into()],
        },
        total,
    )
}

struct ShardView<'a> {
    outer: &'a util::Shard,
    residue: usize,
    per: usize,
}

fn shape_sweep_view(shape_idx: usize, quick: bool, v: &ShardView<'_>) -> Report {
    // reuse shape_sweep with a plain shard for the residue class, but forward progress marks
    let plain = util::Shard::plain(v.residue, v.per);
    shape_sweep(shape_idx, quick, &plain, v.outer)
}

pub fn replay(v: &serde_json::Value) -> i32 {
    let c = &v["case"];
    let name = c["shape"].as_str().unwrap_or("");
    let d = c["depth"].as_u64().unwrap_or(0) as usize;
    let s = c["limit"].as_u64().unwrap_or(500) as usize;
    let all = shapes();
    let Some(shape) = all.iter().find(|s| s.name == name) else { return 3 };
    let src = (shape.make)(d);
    let o = run_small_stack(src.clone(), s, 1024);
    println!("{name} depth {d} limit {s}: {o:?}\nsource: {}", util::truncate(&src, 500));
    1
}
