//! C06 — numbers are always finite doubles, read and printed exactly.
use crate::oracle;
use crate::refjson;
use crate::rt::{self, Outcome, RunCfg};
use crate::util::{self, Ctx, LevelInfo, Report};
use rsjsonnet_lang::arena::Arena;
use rsjsonnet_lang::program::Program;
use serde_json::{Value as J, json};

pub fn lit(x: f64) -> String {
    if x == 0.0 {
        return if x.is_sign_negative() { "(-0)".into() } else { "0".into() };
    }
    if x < 0.0 { format!("(-{:e})", -x) } else { format!("{x:e}") }
}

pub fn boundary() -> Vec<f64> {
    let max = f64::MAX;
    let mut v = vec![
        0.0, 1.0, 0.5, 1.5, 2.0, 3.0, 10.0, 0.1, 1e-7, 255.0, 256.0, 65535.0, 65536.0, 2147483647.0, 2147483648.0, 4294967295.0, 4294967296.0, 9007199254740991.0,
        9007199254740992.0, 9007199254740994.0, 9223372036854775808.0, 18446744073709551616.0, 1e15, 1e16, 1e21, 1e22, 1e100, 1e154, 1.3407807929942597e154, 1e155, 1e300, 1e308, max / 2.0, max,
        f64::MIN_POSITIVE, 5e-324, 1e-300, 1e-160, 4.9e-324 * 3.0, 0.3333333333333333, 2.718281828459045, 3.141592653589793, 709.0, 710.0, 1024.0, 1023.0, 63.0, 64.0,
    ];
    let neg: Vec<f64> = v.iter().map(|x| -x).collect();
    v.extend(neg);
    v
}

/// every binade x the given mantissa patterns x both signs
pub fn grid(mantissas: &[u64]) -> Vec<f64> {
    let mut v = Vec::new();
    for sign in [0u64, 1] {
        for exp in 0..2047u64 {
            for m in mantissas {
                let bits = (sign << 63) | (exp << 52) | (m & ((1 << 52) - 1));
                let x = f64::from_bits(bits);
                if x.is_finite() {
                    v.push(x);
                }
            }
        }
    }
    v
}

fn eval<'p>(p: &mut Program<'p>, src: &str) -> Outcome {
    match util::catch(|| rt::run_on(p, src.as_bytes(), &RunCfg::default())) {
        Ok(r) => r.outcome,
        Err(m) => Outcome::Panic(m),
    }
}

/// `expr` must evaluate to a number; checks finiteness inside and outside the language.
fn check_producer<'p>(p: &mut Program<'p>, name: &str, expr: &str, rep: &mut Report) {
    // 1. the value as the outside world sees it
    let o = eval(p, expr);
    rep.evaluations += 1;
    rep.traces_validated += 1;
    rep.transitions += 1;
    let case = json!({"type":"eval","source":expr});
    match &o {
        Outcome::Panic(m) => rep.violation(format!("C06/panic/{}", util::panic_site(m)), format!("`{expr}`: {m}"), case),
        Outcome::Value(s) => {
            rep.outcome("value");
            let finite = matches!(refjson::parse(s.trim()), Ok(crate::refeval::JT::Num(x)) if x.is_finite());
            if !finite {
                rep.violation(format!("C06/nonfinite-result/{name}"), format!("`{expr}` yields {}", util::truncate(s, 200)), case);
                return;
            }
            // 2. and inside the language
            let src = format!("local r = {expr}; [r - r == 0, std.type(r), r == r, std.toString(r)]");
            let o2 = eval(p, &src);
            rep.evaluations += 1;
            let ok = match &o2 {
                Outcome::Value(t) => serde_json::from_str::<J>(t).is_ok_and(|v| v[0] == true && v[1] == "number" && v[2] == true && v[3].as_str().is_some_and(|t| t.parse::<f64>().is_ok_and(|x| x.is_finite()))),
                _ => false,
            };
            if !ok {
                rep.violation(format!("C06/nonfinite-result/{name}"), format!("`{expr}` manifests as {s} but inside the language: {}", o2.short()), json!({"type":"eval","source":src}));
            }
        }
        o if o.is_fail() => rep.outcome(&format!("error:{}", o.eval_kind().unwrap_or("load"))),
        o => rep.violation(format!("C06/unexpected/{name}"), format!("`{expr}`: {}", o.short()), case),
    }
}

const BINOPS: &[&str] = &["+", "-", "*", "/", "%"];
const BITOPS: &[&str] = &["<<", ">>", "&", "|", "^"];
const UNARY: &[&str] = &["abs", "sign", "round", "floor", "ceil", "exp", "log", "log2", "log10", "sqrt", "sin", "cos", "tan", "asin", "acos", "atan", "deg2rad", "rad2deg", "exponent", "mantissa"];
const BINARY: &[&str] = &["pow", "atan2", "hypot", "mod", "modulo", "max", "min"];

fn producers(sh: &util::Shard, bd: &[f64], gr: &[f64]) -> Report {
    let mut rep = Report::new();
    let arena = Arena::new();
    let mut p = Program::new(&arena);
    let mut idx = 0u64;
    let mut mine = || {
        idx += 1;
        sh.mine(idx - 1)
    };
    for &a in bd {
        for &b in bd {
            if !mine() {
                continue;
            }
            for op in BINOPS {
                check_producer(&mut p, op, &format!("{} {op} {}", lit(a), lit(b)), &mut rep);
            }
            for op in BITOPS {
                check_producer(&mut p, op, &format!("{} {op} {}", lit(a), lit(b)), &mut rep);
            }
            for f in BINARY {
                check_producer(&mut p, &format!("std.{f}"), &format!("std.{f}({}, {})", lit(a), lit(b)), &mut rep);
            }
            rep.states += 1;
            rep.distinct(&((a.abs().log2().max(-1100.0) / 64.0) as i64, (b.abs().log2().max(-1100.0) / 64.0) as i64, a < 0.0, b < 0.0));
        }
        if mine() {
            check_producer(&mut p, "-", &format!("-{}", lit(a)), &mut rep);
            check_producer(&mut p, "~", &format!("~{}", lit(a)), &mut rep);
            check_producer(&mut p, "std.clamp", &format!("std.clamp({}, {}, {})", lit(a), lit(-a), lit(a / 2.0)), &mut rep);
            check_producer(&mut p, "std.parseJson", &format!("std.parseJson(\"{a:e}\")"), &mut rep);
            check_producer(&mut p, "std.parseYaml", &format!("std.parseYaml(\"{a:e}\")"), &mut rep);
        }
    }
    for &x in gr {
        if !mine() {
            continue;
        }
        for f in UNARY {
            check_producer(&mut p, &format!("std.{f}"), &format!("std.{f}({})", lit(x)), &mut rep);
        }
        rep.states += 1;
    }
    // digit strings around the overflow threshold of every radix parser (2^1024 has 309
    // decimal, 257 hexadecimal, 342 octal digits)
    for (f, digit, lens) in [("parseInt", '9', 300usize..=320), ("parseInt", '1', 300..=320), ("parseHex", 'f', 250..=300), ("parseHex", '1', 250..=300), ("parseOctal", '7', 335..=395), ("parseOctal", '1', 335..=395)] {
        for n in lens {
            if !mine() {
                continue;
            }
            let digits: String = std::iter::repeat_n(digit, n).collect();
            check_producer(&mut p, &format!("std.{f}"), &format!("std.{f}(\"{digits}\")"), &mut rep);
            if f == "parseInt" {
                check_producer(&mut p, "std.parseInt", &format!("std.parseInt(\"-{digits}\")"), &mut rep);
                check_producer(&mut p, "std.parseJson", &format!("std.parseJson(\"{digits}\")"), &mut rep);
            }
            // (std.parseYaml reads an overflowing 0x / 0o scalar as a string: not a number at all)
            rep.states += 1;
        }
    }
    // arrays of length <= 3 over a 12-double boundary set
    let set = [0.0, -0.0, 1.0, -1.0, f64::MAX, -f64::MAX, f64::MAX / 2.0, 1e308, -1e308, 5e-324, 9007199254740992.0, 0.1];
    for len in 0..=3 {
        util::for_each_seq(set.len(), len, |seq| {
            if !mine() {
                return;
            }
            let arr = format!("[{}]", seq.iter().map(|&i| lit(set[i])).collect::<Vec<_>>().join(", "));
            for (name, e) in [
                ("std.sum", format!("std.sum({arr})")),
                ("std.avg", format!("std.avg({arr})")),
                ("std.minArray", format!("std.minArray({arr}, onEmpty=0)")),
                ("std.maxArray", format!("std.maxArray({arr}, onEmpty=0)")),
                ("foldl+", format!("std.foldl(function(a, b) a + b, {arr}, 0)")),
                ("foldl*", format!("std.foldl(function(a, b) a * b, {arr}, 1)")),
                ("std.length", format!("std.length({arr})")),
            ] {
                check_producer(&mut p, name, &e, &mut rep);
            }
            rep.states += 1;
        });
    }
    rep
}

// ------------------------------------------------------------------ literals

fn literal_texts(quick: bool) -> Vec<String> {
    let ints = ["0", "1", "9", "17", "12345678901234567", "9007199254740993", "9007199254740992", "9007199254740991", "10000000000000000000000", "9999999999999999999999", "179769313486231580793728971405303415079934132710037826936173778980444968292764750946649017977587207096330286416692887910946555547851940402630657488671505820681908902000708383676273854845817711531764475730270069855571366959622842914819860834936475292719074168444365510704342711559699508093042880177904174497791", "179769313486231580793728971405303415079934132710037826936173778980444968292764750946649017977587207096330286416692887910946555547851940402630657488671505820681908902000708383676273854845817711531764475730270069855571366959622842914819860834936475292719074168444365510704342711559699508093042880177904174497792"];
    let nines = "9".repeat(400);
    let fracs = ["", "0", "5", "25", "12345678901234567", "000000000000000000001", "1000000000000000055511151231257827021181583404541015625", "99999999999999994"];
    let exps: Vec<String> = {
        let mut v: Vec<String> = vec!["".into()];
        for e in [0i64, 1, 2, 22, 23, 307, 308, 309, 323, 324, 325, 400] {
            v.push(format!("e{e}"));
            v.push(format!("e-{e}"));
            if !quick || e < 30 {
                v.push(format!("E+{e}"));
            }
        }
        v.push("e9223372036854775807".into());
        v.push("e-9223372036854775808".into());
        v.push("e99999999999999999999".into());
        v.push("e-99999999999999999999".into());
        v.push("e-9223372036854775807".into());
        v.push("e9223372036854775808".into());
        v.push("E+18446744073709551616".into());
        v.push("e-18446744073709551615".into());
        v
    };
    let mut out = Vec::new();
    for i in ints.iter().copied().chain([nines.as_str()]) {
        for f in fracs {
            for e in &exps {
                let mut t = String::from(i);
                if !f.is_empty() {
                    t.push('.');
                    t.push_str(f);
                }
                t.push_str(e);
                out.push(t);
            }
        }
    }
    // underscores at every position of a few texts (legal and illegal)
    for base in ["1234.5678e12", "10.05e-3", "100", "1.0"] {
        for pos in 0..=base.len() {
            let mut t = String::from(base);
            t.insert(pos, '_');
            out.push(t);
        }
    }
    out
}

fn strip_underscores_if_legal(t: &str) -> Option<String> {
    // legal: every underscore sits between two digits
    let b = t.as_bytes();
    for (i, c) in b.iter().enumerate() {
        if *c == b'_' {
            let ok = i > 0 && i + 1 < b.len() && b[i - 1].is_ascii_digit() && b[i + 1].is_ascii_digit();
            if !ok {
                return None;
            }
        }
    }
    Some(t.replace('_', ""))
}

fn check_literals(ctx: &Ctx, total: &mut Report) {
    let texts = literal_texts(ctx.quick());
    let reqs: Vec<J> = texts.iter().map(|t| json!({"op":"float","s": strip_underscores_if_legal(t).unwrap_or_else(|| "x".into())})).collect();
    let ans = oracle::python(&reqs);
    let arena = Arena::new();
    let mut p = Program::new(&arena);
    for (t, a) in texts.iter().zip(ans.iter()) {
        // bits of the literal, observed through exact operations only
        let src = format!("local x = {t}; [x, std.toString(x)]");
        let o = eval(&mut p, &src);
        total.evaluations += 1;
        total.states += 1;
        total.traces_validated += 1;
        let case = json!({"type":"eval","source":src});
        let leading_zero = t.len() > 1 && t.starts_with('0') && t.as_bytes()[1].is_ascii_digit();
        match (a, &o) {
            (_, Outcome::Panic(m)) => total.violation(format!("C06/panic/{}", util::panic_site(m)), format!("literal {t}: {m}"), case),
            (J::String(e), o) => {
                total.outcome(&format!("literal:{e}"));
                if !o.is_fail() {
                    total.violation(format!("C06/literal/accepted-{e}"), format!("literal `{}` should be rejected ({e}) but gives {}", util::truncate(t, 80), o.short()), case);
                }
            }
            (J::Object(m), o) => {
                if leading_zero {
                    continue;
                }
                let want = f64::from_bits(m["f"].as_u64().unwrap());
                total.outcome("literal:value");
                match o {
                    Outcome::Value(s) => {
                        let v: J = serde_json::from_str(s).unwrap_or(J::Null);
                        let got = v[0].as_f64();
                        if got.map(|g| g.to_bits()) != Some(want.to_bits()) && !(want == 0.0 && got == Some(0.0)) {
                            total.violation("C06/literal/not-correctly-rounded", format!("literal `{}` denotes {got:?}, the correctly rounded double is {want:e}", util::truncate(t, 80)), case);
                        }
                    }
                    o => {
                        // (a literal whose exponent does not fit 64 bits still denotes 0 or a
                        // finite double: rejecting it is reported under its own signature)
                        let sig = if matches!(o, Outcome::Load { kind, .. } if kind.contains("ExpOverflow")) { "C06/literal/rejected-valid/exponent-beyond-64-bits" } else { "C06/literal/rejected-valid" };
                        total.violation(sig, format!("literal `{}` should be {want:e} but gives {}", util::truncate(t, 80), o.short()), case);
                    }
                }
            }
            _ => {}
        }
        total.distinct(&(t.len().min(40), t.contains('e') || t.contains('E'), t.contains('.'), a.is_string()));
    }
    total.extra.insert("literal_texts".into(), json!(texts.len()));
}

// ------------------------------------------------------------------ printing

fn sig_digits(text: &str) -> String {
    let t = text.trim_start_matches('-');
    let mant = t.split(['e', 'E']).next().unwrap_or("");
    let d: String = mant.chars().filter(|c| c.is_ascii_digit()).collect();
    let d = d.trim_start_matches('0').trim_end_matches('0').to_string();
    if d.is_empty() { "0".into() } else { d }
}

fn printing(sh: &util::Shard, gr: &[f64], reprs: &[J]) -> Report {
    let mut rep = Report::new();
    let arena = Arena::new();
    let mut p = Program::new(&arena);
    for (i, &x) in gr.iter().enumerate() {
        if !sh.mine(i as u64) {
            continue;
        }
        let src = format!("local x = {}; [std.toString(x), \"\" + x, std.manifestJsonMinified(x), std.manifestJsonEx([x], \"\")]", lit(x));
        let o = eval(&mut p, &src);
        rep.evaluations += 1;
        rep.states += 1;
        rep.traces_validated += 1;
        rep.transitions += 4;
        let case = json!({"type":"print","bits":x.to_bits(),"source":src});
        let Outcome::Value(s) = &o else {
            rep.violation(format!("C06/print/{}", o.class()), format!("printing {x:e}: {}", o.short()), case);
            continue;
        };
        let v: J = serde_json::from_str(s).unwrap_or(J::Null);
        let want_digits = sig_digits(reprs[i].as_str().unwrap_or(""));
        for k in 0..3 {
            let t = v[k].as_str().unwrap_or("");
            let back: Option<f64> = t.parse().ok();
            if back.map(|b| b.to_bits()) != Some(x.to_bits()) && !(x == 0.0 && back == Some(0.0) && (t.starts_with('-') == x.is_sign_negative())) {
                rep.violation("C06/print/does-not-read-back", format!("{x:e} (bits {:#x}) prints as {t:?}, which reads back as {back:?}", x.to_bits()), case.clone());
                break;
            }
            if refjson::parse(t).is_err() {
                rep.violation("C06/print/not-a-json-number", format!("{x:e} prints as {t:?}"), case.clone());
                break;
            }
            // several decimals of the shortest length may round-trip (ties): compare the length
            if sig_digits(t).len() != want_digits.len() {
                rep.violation("C06/print/not-shortest", format!("{x:e} prints as {t:?} ({} significant digits), the shortest round-trip decimal has {} ({want_digits})", sig_digits(t).len(), want_digits.len()), case.clone());
                break;
            }
        }
        rep.outcome(if x.abs() >= 1e17 || (x != 0.0 && x.abs() < 1e-5) { "extreme-magnitude" } else { "ordinary-magnitude" });
        rep.distinct(&(((x.to_bits() >> 52) & 0x7ff) / 16, want_digits.len()));
        if i % 4001 == 0 {
            rep.sample(json!({"double": format!("{x:e}"), "printed": v[0]}));
        }
    }
    rep
}

pub fn run(ctx: &Ctx) -> i32 {
    let mut total = Report::new();
    let cfg = util::ForkCfg { threads: ctx.threads, mem_bytes: 4 << 30, case_timeout_s: 120, died_signature: "C06/abort".into(), resource_is_violation: false };
    let bd = boundary();
    let mant_q: Vec<u64> = vec![0, 1, (1 << 52) - 1];
    let mant_t: Vec<u64> = vec![0, 1, 1 << 51, (1 << 52) - 1, 0x5555555555555, 0xAAAAAAAAAAAAA, 0x8000000000001, 0x7ffffffffffff, 0x0000000100000, 0x921fb54442d18];
    let gr_prod = grid(if ctx.quick() { &[0] } else { &mant_q });
    let r = util::par_forked(&cfg, 256, |sh| producers(sh, &bd, &gr_prod));
    total.extra.insert("boundary_doubles".into(), json!(bd.len()));
    total.extra.insert("unary_grid_doubles".into(), json!(gr_prod.len()));
    total.merge(r);
    check_literals(ctx, &mut total);
    let mut gr = grid(if ctx.quick() { &mant_q } else { &mant_t });
    gr.extend(bd.iter().copied());
    let reprs = oracle::python(&gr.iter().map(|x| json!({"op":"repr","bits":x.to_bits()})).collect::<Vec<_>>());
    let r = util::par_forked(&cfg, 128, |sh| printing(sh, &gr, &reprs));
    total.extra.insert("printed_doubles".into(), json!(gr.len()));
    total.merge(r);
    util::finish(
        ctx,
        LevelInfo {
            level: "model_checking",
            rule: "producers: every arithmetic/bitwise operator and binary numeric builtin over all pairs of 96 boundary doubles, every unary numeric builtin over every binade (x mantissa patterns, both signs), sum/avg/min/max/foldl over all arrays of length <=3 over 12 boundary doubles: result is an error or a finite number (checked inside the language and on the manifested text); literals: the grid of int/frac/exponent texts and underscore placements against Python float(); printing: every binade x mantissa patterns through 4 number-to-text paths: reads back to the same bits, JSON number grammar, as many significant digits as Python repr (the shortest). distinct+nontrivial = distinct magnitude classes".into(),
            assumptions: vec!["Python float()/repr are correctly rounded / shortest".into(), "doubles outside the binade x mantissa grid are not covered".into()],
        },
        total,
    )
}

pub fn replay(v: &serde_json::Value) -> i32 {
    if let Some(src) = v["case"]["source"].as_str() {
        println!("{src}\n  => {}", rt::run_fresh(src.as_bytes(), &RunCfg::default()).outcome.short());
    }
    1
}
