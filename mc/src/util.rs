//! Shared engine pieces: report accumulation, evidence writing, known findings,
//! parallel sharding, panic capture.
use serde_json::{Value as J, json};
use std::collections::{BTreeMap, BTreeSet, HashSet};
use std::hash::{Hash, Hasher};
use std::time::Instant;

pub fn verif_dir() -> String {
    std::env::var("VERIF_ROOT").unwrap_or_else(|_| "/verif".to_string())
}

#[derive(Clone, Debug)]
pub struct Violation {
    /// Defect-specific signature (matched against known_findings.json).
    pub signature: String,
    pub what: String,
    /// Replayable case.
    pub case: J,
}

#[derive(Default)]
pub struct Report {
    pub evaluations: u64,
    pub distinct: HashSet<u64>,
    pub states: u64,
    pub transitions: u64,
    pub traces_validated: u64,
    pub outcomes: BTreeMap<String, u64>,
    pub samples: Vec<J>,
    pub violations: Vec<Violation>,
    pub violation_count: u64,
    pub caps: BTreeSet<String>,
    pub resource: u64,
    pub extra: BTreeMap<String, J>,
    pub counters: BTreeMap<String, u64>,
    pub exhaustive: bool,
}

pub fn hash_of<T: Hash>(t: &T) -> u64 {
    let mut h = std::collections::hash_map::DefaultHasher::new();
    t.hash(&mut h);
    h.finish()
}

impl Report {
    pub fn new() -> Self {
        Self {
            exhaustive: true,
            ..Default::default()
        }
    }
    pub fn outcome(&mut self, class: &str) {
        *self.outcomes.entry(class.to_string()).or_insert(0) += 1;
    }
    pub fn count(&mut self, key: &str, n: u64) {
        *self.counters.entry(key.to_string()).or_insert(0) += n;
    }
    pub fn distinct<T: Hash>(&mut self, t: &T) {
        self.distinct.insert(hash_of(t));
    }
    pub fn sample(&mut self, s: J) {
        if self.samples.len() < 6 {
            self.samples.push(s);
        }
    }
    pub fn violation(&mut self, signature: impl Into<String>, what: impl Into<String>, case: J) {
        self.violation_count += 1;
        let signature = signature.into();
        // keep at most 3 examples per signature, first (smallest) ones
        let n = self
            .violations
            .iter()
            .filter(|v| v.signature == signature)
            .count();
        if n < 3 {
            self.violations.push(Violation {
                signature,
                what: what.into(),
                case,
            });
        }
    }
    pub fn merge(&mut self, other: Report) {
        self.evaluations += other.evaluations;
        self.distinct.extend(other.distinct);
        self.states += other.states;
        self.transitions += other.transitions;
        self.traces_validated += other.traces_validated;
        for (k, v) in other.outcomes {
            *self.outcomes.entry(k).or_insert(0) += v;
        }
        for (k, v) in other.counters {
            *self.counters.entry(k).or_insert(0) += v;
        }
        for s in other.samples {
            self.sample(s);
        }
        self.violation_count += other.violation_count;
        for v in other.violations {
            let n = self
                .violations
                .iter()
                .filter(|x| x.signature == v.signature)
                .count();
            if n < 3 {
                self.violations.push(v);
            }
        }
        self.caps.extend(other.caps);
        self.resource += other.resource;
        self.exhaustive &= other.exhaustive;
        for (k, v) in other.extra {
            self.extra.insert(k, v);
        }
    }
}

pub struct Ctx {
    pub id: String,
    pub tier: String,
    pub seed: u64,
    pub start: Instant,
    pub threads: usize,
}

impl Ctx {
    pub fn quick(&self) -> bool {
        self.tier == "quick"
    }
    pub fn elapsed(&self) -> f64 {
        self.start.elapsed().as_secs_f64()
    }
}

#[derive(Clone, Debug)]
pub struct KnownFinding {
    pub property: String,
    pub signature: String,
    pub status: String,
    pub what: String,
}

pub fn load_known() -> Vec<KnownFinding> {
    let path = format!("{}/known_findings.json", verif_dir());
    let Ok(text) = std::fs::read_to_string(&path) else {
        return Vec::new();
    };
    let v: J = serde_json::from_str(&text).expect("known_findings.json is not valid JSON");
    let mut out = Vec::new();
    for e in v["findings"].as_array().cloned().unwrap_or_default() {
        out.push(KnownFinding {
            property: e["property"].as_str().unwrap_or("").to_string(),
            signature: e["signature"].as_str().unwrap_or("").to_string(),
            status: e["status"].as_str().unwrap_or("").to_string(),
            what: e["what"].as_str().unwrap_or("").to_string(),
        });
    }
    out
}

pub struct LevelInfo {
    pub level: &'static str,
    pub rule: String,
    pub assumptions: Vec<String>,
}

/// Writes the evidence file, prints verdict lines, returns the process exit code.
pub fn finish(ctx: &Ctx, info: LevelInfo, mut rep: Report) -> i32 {
    let known = load_known();
    let mut by_sig: BTreeMap<String, Vec<Violation>> = BTreeMap::new();
    for v in rep.violations.drain(..) {
        by_sig.entry(v.signature.clone()).or_default().push(v);
    }
    let mut unlisted = 0;
    let mut known_hit = Vec::new();
    let mut viol_lines = Vec::new();
    std::fs::create_dir_all(format!("{}/replays", verif_dir())).ok();
    for (sig, vs) in &by_sig {
        let k = known
            .iter()
            .find(|k| k.property == ctx.id && k.signature == *sig && k.status == "known");
        if let Some(k) = k {
            println!(
                "KNOWN-FINDING: property={} {} [{}] e.g. {}",
                ctx.id,
                k.what,
                sig,
                truncate(&vs[0].what, 300)
            );
            known_hit.push(json!({"signature": sig, "example": vs[0].case, "what": vs[0].what}));
        } else {
            unlisted += 1;
            let fname = format!(
                "{}/replays/{}-{}-{:016x}.json",
                verif_dir(),
                ctx.id,
                ctx.tier,
                hash_of(sig)
            );
            let body = json!({
                "property": ctx.id,
                "signature": sig,
                "what": vs[0].what,
                "case": vs[0].case,
                "more_cases": vs.iter().skip(1).map(|v| v.case.clone()).collect::<Vec<_>>(),
            });
            std::fs::write(&fname, serde_json::to_string_pretty(&body).unwrap()).ok();
            println!("VIOLATION property={} replay={}", ctx.id, fname);
            println!("  signature: {sig}");
            println!("  what: {}", truncate(&vs[0].what, 600));
            viol_lines.push(json!({"signature": sig, "what": vs[0].what, "replay": fname}));
        }
    }
    let wall = ctx.elapsed();
    let mut coverage = serde_json::Map::new();
    coverage.insert("evaluations".into(), json!(rep.evaluations));
    coverage.insert("distinct_nontrivial".into(), json!(rep.distinct.len()));
    coverage.insert("rule".into(), json!(info.rule));
    coverage.insert("samples".into(), J::Array(rep.samples.clone()));
    if info.level == "model_checking" {
        coverage.insert("states".into(), json!(rep.states));
        coverage.insert("transitions".into(), json!(rep.transitions));
        coverage.insert(
            "traces_validated_against_impl".into(),
            json!(rep.traces_validated),
        );
    }
    coverage.insert("exhaustive".into(), json!(rep.exhaustive && rep.caps.is_empty()));
    coverage.insert("distinct_outcomes".into(), json!(rep.outcomes.len()));
    coverage.insert("outcomes".into(), json!(rep.outcomes));
    coverage.insert("counters".into(), json!(rep.counters));
    coverage.insert("caps_hit".into(), json!(rep.caps));
    coverage.insert("resource_outcomes".into(), json!(rep.resource));
    coverage.insert("known_findings_hit".into(), J::Array(known_hit));
    coverage.insert("violation_details".into(), J::Array(viol_lines));
    coverage.insert("violating_cases_total".into(), json!(rep.violation_count));
    for (k, v) in rep.extra {
        coverage.insert(k, v);
    }
    let ev = json!({
        "property_id": ctx.id,
        "tier": ctx.tier,
        "seed": ctx.seed,
        "level": info.level,
        "coverage": J::Object(coverage),
        "assumptions": info.assumptions,
        "wall_s": wall,
        "violations": unlisted,
    });
    std::fs::create_dir_all(format!("{}/evidence", verif_dir())).ok();
    let path = format!("{}/evidence/{}.json", verif_dir(), ctx.id);
    std::fs::write(&path, serde_json::to_string_pretty(&ev).unwrap()).expect("write evidence");
    println!(
        "{} {}: evaluations={} distinct={} states={} transitions={} outcomes={} known={} violations={} wall={:.1}s",
        ctx.id,
        ctx.tier,
        rep.evaluations,
        rep.distinct.len(),
        rep.states,
        rep.transitions,
        rep.outcomes.len(),
        by_sig.len() - unlisted,
        unlisted,
        wall
    );
    if unlisted > 0 { 1 } else { 0 }
}

pub fn truncate(s: &str, n: usize) -> String {
    if s.chars().count() <= n {
        s.to_string()
    } else {
        let t: String = s.chars().take(n).collect();
        format!("{t}…")
    }
}

/// Runs `f(shard, nshards)` on `threads` OS threads (big stacks) and merges the reports.
pub fn par_shards<F>(threads: usize, nshards: usize, f: F) -> Report
where
    F: Fn(usize, usize) -> Report + Sync,
{
    let next = std::sync::atomic::AtomicUsize::new(0);
    let total = std::sync::Mutex::new(Report::new());
    std::thread::scope(|s| {
        for _ in 0..threads {
            std::thread::Builder::new()
                .stack_size(256 << 20)
                .spawn_scoped(s, || {
                    loop {
                        let i = next.fetch_add(1, std::sync::atomic::Ordering::SeqCst);
                        if i >= nshards {
                            break;
                        }
                        let r = f(i, nshards);
                        total.lock().unwrap().merge(r);
                    }
                })
                .unwrap();
        }
    });
    total.into_inner().unwrap()
}

thread_local! {
    static LAST_PANIC: std::cell::RefCell<Option<String>> = const { std::cell::RefCell::new(None) };
    static CATCHING: std::cell::Cell<u32> = const { std::cell::Cell::new(0) };
}

pub fn install_panic_hook() {
    std::panic::set_hook(Box::new(|info| {
        let msg = if let Some(s) = info.payload().downcast_ref::<&str>() {
            s.to_string()
        } else if let Some(s) = info.payload().downcast_ref::<String>() {
            s.clone()
        } else {
            "<non-string panic>".to_string()
        };
        let loc = info
            .location()
            .map(|l| format!("{}:{}", l.file(), l.line()))
            .unwrap_or_default();
        if CATCHING.with(|c| c.get()) == 0 {
            eprintln!("HARNESS PANIC (outside any guarded case): {msg} @ {loc}");
        }
        LAST_PANIC.with(|p| *p.borrow_mut() = Some(format!("{msg} @ {loc}")));
    }));
}

/// Runs `f`, converting a panic into `Err(message @ location)`.
pub fn catch<R>(f: impl FnOnce() -> R) -> Result<R, String> {
    CATCHING.with(|c| c.set(c.get() + 1));
    let r = std::panic::catch_unwind(std::panic::AssertUnwindSafe(f));
    CATCHING.with(|c| c.set(c.get() - 1));
    match r {
        Ok(r) => Ok(r),
        Err(_) => Err(LAST_PANIC
            .with(|p| p.borrow_mut().take())
            .unwrap_or_else(|| "<panic>".to_string())),
    }
}

/// Location part of a captured panic message ("file:line"), with the /repo prefix removed.
pub fn panic_site(msg: &str) -> String {
    let loc = msg.rsplit(" @ ").next().unwrap_or("");
    let loc = loc.trim_start_matches("/repo/");
    // drop the line number: signatures must survive unrelated edits
    loc.rsplit_once(':').map(|(f, _)| f.to_string()).unwrap_or(loc.to_string())
}

pub fn set_mem_limit(bytes: u64) {
    unsafe {
        let lim = libc::rlimit {
            rlim_cur: bytes,
            rlim_max: bytes,
        };
        libc::setrlimit(libc::RLIMIT_AS, &lim);
    }
}

/// Iterates all sequences of length `len` over `0..base` in lexicographic order, calling `f`.
pub fn for_each_seq(base: usize, len: usize, mut f: impl FnMut(&[usize])) {
    let mut idx = vec![0usize; len];
    if base == 0 && len > 0 {
        return;
    }
    loop {
        f(&idx);
        let mut k = len;
        loop {
            if k == 0 {
                return;
            }
            k -= 1;
            idx[k] += 1;
            if idx[k] < base {
                break;
            }
            idx[k] = 0;
        }
    }
}

// ------------------------------------------------------------------------------------------
// Crash-isolated sharding: every shard runs in a forked child under an address-space limit and
// a per-case watchdog; a shard whose process dies is located (which case), confirmed by a
// second execution of that case alone, and completed with the case skipped.

impl Report {
    pub fn to_json(&self) -> J {
        json!({
            "evaluations": self.evaluations,
            "distinct": self.distinct.iter().collect::<Vec<_>>(),
            "states": self.states,
            "transitions": self.transitions,
            "traces_validated": self.traces_validated,
            "outcomes": self.outcomes,
            "samples": self.samples,
            "violations": self.violations.iter().map(|v| json!({"signature": v.signature, "what": v.what, "case": v.case})).collect::<Vec<_>>(),
            "violation_count": self.violation_count,
            "caps": self.caps,
            "resource": self.resource,
            "extra": self.extra,
            "counters": self.counters,
            "exhaustive": self.exhaustive,
        })
    }
    pub fn from_json(v: &J) -> Report {
        let mut r = Report::new();
        r.evaluations = v["evaluations"].as_u64().unwrap_or(0);
        r.distinct = v["distinct"].as_array().map(|a| a.iter().filter_map(|x| x.as_u64()).collect()).unwrap_or_default();
        r.states = v["states"].as_u64().unwrap_or(0);
        r.transitions = v["transitions"].as_u64().unwrap_or(0);
        r.traces_validated = v["traces_validated"].as_u64().unwrap_or(0);
        if let Some(o) = v["outcomes"].as_object() {
            for (k, x) in o {
                r.outcomes.insert(k.clone(), x.as_u64().unwrap_or(0));
            }
        }
        r.samples = v["samples"].as_array().cloned().unwrap_or_default();
        for x in v["violations"].as_array().cloned().unwrap_or_default() {
            r.violations.push(Violation {
                signature: x["signature"].as_str().unwrap_or("").to_string(),
                what: x["what"].as_str().unwrap_or("").to_string(),
                case: x["case"].clone(),
            });
        }
        r.violation_count = v["violation_count"].as_u64().unwrap_or(0);
        r.caps = v["caps"].as_array().map(|a| a.iter().filter_map(|x| x.as_str().map(String::from)).collect()).unwrap_or_default();
        r.resource = v["resource"].as_u64().unwrap_or(0);
        if let Some(o) = v["extra"].as_object() {
            for (k, x) in o {
                r.extra.insert(k.clone(), x.clone());
            }
        }
        if let Some(o) = v["counters"].as_object() {
            for (k, x) in o {
                r.counters.insert(k.clone(), x.as_u64().unwrap_or(0));
            }
        }
        r.exhaustive = v["exhaustive"].as_bool().unwrap_or(true);
        r
    }
}

pub struct Shard {
    pub index: usize,
    pub n: usize,
    slot: *mut u64,
    skip: Vec<u64>,
    locate: Option<u64>,
    describe_path: String,
}

unsafe impl Sync for Shard {}
unsafe impl Send for Shard {}

impl Shard {
    /// Plain in-process shard (no isolation), for callers that share code paths.
    pub fn plain(index: usize, n: usize) -> Shard {
        Shard {
            index,
            n,
            slot: std::ptr::null_mut(),
            skip: Vec::new(),
            locate: None,
            describe_path: String::new(),
        }
    }
    /// true if case `idx` (a running index private to the shard function) belongs to this shard
    pub fn mine(&self, idx: u64) -> bool {
        (idx % self.n as u64) as usize == self.index
    }
    /// Must be called before executing case `idx`; returns false when the case is to be skipped.
    pub fn begin_case(&self, idx: u64, describe: &dyn Fn() -> String) -> bool {
        if let Some(k) = self.locate {
            if idx != k {
                return false;
            }
            let _ = std::fs::write(&self.describe_path, describe());
        } else if self.skip.contains(&idx) {
            return false;
        }
        if !self.slot.is_null() {
            unsafe {
                std::ptr::write_volatile(self.slot, idx + 1);
                let c = std::ptr::read_volatile(self.slot.add(1));
                std::ptr::write_volatile(self.slot.add(1), c + 1);
            }
        }
        true
    }
}

pub struct ForkCfg {
    pub threads: usize,
    pub mem_bytes: u64,
    pub case_timeout_s: u64,
    /// signature prefix for "process died" violations, e.g. "C01/abort"
    pub died_signature: String,
    /// report memory exhaustion / watchdog deaths as violations too (properties about being
    /// stopped by a limit); default false = resource outcome
    pub resource_is_violation: bool,
}

enum ChildEnd {
    Done(Report),
    Died { case: Option<u64>, why: String, resource: bool },
}

fn tmp_dir() -> String {
    let d = format!("{}/target/tmp", verif_dir());
    std::fs::create_dir_all(&d).ok();
    d
}

fn run_child<F>(cfg: &ForkCfg, shard: usize, nshards: usize, skip: &[u64], locate: Option<u64>, slots: *mut u64, f: &F) -> libc::pid_t
where
    F: Fn(&Shard) -> Report + Sync,
{
    let slot = unsafe { slots.add(shard * 2) };
    unsafe {
        std::ptr::write_volatile(slot, 0);
        std::ptr::write_volatile(slot.add(1), 0);
    }
    let pid = unsafe { libc::fork() };
    if pid != 0 {
        return pid;
    }
    // ---- child
    let me = std::process::id();
    let dir = tmp_dir();
    let errp = std::ffi::CString::new(format!("{dir}/{me}.err")).unwrap();
    unsafe {
        let fd = libc::open(errp.as_ptr(), libc::O_WRONLY | libc::O_CREAT | libc::O_TRUNC, 0o644);
        if fd >= 0 {
            libc::dup2(fd, 2);
            libc::close(fd);
        }
    }
    // the budget is on top of what the child inherited from the parent (copy-on-write tables)
    let inherited = std::fs::read_to_string("/proc/self/statm")
        .ok()
        .and_then(|t| t.split_whitespace().next().and_then(|x| x.parse::<u64>().ok()))
        .map(|pages| pages * 4096)
        .unwrap_or(0);
    set_mem_limit(cfg.mem_bytes + inherited + (600 << 20));
    let timeout = cfg.case_timeout_s;
    let slot_addr = slot as usize;
    // watchdog: a case that makes no progress for `timeout` seconds ends the process
    std::thread::spawn(move || {
        let slot = slot_addr as *mut u64;
        let mut last = u64::MAX;
        let mut since = std::time::Instant::now();
        loop {
            std::thread::sleep(std::time::Duration::from_millis(250));
            let cur = unsafe { std::ptr::read_volatile(slot.add(1)) };
            if cur == 0 {
                // the shard does not report progress (no begin_case): nothing to watch
                continue;
            }
            if cur != last {
                last = cur;
                since = std::time::Instant::now();
            } else if since.elapsed().as_secs() >= timeout {
                eprintln!("WATCHDOG: no progress for {timeout}s");
                unsafe { libc::_exit(97) };
            }
        }
    });
    let sh = Shard {
        index: shard,
        n: nshards,
        slot,
        skip: skip.to_vec(),
        locate,
        describe_path: format!("{dir}/{me}.case"),
    };
    let out = format!("{dir}/{me}.json");
    let code = std::thread::scope(|sc| {
        let handle = std::thread::Builder::new()
            .stack_size(512 << 20)
            .spawn_scoped(sc, || {
                let r = catch(|| f(&sh));
                match r {
                    Ok(rep) => {
                        let _ = std::fs::write(&out, serde_json::to_string(&rep.to_json()).unwrap());
                        0
                    }
                    Err(m) => {
                        eprintln!("HARNESS-PANIC: {m}");
                        98
                    }
                }
            });
        match handle {
            Ok(h) => h.join().unwrap_or(99),
            Err(_) => 99,
        }
    });
    unsafe { libc::_exit(code) };
}

fn wait_child(pid: libc::pid_t, slots: *mut u64, shard: usize) -> ChildEnd {
    let mut status: libc::c_int = 0;
    unsafe { libc::waitpid(pid, &mut status, 0) };
    collect_child(pid, status, slots, shard)
}

fn collect_child(pid: libc::pid_t, status: libc::c_int, slots: *mut u64, shard: usize) -> ChildEnd {
    let dir = tmp_dir();
    let err = std::fs::read_to_string(format!("{dir}/{pid}.err")).unwrap_or_default();
    let out = format!("{dir}/{pid}.json");
    let cleanup = || {
        for ext in ["err", "json", "case"] {
            let _ = std::fs::remove_file(format!("{dir}/{pid}.{ext}"));
        }
    };
    let exited = libc::WIFEXITED(status);
    let code = if exited { libc::WEXITSTATUS(status) } else { -1 };
    if exited && code == 0 {
        if let Ok(text) = std::fs::read_to_string(&out) {
            if let Ok(v) = serde_json::from_str::<J>(&text) {
                cleanup();
                return ChildEnd::Done(Report::from_json(&v));
            }
        }
    }
    let progress = unsafe { std::ptr::read_volatile(slots.add(shard * 2)) };
    let case = if progress == 0 { None } else { Some(progress - 1) };
    let tail: String = err.lines().rev().take(6).collect::<Vec<_>>().into_iter().rev().collect::<Vec<_>>().join(" | ");
    let resource = code == 97 || err.contains("memory allocation of") || err.contains("WATCHDOG");
    let why = if exited {
        format!("exit status {code}: {tail}")
    } else {
        format!("killed by signal {}: {tail}", libc::WTERMSIG(status))
    };
    cleanup();
    ChildEnd::Died { case, why, resource }
}

/// Runs `f` for every shard in forked children (at most `cfg.threads` at a time).
/// MUST be called from a single-threaded parent.
pub fn par_forked<F>(cfg: &ForkCfg, nshards: usize, f: F) -> Report
where
    F: Fn(&Shard) -> Report + Sync,
{
    let slots = unsafe {
        libc::mmap(
            std::ptr::null_mut(),
            nshards * 16 + 16,
            libc::PROT_READ | libc::PROT_WRITE,
            libc::MAP_SHARED | libc::MAP_ANONYMOUS,
            -1,
            0,
        ) as *mut u64
    };
    assert!(!slots.is_null() && slots as isize != -1, "mmap failed");
    let mut total = Report::new();
    // (shard, skip list, locate)
    let mut queue: std::collections::VecDeque<(usize, Vec<u64>, Option<u64>)> = (0..nshards).map(|s| (s, Vec::new(), None)).collect();
    let mut running: Vec<(libc::pid_t, usize, Vec<u64>, Option<u64>)> = Vec::new();
    let mut died_total = 0u64;
    while !queue.is_empty() || !running.is_empty() {
        while running.len() < cfg.threads {
            let Some((s, skip, locate)) = queue.pop_front() else { break };
            let pid = run_child(cfg, s, nshards, &skip, locate, slots, &f);
            if pid < 0 {
                eprintln!("ENGINE-ERROR: fork failed");
                std::process::exit(3);
            }
            running.push((pid, s, skip, locate));
        }
        let mut status: libc::c_int = 0;
        let pid = unsafe { libc::waitpid(-1, &mut status, 0) };
        if pid <= 0 {
            continue;
        }
        let Some(pos) = running.iter().position(|r| r.0 == pid) else { continue };
        let (_, s, skip, locate) = running.remove(pos);
        // the description file must be read before cleanup
        let desc = std::fs::read_to_string(format!("{}/{pid}.case", tmp_dir())).ok();
        match collect_child(pid, status, slots, s) {
            ChildEnd::Done(rep) => {
                if locate.is_some() {
                    // the located case did not fail when run alone: not deterministic
                    total.count("process_deaths_not_reproduced_alone", 1);
                    let mut sk = skip.clone();
                    sk.push(locate.unwrap());
                    queue.push_back((s, sk, None));
                } else {
                    total.merge(rep);
                }
            }
            ChildEnd::Died { case, why, resource } => {
                died_total += 1;
                if died_total > 2000 {
                    eprintln!("ENGINE-ERROR: more than 2000 worker deaths; giving up ({why})");
                    std::process::exit(3);
                }
                match (locate, case) {
                    (None, Some(k)) => {
                        // first death: run the culprit alone to get its description and confirm
                        queue.push_front((s, skip, Some(k)));
                    }
                    (Some(k), _) => {
                        let desc = desc.unwrap_or_else(|| format!("case #{k} of shard {s}/{nshards}"));
                        if resource && !cfg.resource_is_violation {
                            total.resource += 1;
                            total.count("resource_outcomes(memory or time cap)", 1);
                            if total.extra.len() < 40 {
                                total.extra.insert(format!("resource_case_{}", total.resource), json!(truncate(&desc, 300)));
                            }
                        } else {
                            total.violation(
                                format!("{}/process-died", cfg.died_signature),
                                format!("the process died while running: {} ({why})", truncate(&desc, 400)),
                                json!({"type":"died","description":desc,"shard":s,"nshards":nshards,"case_index":k}),
                            );
                        }
                        let mut sk = skip.clone();
                        sk.push(k);
                        queue.push_back((s, sk, None));
                    }
                    (None, None) => {
                        eprintln!("ENGINE-ERROR: worker for shard {s} died before its first case: {why}");
                        std::process::exit(3);
                    }
                }
            }
        }
    }
    unsafe { libc::munmap(slots as *mut libc::c_void, nshards * 16 + 16) };
    total
}
