//! Shared engine pieces: report accumulation, evidence writing, known findings,
//! parallel sharding, panic capture.
use serde_json::{Value as J, json};
use std::collections::{BTreeMap, BTreeSet, HashSet};
use std::hash::{Hash, Hasher};
use std::time::Instant;

pub fn verif_dir() -> String {
    std::env::var("VERIF_ROOT").unwrap_or_else(|_| "/verif".to_string())
}

#[derive(Clone, Debug)]
pub struct Violation {
    /// Defect-specific signature (matched against known_findings.json).
    pub signature: String,
    pub what: String,
    /// Replayable case.
    pub case: J,
}

#[derive(Default)]
pub struct Report {
    pub evaluations: u64,
    pub distinct: HashSet<u64>,
    pub states: u64,
    pub transitions: u64,
    pub traces_validated: u64,
    pub outcomes: BTreeMap<String, u64>,
    pub samples: Vec<J>,
    pub violations: Vec<Violation>,
    pub violation_count: u64,
    pub caps: BTreeSet<String>,
    pub resource: u64,
    pub extra: BTreeMap<String, J>,
    pub counters: BTreeMap<String, u64>,
    pub exhaustive: bool,
}

pub fn hash_of<T: Hash>(t: &T) -> u64 {
    let mut h = std::collections::hash_map::DefaultHasher::new();
    t.hash(&mut h);
    h.finish()
}

impl Report {
    pub fn new() -> Self {
        Self {
            exhaustive: true,
            ..Default::default()
        }
    }
    pub fn outcome(&mut self, class: &str) {
        *self.outcomes.entry(class.to_string()).or_insert(0) += 1;
    }
    pub fn count(&mut self, key: &str, n: u64) {
        *self.counters.entry(key.to_string()).or_insert(0) += n;
    }
    pub fn distinct<T: Hash>(&mut self, t: &T) {
        self.distinct.insert(hash_of(t));
    }
    pub fn sample(&mut self, s: J) {
        if self.samples.len() < 6 {
            self.samples.push(s);
        }
    }
    pub fn violation(&mut self, signature: impl Into<String>, what: impl Into<String>, case: J) {
        self.violation_count += 1;
        let signature = signature.into();
        // keep at most 3 examples per signature, first (smallest) ones
        let n = self
            .violations
            .iter()
            .filter(|v| v.signature == signature)
            .count();
        if n < 3 {
            self.violations.push(Violation {
                signature,
                what: what.into(),
                case,
            });
        }
    }
    pub fn merge(&mut self, other: Report) {
        self.evaluations += other.evaluations;
        self.distinct.extend(other.distinct);
        self.states += other.states;
        self.transitions += other.transitions;
        self.traces_validated += other.traces_validated;
        for (k, v) in other.outcomes {
            *self.outcomes.entry(k).or_insert(0) += v;
        }
        for (k, v) in other.counters {
            *self.counters.entry(k).or_insert(0) += v;
        }
        for s in other.samples {
            self.sample(s);
        }
        self.violation_count += other.violation_count;
        for v in other.violations {
            let n = self
                .violations
                .iter()
                .filter(|x| x.signature == v.signature)
                .count();
            if n < 3 {
                self.violations.push(v);
            }
        }
        self.caps.extend(other.caps);
        self.resource += other.resource;
        self.exhaustive &= other.exhaustive;
        for (k, v) in other.extra {
            self.extra.insert(k, v);
        }
    }
}

pub struct Ctx {
    pub id: String,
    pub tier: String,
    pub seed: u64,
    pub start: Instant,
    pub threads: usize,
}

impl Ctx {
    pub fn quick(&self) -> bool {
        self.tier == "quick"
    }
    pub fn elapsed(&self) -> f64 {
        self.start.elapsed().as_secs_f64()
    }
}

#[derive(Clone, Debug)]
pub struct KnownFinding {
    pub property: String,
    pub signature: String,
    pub status: String,
    pub what: String,
}

pub fn load_known() -> Vec<KnownFinding> {
    let path = format!("{}/known_findings.json", verif_dir());
    let Ok(text) = std::fs::read_to_string(&path) else {
        return Vec::new();
    };
    let v: J = serde_json::from_str(&text).expect("known_findings.json is not valid JSON");
    let mut out = Vec::new();
    for e in v["findings"].as_array().cloned().unwrap_or_default() {
        out.push(KnownFinding {
            property: e["property"].as_str().unwrap_or("").to_string(),
            signature: e["signature"].as_str().unwrap_or("").to_string(),
            status: e["status"].as_str().unwrap_or("").to_string(),
            what: e["what"].as_str().unwrap_or("").to_string(),
        });
    }
    out
}

pub struct LevelInfo {
    pub level: &'static str,
    pub rule: String,
    pub assumptions: Vec<String>,
}

/// Writes the evidence file, prints verdict lines, returns the process exit code.
pub fn finish(ctx: &Ctx, info: LevelInfo, mut rep: Report) -> i32 {
    let known = load_known();
    let mut by_sig: BTreeMap<String, Vec<Violation>> = BTreeMap::new();
    for v in rep.violations.drain(..) {
        by_sig.entry(v.signature.clone()).or_default().push(v);
    }
    let mut unlisted = 0;
    let mut known_hit = Vec::new();
    let mut viol_lines = Vec::new();
    std::fs::create_dir_all(format!("{}/replays", verif_dir())).ok();
    for (sig, vs) in &by_sig {
        let k = known
            .iter()
            .find(|k| k.property == ctx.id && k.signature == *sig && k.status == "known");
        if let Some(k) = k {
            println!(
                "KNOWN-FINDING: property={} {} [{}] e.g. {}",
                ctx.id,
                k.what,
                sig,
                truncate(&vs[0].what, 300)
            );
            known_hit.push(json!({"signature": sig, "example": vs[0].case, "what": vs[0].what}));
        } else {
            unlisted += 1;
            let fname = format!(
                "{}/replays/{}-{}-{:016x}.json",
                verif_dir(),
                ctx.id,
                ctx.tier,
                hash_of(sig)
            );
            let body = json!({
                "property": ctx.id,
                "signature": sig,
                "what": vs[0].what,
                "case": vs[0].case,
                "more_cases": vs.iter().skip(1).map(|v| v.case.clone()).collect::<Vec<_>>(),
            });
            std::fs::write(&fname, serde_json::to_string_pretty(&body).unwrap()).ok();
            println!("VIOLATION property={} replay={}", ctx.id, fname);
            println!("  signature: {sig}");
            println!("  what: {}", truncate(&vs[0].what, 600));
            viol_lines.push(json!({"signature": sig, "what": vs[0].what, "replay": fname}));
        }
    }
    let wall = ctx.elapsed();
    let mut coverage = serde_json::Map::new();
    coverage.insert("evaluations".into(), json!(rep.evaluations));
    coverage.insert("distinct_nontrivial".into(), json!(rep.distinct.len()));
    coverage.insert("rule".into(), json!(info.rule));
    coverage.insert("samples".into(), J::Array(rep.samples.clone()));
    if info.level == "model_checking" {
        coverage.insert("states".into(), json!(rep.states));
        coverage.insert("transitions".into(), json!(rep.transitions));
        coverage.insert(
            "traces_validated_against_impl".into(),
            json!(rep.traces_validated),
        );
    }
    coverage.insert("exhaustive".into(), json!(rep.exhaustive && rep.caps.is_empty()));
    coverage.insert("distinct_outcomes".into(), json!(rep.outcomes.len()));
    coverage.insert("outcomes".into(), json!(rep.outcomes));
    coverage.insert("counters".into(), json!(rep.counters));
    coverage.insert("caps_hit".into(), json!(rep.caps));
    coverage.insert("resource_outcomes".into(), json!(rep.resource));
    coverage.insert("known_findings_hit".into(), J::Array(known_hit));
    coverage.insert("violation_details".into(), J::Array(viol_lines));
    coverage.insert("violating_cases_total".into(), json!(rep.violation_count));
    for (k, v) in rep.extra {
        coverage.insert(k, v);
    }
    let ev = json!({
        "property_id": ctx.id,
        "tier": ctx.tier,
        "seed": ctx.seed,
        "level": info.level,
        "coverage": J::Object(coverage),
        "assumptions": info.assumptions,
        "wall_s": wall,
        "violations": unlisted,
    });
    std::fs::create_dir_all(format!("{}/evidence", verif_dir())).ok();
    let path = format!("{}/evidence/{}.json", verif_dir(), ctx.id);
    std::fs::write(&path, serde_json::to_string_pretty(&ev).unwrap()).expect("write evidence");
    println!(
        "{} {}: evaluations={} distinct={} states={} transitions={} outcomes={} known={} violations={} wall={:.1}s",
        ctx.id,
        ctx.tier,
        rep.evaluations,
        rep.distinct.len(),
        rep.states,
        rep.transitions,
        rep.outcomes.len(),
        by_sig.len() - unlisted,
        unlisted,
        wall
    );
    if unlisted > 0 { 1 } else { 0 }
}

pub fn truncate(s: &str, n: usize) -> String {
    if s.chars().count() <= n {
        s.to_string()
    } else {
        let t: String = s.chars().take(n).collect();
        format!("{t}…")
    }
}

/// Runs `f(shard, nshards)` on `threads` OS threads (big stacks) and merges the reports.
pub fn par_shards<F>(threads: usize, nshards: usize, f: F) -> Report
where
    F: Fn(usize, usize) -> Report + Sync,
{
    let next = std::sync::atomic::AtomicUsize::new(0);
    let total = std::sync::Mutex::new(Report::new());
    std::thread::scope(|s| {
        for _ in 0..threads {
            std::thread::Builder::new()
                .stack_size(256 << 20)
                .spawn_scoped(s, || {
                    loop {
                        let i = next.fetch_add(1, std::sync::atomic::Ordering::SeqCst);
                        if i >= nshards {
                            break;
                        }
                        let r = f(i, nshards);
                        total.lock().unwrap().merge(r);
                    }
                })
                .unwrap();
        }
    });
    total.into_inner().unwrap()
}

thread_local! {
    static LAST_PANIC: std::cell::RefCell<Option<String>> = const { std::cell::RefCell::new(None) };
}

pub fn install_panic_hook() {
    std::panic::set_hook(Box::new(|info| {
        let msg = if let Some(s) = info.payload().downcast_ref::<&str>() {
            s.to_string()
        } else if let Some(s) = info.payload().downcast_ref::<String>() {
            s.clone()
        } else {
            "<non-string panic>".to_string()
        };
        let loc = info
            .location()
            .map(|l| format!("{}:{}", l.file(), l.line()))
            .unwrap_or_default();
        LAST_PANIC.with(|p| *p.borrow_mut() = Some(format!("{msg} @ {loc}")));
    }));
}

/// Runs `f`, converting a panic into `Err(message @ location)`.
pub fn catch<R>(f: impl FnOnce() -> R) -> Result<R, String> {
    match std::panic::catch_unwind(std::panic::AssertUnwindSafe(f)) {
        Ok(r) => Ok(r),
        Err(_) => Err(LAST_PANIC
            .with(|p| p.borrow_mut().take())
            .unwrap_or_else(|| "<panic>".to_string())),
    }
}

/// Location part of a captured panic message ("file:line"), with the /repo prefix removed.
pub fn panic_site(msg: &str) -> String {
    let loc = msg.rsplit(" @ ").next().unwrap_or("");
    let loc = loc.trim_start_matches("/repo/");
    // drop the line number: signatures must survive unrelated edits
    loc.rsplit_once(':').map(|(f, _)| f.to_string()).unwrap_or(loc.to_string())
}

pub fn set_mem_limit(bytes: u64) {
    unsafe {
        let lim = libc::rlimit {
            rlim_cur: bytes,
            rlim_max: bytes,
        };
        libc::setrlimit(libc::RLIMIT_AS, &lim);
    }
}

/// Iterates all sequences of length `len` over `0..base` in lexicographic order, calling `f`.
pub fn for_each_seq(base: usize, len: usize, mut f: impl FnMut(&[usize])) {
    let mut idx = vec![0usize; len];
    if base == 0 && len > 0 {
        return;
    }
    loop {
        f(&idx);
        let mut k = len;
        loop {
            if k == 0 {
                return;
            }
            k -= 1;
            idx[k] += 1;
            if idx[k] < base {
                break;
            }
            idx[k] = 0;
        }
    }
}
