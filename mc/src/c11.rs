//! C11 — a program state's answers do not depend on its past requests.
//! Explicit-state exploration of request histories on ONE long-lived `Program`: every history up
//! to the length bound over the request alphabet is executed; each request's outcome must equal
//! the outcome of the same request issued first on a fresh state (differential oracle).
use crate::rt::{self, Cb, Outcome};
use crate::util::{self, Ctx, LevelInfo, Report};
use rsjsonnet_lang::arena::Arena;
use rsjsonnet_lang::program::{Program, Thunk, Value};
use serde_json::json;

const EXT: &[(&str, &str)] = &[
    ("o", "{assert self.a > 0 : 'neg', a: -1, b: 2}"),
    ("p", "{assert self.a > 0, a: 1, b: std.foldl(function(x, y) x + y, [1, 2, 3], 0), c: error 'c-bad', d: self.c}"),
    ("lib", "{ v: std.foldl(function(a, i) a + i, std.range(1, 5), 0), deep(n): if n == 0 then self.v else 1 + self.deep(n - 1), arr: [self.v, error 'el', 3], lazy: [std.extVar('p').c, 1] }"),
    ("o2", "{assert self.a > 0 : 'neg2', c: 3} + {a: -1, b: 2}"),
    ("o3", "{assert self.deep(30) > 0, deep(n): if n == 0 then 1 else self.deep(n - 1)} + {b: 2} + {c: 3}"),
    ("m", "{ bad: std.map(function(x, y) x, [1, 2]), badk: std.mapWithKey(function(k) k, {a: 1}), ok: std.map(function(x) x + 1, [1, 2]), mixed: std.mapWithIndex(function(i, x) if i == 1 then error 'el1' else x, [5, 6]) }"),
    ("f", "function(x, y=std.extVar('lib').v) x + y"),
    ("g", "function(x) if x > 0 then error 'positive' else x"),
    ("base", "{a: 1, h:: 2, z: [self.a]}"),
    ("mixin", "{b: 2} + {assert self.b > 0}"),
    // an object whose assertion depends on a field that later requests remove / override
    ("svc", "{ assert self.port > 0 : 'no port', port: 8080, name: 'svc' }"),
    // two objects whose assertions read each other: one check runs inside the other
    ("ab", "{ A: { assert $.B.y == 2, x: 1 }, B: { assert $.A.x == 2 : 'B-assertion', y: 2 } }"),
    // a value computed while an object's assertions are being checked (and then fail)
    ("prov", "local O = { assert helper > 0 && self.y > 0 : 'bad', x: 1, y: -1 }, helper = O.x; { O: O, helper: helper }"),
];

const THUNKS: &[&str] = &[
    "std.extVar('o').b",
    "error 'boom'",
    "std.extVar('lib').v",
    "local x = std.extVar('p').c; [x, 1]",
    "{a: 1, b: self.a + std.extVar('lib').v}",
    "local a = [b[0]], b = [a[0]]; a",
];

#[derive(Clone, Copy, Debug, PartialEq, Eq, Hash)]
pub enum Req {
    /// load + evaluate + manifest a new source
    Ev(usize),
    /// evaluate (again) a thunk loaded at setup, manifest
    Th(usize),
    /// eval_call of ext function `f`/`g` with shared argument thunks
    Call(usize),
    Gc,
    /// evaluate a deep recursion under a small frame limit, then restore the limit
    Deep,
    /// manifest a value obtained at setup
    Mf(usize, bool),
}

const SOURCES: &[&str] = &[
    "std.extVar('o').b",
    "std.extVar('p').b",
    "std.extVar('p').d",
    "std.extVar('lib').v",
    "std.extVar('lib').deep(3)",
    "std.extVar('f')(2)",
    "[std.extVar('p').b, std.extVar('nope')]",
    "std.extVar('lib').arr[2] + std.length(std.extVar('lib').arr)",
    "std.extVar('lib').arr",
    "std.extVar('p')",
    "std.extVar('o').neverInterned_q",
    "std.extVar('lib').lazy[1]",
    "std.extVar('lib').lazy",
    "std.extVar('o') == std.extVar('o')",
    "std.extVar('g')(1)",
    "std.sort([3, 1, 2]) + std.extVar('lib').arr[0:1]",
    "std.extVar('o2').b",
    "std.extVar('o2')",
    "std.extVar('o3').c",
    "std.extVar('m').bad[0]",
    "std.extVar('m').badk.a",
    "std.extVar('m').ok",
    "std.extVar('m').mixed[1]",
    "std.extVar('m').mixed[0] + std.length(std.extVar('m').bad)",
    // a shared object that one request enumerates and another one extends (per-object caches:
    // field order, visibility, checked assertions)
    "std.extVar('base')",
    "[std.objectFields(std.extVar('base')), std.length(std.extVar('base')), std.extVar('base') == {a: 1, z: [1]}]",
    "std.extVar('base') + std.extVar('mixin')",
    "std.extVar('base') + ({b: 2} + {})",
    "std.objectFieldsAll(std.extVar('base') + ({h+: 1, c:: 3} + {local x = 1}) + {c: 4})",
    "std.extVar('mixin') + std.extVar('base') + {b: -1}",
    "[std.extVar('mixin'), std.objectFields(std.extVar('mixin') + {})]",
    "std.extVar('base') { a+: 1 } + ({} + {}) + {z+: [2]}",
    "std.extVar('svc').name",
    "std.objectRemoveKey(std.extVar('svc'), 'port')",
    "[std.objectFields(std.objectRemoveKey(std.extVar('svc'), 'name')), std.extVar('svc') { port: 1 }.port]",
    "std.mergePatch(std.extVar('svc'), {port: null})",
    "std.extVar('svc') + {port: -1}",
    "std.extVar('ab').B.y",
    "std.extVar('ab').A.x",
    "std.extVar('prov').O.x",
    "std.extVar('prov').helper",
    "local o = { a: std.objectRemoveKey(self, 'late_' + 'gone').a }; o.a",
    "local late_gone = 1; late_gone",
    // names that exist only as computed strings until another request spells them out
    // (the string interner is shared by all requests of a program state)
    "{a: super['late_' + 'name']}.a",
    "{late_name: 1, late_key: 2}.late_name",
    "[std.extVar('o')['late_' + 'name'], 1]",
    "[std.objectHas(std.extVar('o'), 'late_' + 'name'), ('late_' + 'key') in std.extVar('o'), std.objectFields(std.objectRemoveKey(std.extVar('o2'), 'late_' + 'key'))]",
    "{a: ('late_' + 'name') in super, b: '%(late_key)s' % {c: 1}}",
];

/// sources before this index form the core alphabet (see `run`)
const CORE_SOURCES: usize = 24;

pub fn alphabet() -> Vec<Req> {
    let mut v: Vec<Req> = (0..SOURCES.len()).map(Req::Ev).collect();
    v.extend((0..THUNKS.len()).map(Req::Th));
    v.extend((0..4).map(Req::Call));
    v.push(Req::Gc);
    v.push(Req::Deep);
    v.push(Req::Mf(0, true));
    v.push(Req::Mf(0, false));
    v.push(Req::Mf(1, false));
    v
}

pub struct State<'p> {
    p: Program<'p>,
    thunks: Vec<Thunk<'p>>,
    f: Thunk<'p>,
    g: Thunk<'p>,
    args: Vec<Thunk<'p>>,
    values: Vec<Value<'p>>,
}

fn load<'p>(p: &mut Program<'p>, src: &str) -> Thunk<'p> {
    rt::load(p, src.as_bytes()).1.expect("setup source loads")
}

pub fn setup<'p>(arena: &'p Arena) -> State<'p> {
    let mut p = Program::new(arena);
    let mut f = None;
    let mut g = None;
    for (n, src) in EXT {
        let t = load(&mut p, src);
        let name = p.intern_str(n);
        p.add_ext_var(name, &t);
        if *n == "f" {
            f = Some(t.clone());
        }
        if *n == "g" {
            g = Some(t);
        }
    }
    let thunks = THUNKS.iter().map(|s| load(&mut p, s)).collect();
    let args = vec![load(&mut p, "2"), load(&mut p, "error 'arg'"), load(&mut p, "std.extVar('lib').v"), load(&mut p, "std.extVar('p').c")];
    let mut cb = Cb::default();
    let vsrc = ["{a: [1, {b: 2}], f:: error 'hidden'}", "{a: function(x) x, b: 1}"];
    let values = vsrc
        .iter()
        .map(|s| {
            let t = load(&mut p, s);
            p.eval_value(&t, &mut cb).expect("setup value")
        })
        .collect();
    State { p, thunks, f: f.unwrap(), g: g.unwrap(), args, values }
}

fn outcome_str(o: &Outcome) -> String {
    match o {
        Outcome::Value(s) => format!("V {s}"),
        Outcome::Eval { kind, msg, .. } => format!("E {kind} {msg:?}"),
        other => other.short(),
    }
}

pub fn do_req(st: &mut State<'_>, r: Req) -> String {
    let mut cb = Cb::default();
    let fin = |p: &mut Program<'_>, r: Result<Value<'_>, rsjsonnet_lang::program::EvalError>, cb: &Cb| -> String {
        let _ = cb;
        // SAFETY of lifetimes: values are manifested immediately
        match r {
            Ok(v) => match unsafe { std::mem::transmute::<&mut Program<'_>, &mut Program<'_>>(p) }.manifest_json(unsafe { std::mem::transmute::<&Value<'_>, &Value<'_>>(&v) }, false) {
                Ok(s) => format!("V {s}"),
                // (the phase is part of the answer: evaluation promises a fully evaluated
                // value, so a failure must not move from evaluation to manifestation)
                Err(e) => format!("{} (while manifesting)", outcome_str(&rt::eval_error_outcome(&e))),
            },
            Err(e) => outcome_str(&rt::eval_error_outcome(&e)),
        }
    };
    match r {
        Req::Ev(i) => {
            let t = load(&mut st.p, SOURCES[i]);
            let r = st.p.eval_value(&t, &mut cb);
            let mut s = fin(&mut st.p, r, &cb);
            if !cb.traces.is_empty() {
                s.push_str(&format!(" traces {:?}", cb.traces));
            }
            s
        }
        Req::Th(k) => {
            let t = st.thunks[k].clone();
            let r = st.p.eval_value(&t, &mut cb);
            fin(&mut st.p, r, &cb)
        }
        Req::Call(k) => {
            let (func, arg) = match k {
                0 => (st.f.clone(), st.args[0].clone()),
                1 => (st.f.clone(), st.args[1].clone()),
                2 => (st.g.clone(), st.args[2].clone()),
                _ => (st.f.clone(), st.args[3].clone()),
            };
            let r = st.p.eval_call(&func, &[arg], &[], &mut cb);
            fin(&mut st.p, r, &cb)
        }
        Req::Gc => {
            st.p.gc();
            "gc".into()
        }
        Req::Deep => {
            st.p.set_max_stack(20);
            let t = load(&mut st.p, "[std.extVar('lib').deep(30), std.extVar('o3').b]");
            let r = st.p.eval_value(&t, &mut cb);
            let s = fin(&mut st.p, r, &cb);
            st.p.set_max_stack(500);
            s
        }
        Req::Mf(k, multiline) => {
            let v = st.values[k].clone();
            match st.p.manifest_json(&v, multiline) {
                Ok(s) => format!("V {s}"),
                Err(e) => outcome_str(&rt::eval_error_outcome(&e)),
            }
        }
    }
}

fn run_history(reqs: &[Req], base: &[String], alpha: &[Req]) -> Result<Option<(usize, String)>, String> {
    util::catch(|| {
        let arena = Arena::new();
        let mut st = setup(&arena);
        for (pos, r) in reqs.iter().enumerate() {
            let out = do_req(&mut st, *r);
            let want = &base[alpha.iter().position(|a| a == r).unwrap()];
            if &out != want {
                return Some((pos, out));
            }
        }
        None
    })
}

fn baseline(alpha: &[Req]) -> Vec<String> {
    alpha
        .iter()
        .map(|r| {
            let arena = Arena::new();
            let mut st = setup(&arena);
            do_req(&mut st, *r)
        })
        .collect()
}

fn sweep(len: usize, alpha: &[Req], base: &[String], sh: &util::Shard) -> Report {
    let mut rep = Report::new();
    let mut idx = 0u64;
    util::for_each_seq(alpha.len(), len, |seq| {
        let mine = sh.mine(idx);
        idx += 1;
        if !mine {
            return;
        }
        let reqs: Vec<Req> = seq.iter().map(|&i| alpha[i]).collect();
        if !sh.begin_case(idx - 1, &|| format!("{reqs:?}")) {
            return;
        }
        rep.evaluations += 1;
        rep.states += 1;
        rep.transitions += len as u64;
        rep.traces_validated += 1;
        match run_history(&reqs, base, alpha) {
            Ok(None) => rep.outcome("history-independent"),
            Ok(Some((pos, out))) => {
                rep.outcome("history-dependent");
                let want = &base[seq[pos]];
                let kind = if out.contains("InfiniteRecursion") && !want.contains("InfiniteRecursion") {
                    "InfiniteRecursion-after-failure"
                } else if out.starts_with("V ") && want.starts_with("E ") {
                    "value-after-failure"
                } else if out.starts_with("E ") && want.starts_with("V ") {
                    "failure-after-success"
                } else {
                    "different-outcome"
                };
                rep.violation(
                    // the signature names the request whose answer changed, so that a listed
                    // finding covers that request only
                    format!("C11/history-dependent/{kind}/{}", match reqs[pos] { Req::Ev(i) => util::truncate(SOURCES[i], 60), other => format!("{other:?}") }),
                    format!("after {:?} the request {:?} answers {} but on a fresh state {}", &reqs[..pos], reqs[pos], util::truncate(&out, 200), util::truncate(want, 200)),
                    json!({"type":"history","requests": reqs.iter().map(|r| format!("{r:?}")).collect::<Vec<_>>(), "position": pos}),
                );
            }
            Err(m) => {
                rep.violation(format!("C11/panic/{}", util::panic_site(&m)), format!("history {reqs:?}: {m}"), json!({"type":"history","requests": reqs.iter().map(|r| format!("{r:?}")).collect::<Vec<_>>()}));
            }
        }
        rep.distinct(&seq.iter().map(|&i| base[i].starts_with("V ")).collect::<Vec<_>>());
        if idx % 7919 == 0 {
            rep.sample(json!({"history": reqs.iter().map(|r| format!("{r:?}")).collect::<Vec<_>>()}));
        }
    });
    rep
}

// ------------------------------------------------------------------ Session level (import cache)

const LIB_FILES: &[(&str, &str)] = &[
    ("ok.libsonnet", "{ v: std.foldl(function(a, i) a + i, [1, 2, 3], 0) }"),
    ("fail.libsonnet", "error \"libfail\""),
    ("assert.libsonnet", "{ assert self.a > 0 : \"libneg\", a: -1, b: 2 }"),
    ("inherit.libsonnet", "{ assert self.a > 0 : \"libneg2\" } + { a: -1, b: 2 }"),
    ("lazy.libsonnet", "{ x: error \"lazyx\", y: (import \"ok.libsonnet\").v }"),
    ("cyc_a.libsonnet", "{ p: 1, q: (import \"cyc_b.libsonnet\").r }"),
    ("cyc_b.libsonnet", "{ r: (import \"cyc_a.libsonnet\").p }"),
    ("syntax.libsonnet", "{ a: "),
    ("deep.libsonnet", "local f(n) = if n == 0 then 0 else 1 + f(n - 1); { d: f(40) }"),
];

const SESSION_REQS: &[&str] = &[
    "(import \"ok.libsonnet\").v",
    "import \"fail.libsonnet\"",
    "(import \"assert.libsonnet\").b",
    "(import \"inherit.libsonnet\").b",
    "(import \"lazy.libsonnet\").y",
    "(import \"lazy.libsonnet\").x",
    "(import \"cyc_a.libsonnet\").q",
    "import \"syntax.libsonnet\"",
    "import \"missing.libsonnet\"",
    "std.length(importstr \"ok.libsonnet\")",
    "(import \"deep.libsonnet\").d",
    // (no request changes the frame limit here: a value memoised under a generous limit is
    // legitimately reused under a smaller one — call-by-need, not history dependence)
    "[(import \"./ok.libsonnet\").v, (import \"assert.libsonnet\").a]",
];

fn session_history(dir: &str, reqs: &[usize]) -> Vec<String> {
    use rsjsonnet_front::Session;
    let arena = Arena::new();
    let mut s = Session::new(&arena);
    s.add_search_path(std::path::PathBuf::from(dir));
    let mut out = Vec::new();
    for &r in reqs {
        let mut src = SESSION_REQS[r];
        let small = src.starts_with("@small-stack ");
        if small {
            src = &src["@small-stack ".len()..];
            s.program_mut().set_max_stack(20);
        }
        rsjsonnet_front::verif::start_capture();
        let res = (|| {
            let t = s.load_virt_file("<request>", src.as_bytes().to_vec())?;
            let v = s.eval_value(&t)?;
            s.manifest_json(&v, false)
        })();
        let captured = rsjsonnet_front::verif::take_capture();
        if small {
            s.program_mut().set_max_stack(500);
        }
        let first_error: String = captured.windows(3).find(|w| w[0].1 == "ErrorLabel" && w[0].0 == "error").map(|w| w[2].0.clone()).unwrap_or_default();
        out.push(match res {
            Some(j) => format!("V {j}"),
            None => format!("E {first_error}"),
        });
    }
    out
}

fn session_sweep(total: &mut Report, maxlen: usize) {
    let dir = crate::cli::scratch("c11s");
    for (name, data) in LIB_FILES {
        std::fs::write(format!("{dir}/{name}"), data).unwrap();
    }
    let n = SESSION_REQS.len();
    let base: Vec<String> = (0..n).map(|r| session_history(&dir, &[r]).remove(0)).collect();
    total.extra.insert("session_fresh_outcomes".into(), json!(base));
    for len in 2..=maxlen {
        util::for_each_seq(n, len, |seq| {
            let r = util::catch(|| session_history(&dir, seq));
            total.evaluations += 1;
            total.states += 1;
            total.transitions += len as u64;
            total.traces_validated += 1;
            let case = json!({"type":"session-history","requests": seq.iter().map(|&i| SESSION_REQS[i]).collect::<Vec<_>>()});
            match r {
                Err(m) => total.violation(format!("C11/session/panic/{}", util::panic_site(&m)), format!("session history {:?}: {m}", seq.iter().map(|&i| SESSION_REQS[i]).collect::<Vec<_>>()), case),
                Ok(outs) => {
                    total.outcome("session-history");
                    for (pos, (o, &ri)) in outs.iter().zip(seq.iter()).enumerate() {
                        if *o != base[ri] {
                            total.violation(
                                "C11/session/history-dependent",
                                format!("in one Session, after {:?} the request {:?} answers {} but in a fresh Session {}", seq[..pos].iter().map(|&i| SESSION_REQS[i]).collect::<Vec<_>>(), SESSION_REQS[ri], util::truncate(o, 150), util::truncate(&base[ri], 150)),
                                case.clone(),
                            );
                            break;
                        }
                    }
                }
            }
        });
    }
    let _ = std::fs::remove_dir_all(&dir);
}

pub fn run(ctx: &Ctx) -> i32 {
    let alpha = alphabet();
    let base = baseline(&alpha);
    // the baseline itself must be reproducible (determinism of the harness)
    let base2 = baseline(&alpha);
    if base != base2 {
        eprintln!("ENGINE-ERROR: baseline outcomes are not deterministic");
        return 3;
    }
    let mut total = Report::new();
    let cfg = util::ForkCfg { threads: ctx.threads, mem_bytes: 4 << 30, case_timeout_s: 60, died_signature: "C11/abort".into(), resource_is_violation: false };
    let maxlen = if ctx.quick() { 3 } else { 4 };
    // the longest histories run over the core alphabet (everything but the sources added for
    // shared caches and interned names, which are covered up to one length less)
    let core: Vec<Req> = alpha.iter().copied().filter(|r| !matches!(r, Req::Ev(i) if *i >= CORE_SOURCES)).collect();
    let core_base: Vec<String> = alpha.iter().zip(base.iter()).filter(|(r, _)| !matches!(r, Req::Ev(i) if *i >= CORE_SOURCES)).map(|(_, b)| b.clone()).collect();
    total.extra.insert("core_alphabet_size".into(), json!(core.len()));
    for len in 1..=maxlen {
        let (a, b) = if len == maxlen { (&core, &core_base) } else { (&alpha, &base) };
        let r = util::par_forked(&cfg, if len >= 3 { 256 } else { 16 }, |sh| sweep(len, a, b, sh));
        total.extra.insert(format!("histories_len{len}"), json!(r.evaluations));
        total.merge(r);
    }
    session_sweep(&mut total, if ctx.quick() { 3 } else { 4 });
    total.extra.insert("session_requests".into(), json!(SESSION_REQS));
    total.extra.insert("request_alphabet".into(), json!(alpha.iter().map(|r| format!("{r:?}")).collect::<Vec<_>>()));
    total.extra.insert("fresh_state_outcomes".into(), json!(base));
    util::finish(
        ctx,
        LevelInfo {
            level: "model_checking",
            rule: "all request histories up to the length bound over the request alphabet - the longest length over the 39-request core alphabet, shorter ones over all 52 - (loads+evaluations of 37 sources sharing ext-var values, re-evaluation of 6 persistent thunks, 4 eval_call forms with shared argument thunks, gc, a small-frame-limit request, manifestations of stored values) on one Program; every request's outcome compared with the same request on a fresh state. distinct+nontrivial = distinct success/failure patterns of the history".into(),
            assumptions: vec!["outcomes are compared as value JSON / error kind + message (span ids legitimately differ between histories)".into()],
        },
        total,
    )
}

pub fn replay(v: &serde_json::Value) -> i32 {
    let alpha = alphabet();
    let base = baseline(&alpha);
    let names: Vec<String> = v["case"]["requests"].as_array().unwrap().iter().map(|x| x.as_str().unwrap().to_string()).collect();
    let reqs: Vec<Req> = names.iter().filter_map(|n| alpha.iter().find(|a| format!("{a:?}") == *n).copied()).collect();
    match run_history(&reqs, &base, &alpha) {
        Ok(None) => {
            println!("history {reqs:?} is order-independent");
            0
        }
        Ok(Some((pos, out))) => {
            println!("history {reqs:?}: request {pos} answers {out}");
            1
        }
        Err(m) => {
            println!("panic: {m}");
            1
        }
    }
}
