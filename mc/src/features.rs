//! Syntactic feature sets (used as the "distinct non-trivial" rule of program corpora).
use crate::syntax::*;

pub fn kind_bit(e: &E) -> u64 {
    let k: u32 = match e {
        E::Null => 0,
        E::True | E::False => 1,
        E::Num(_) => 2,
        E::Str(_) => 3,
        E::TextBlock(_) => 4,
        E::Var(_) => 5,
        E::SelfE => 6,
        E::Dollar => 7,
        E::SuperField(_) => 8,
        E::SuperIndex(_) => 9,
        E::InSuper(_) => 10,
        E::Local(..) => 11,
        E::Func(..) => 12,
        E::Call(..) => 13,
        E::If(_, _, None) => 14,
        E::If(_, _, Some(_)) => 15,
        E::Bin(op, ..) => 16 + (*op as u32),
        E::Un(op, _) => 36 + (*op as u32),
        E::Array(_) => 40,
        E::ArrComp(..) => 41,
        E::Index(..) => 42,
        E::Field(..) => 43,
        E::Slice(..) => 44,
        E::Object(ms) => {
            let mut extra = 0u64;
            for m in ms {
                extra |= match m {
                    Member::Field { plus, vis, params, name, .. } => {
                        (1u64 << (50 + *vis as u32))
                            | if *plus { 1 << 53 } else { 0 }
                            | if params.is_some() { 1 << 54 } else { 0 }
                            | if matches!(name, FieldName::Expr(_)) { 1 << 55 } else { 0 }
                    }
                    Member::Local(_) => 1 << 56,
                    Member::Assert(..) => 1 << 57,
                };
            }
            return (1 << 45) | extra;
        }
        E::ObjComp { .. } => 46,
        E::ObjExt(..) => 47,
        E::Error(_) => 48,
        E::Assert(..) => 49,
        E::Import(..) => 58,
        E::Paren(_) => 59,
    };
    1u64 << k
}

pub fn feature_set(e: &E) -> u64 {
    let mut s = kind_bit(e);
    for c in children(e) {
        s |= feature_set(c);
    }
    s
}
