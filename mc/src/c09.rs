//! C09 — scoping errors are found before anything runs, and only real ones.
//! For every corpus program and every node position, inject one fault of each kind; the
//! specification's static rules (syntax::static_check, the model) predict accept / reject and
//! the admissible error kinds; `Program::load_source` must agree in both directions.
use crate::corpus::{self, Profile};
use crate::rt::{self, Outcome, RunCfg};
use crate::syntax::{self, *};
use crate::util::{self, Ctx, LevelInfo, Report};
use rsjsonnet_lang::arena::Arena;
use rsjsonnet_lang::program::Program;
use serde_json::json;
use std::cell::Cell;

pub fn replace_nth(e: &E, k: usize, new: &E) -> E {
    fn go(e: &E, k: usize, new: &E, ctr: &Cell<usize>) -> E {
        let me = ctr.get();
        ctr.set(me + 1);
        if me == k {
            // still advance the counter over the replaced subtree's size? no: positions after k
            // are never requested in the same call
            return new.clone();
        }
        map_children(e, &|c| go(c, k, new, ctr), false)
    }
    go(e, k, new, &Cell::new(0))
}

pub fn nth<'a>(e: &'a E, k: usize) -> Option<&'a E> {
    fn go<'a>(e: &'a E, k: usize, ctr: &mut usize) -> Option<&'a E> {
        if *ctr == k {
            return Some(e);
        }
        *ctr += 1;
        for c in children(e) {
            if let Some(x) = go(c, k, ctr) {
                return Some(x);
            }
        }
        None
    }
    go(e, k, &mut 0)
}

/// Leaf faults: expressions placed at a node position.
fn leaf_faults() -> Vec<(&'static str, E)> {
    vec![
        ("unbound", var("zz")),
        ("self", E::SelfE),
        ("dollar", E::Dollar),
        ("super-field", E::SuperField("a".into())),
        ("super-index", E::SuperIndex(b(strlit("a")))),
        ("in-super", E::InSuper(b(strlit("a")))),
        ("computed-import", E::Import(ImportKind::Code, b(E::Bin(BinOp::Add, b(strlit("a")), b(strlit("b")))))),
        ("computed-importstr", E::Import(ImportKind::Str, b(var("zz")))),
        ("textblock-import", E::Import(ImportKind::Bin, b(E::TextBlock("a\n".into())))),
        ("dup-local", E::Local(vec![Bind { name: "q".into(), params: None, body: num(1) }, Bind { name: "q".into(), params: None, body: num(2) }], b(num(0)))),
        ("dup-param", E::Func(vec![Param { name: "q".into(), default: None }, Param { name: "q".into(), default: None }], b(num(0)))),
        ("dup-field", E::Object(vec![
            Member::Field { name: FieldName::Id("k".into()), plus: false, vis: Vis::Default, params: None, body: num(1) },
            Member::Field { name: FieldName::Str("k".into()), plus: false, vis: Vis::Hidden, params: None, body: num(2) },
        ])),
        ("dup-objlocal", E::Object(vec![
            Member::Local(Bind { name: "q".into(), params: None, body: num(1) }),
            Member::Local(Bind { name: "q".into(), params: None, body: num(2) }),
        ])),
        ("pos-after-named", E::Call(b(E::Func(vec![Param { name: "q".into(), default: None }, Param { name: "r".into(), default: None }], b(num(0)))), vec![Arg::Named("q".into(), num(1)), Arg::Pos(num(2))], false)),
        // legal look-alikes: must be accepted
        ("ok-shadow-local", E::Local(vec![Bind { name: "x".into(), params: None, body: num(1) }], b(E::Local(vec![Bind { name: "x".into(), params: None, body: var("x") }], b(var("x")))))),
        ("ok-param-default-later", E::Func(vec![Param { name: "q".into(), default: Some(var("r")) }, Param { name: "r".into(), default: Some(num(1)) }], b(var("q")))),
        ("ok-computed-dup-field", E::Object(vec![
            Member::Field { name: FieldName::Id("k".into()), plus: false, vis: Vis::Default, params: None, body: num(1) },
            Member::Field { name: FieldName::Expr(strlit("j")), plus: false, vis: Vis::Default, params: None, body: num(2) },
        ])),
        ("ok-self-in-nested-object", E::Object(vec![Member::Field { name: FieldName::Id("k".into()), plus: false, vis: Vis::Default, params: None, body: E::SelfE }])),
        ("ok-import-literal", E::Import(ImportKind::Str, b(strlit("nonexistent-file")))),
        ("ok-comp-var", E::ArrComp(b(var("q")), vec![Spec::For("q".into(), E::Array(vec![])), Spec::If(var("q"))])),
        ("comp-var-too-early", E::ArrComp(b(num(0)), vec![Spec::For("q".into(), var("q"))])),
        ("fieldname-sees-no-objlocal", E::Object(vec![
            Member::Local(Bind { name: "q".into(), params: None, body: num(1) }),
            Member::Field { name: FieldName::Expr(var("q")), plus: false, vis: Vis::Default, params: None, body: num(2) },
        ])),
        ("objcomp-name-sees-no-self", E::ObjComp { locals1: vec![], name: b(E::SelfE), plus: false, body: b(num(1)), locals2: vec![], specs: vec![Spec::For("q".into(), E::Array(vec![]))] }),
        ("objcomp-name-sees-no-objlocal", E::ObjComp { locals1: vec![Bind { name: "w".into(), params: None, body: strlit("n") }], name: b(var("w")), plus: false, body: b(num(1)), locals2: vec![], specs: vec![Spec::For("q".into(), E::Array(vec![]))] }),
        ("objcomp-name-sees-no-later-objlocal", E::ObjComp { locals1: vec![], name: b(var("w")), plus: false, body: b(num(1)), locals2: vec![Bind { name: "w".into(), params: None, body: strlit("n") }], specs: vec![Spec::For("q".into(), E::Array(vec![]))] }),
        ("objcomp-name-sees-no-dollar", E::ObjComp { locals1: vec![], name: b(E::Field(b(E::Dollar), "a".into())), plus: false, body: b(num(1)), locals2: vec![], specs: vec![Spec::For("q".into(), E::Array(vec![]))] }),
        ("ok-objcomp-name-sees-comp-var", E::ObjComp { locals1: vec![Bind { name: "w".into(), params: None, body: var("q") }], name: b(var("q")), plus: false, body: b(var("w")), locals2: vec![], specs: vec![Spec::For("q".into(), E::Array(vec![strlit("n")]))] }),
        // every binder of a group is in scope of every other binder's body, earlier or later
        ("ok-local-forward", E::Local(vec![Bind { name: "q".into(), params: None, body: var("r") }, Bind { name: "r".into(), params: None, body: num(1) }], b(var("q")))),
        ("ok-local-function-forward", E::Local(vec![Bind { name: "q".into(), params: Some(vec![]), body: E::Call(b(var("r")), vec![], false) }, Bind { name: "r".into(), params: Some(vec![]), body: num(1) }], b(E::Call(b(var("q")), vec![], false)))),
        ("ok-objlocal-forward", E::Object(vec![
            Member::Local(Bind { name: "q".into(), params: None, body: var("r") }),
            Member::Field { name: FieldName::Id("k".into()), plus: false, vis: Vis::Default, params: None, body: var("q") },
            Member::Local(Bind { name: "r".into(), params: None, body: num(1) }),
        ])),
        ("ok-objlocal-forward-adjacent", E::Object(vec![
            Member::Local(Bind { name: "q".into(), params: None, body: var("r") }),
            Member::Local(Bind { name: "r".into(), params: None, body: num(1) }),
            Member::Field { name: FieldName::Id("k".into()), plus: false, vis: Vis::Hidden, params: None, body: var("q") },
        ])),
        ("ok-method-param-default-sees-later-objlocal", E::Object(vec![
            Member::Field { name: FieldName::Id("m".into()), plus: false, vis: Vis::Hidden, params: Some(vec![Param { name: "p".into(), default: Some(var("r")) }]), body: var("p") },
            Member::Local(Bind { name: "r".into(), params: None, body: num(1) }),
        ])),
        ("ok-objcomp-local-forward-across-field", E::ObjComp { locals1: vec![Bind { name: "v".into(), params: None, body: E::Bin(BinOp::Add, b(var("w")), b(var("q"))) }], name: b(var("q")), plus: false, body: b(var("v")), locals2: vec![Bind { name: "w".into(), params: None, body: strlit("n") }], specs: vec![Spec::For("q".into(), E::Array(vec![strlit("n")]))] }),
        ("ok-objcomp-local-forward-adjacent", E::ObjComp { locals1: vec![Bind { name: "v".into(), params: None, body: var("w") }, Bind { name: "w".into(), params: None, body: var("q") }], name: b(var("q")), plus: false, body: b(var("v")), locals2: vec![], specs: vec![Spec::For("q".into(), E::Array(vec![strlit("n")]))] }),
        ("ok-objcomp-local-functions-mutual", E::ObjComp { locals1: vec![], name: b(var("q")), plus: false, body: b(E::Call(b(var("v")), vec![Arg::Pos(num(1))], false)), locals2: vec![
            Bind { name: "v".into(), params: Some(vec![Param { name: "n".into(), default: None }]), body: E::If(b(E::Bin(BinOp::Eq, b(var("n")), b(num(0)))), b(num(0)), Some(b(E::Call(b(var("w")), vec![Arg::Pos(E::Bin(BinOp::Sub, b(var("n")), b(num(1))))], false)))) },
            Bind { name: "w".into(), params: Some(vec![Param { name: "n".into(), default: None }]), body: E::Call(b(var("v")), vec![Arg::Pos(var("n"))], false) },
        ], specs: vec![Spec::For("q".into(), E::Array(vec![strlit("n")]))] }),
        ("ok-objcomp-later-spec-sees-earlier-var", E::ObjComp { locals1: vec![], name: b(var("r")), plus: false, body: b(var("q")), locals2: vec![], specs: vec![Spec::For("q".into(), E::Array(vec![strlit("n")])), Spec::For("r".into(), E::Array(vec![var("q")])), Spec::If(E::Bin(BinOp::Eq, b(var("r")), b(var("q"))))] }),
        ("ok-objcomp-body-self", E::ObjComp { locals1: vec![], name: b(var("q")), plus: false, body: b(E::SelfE), locals2: vec![Bind { name: "w".into(), params: None, body: var("q") }], specs: vec![Spec::For("q".into(), E::Array(vec![]))] }),
    ]
}

/// Static-fault programs (used by C16 for diagnostics of static errors, incl. two-span ones).
pub fn static_fault_sources() -> Vec<String> {
    let mut v = Vec::new();
    for (_, f) in leaf_faults() {
        let ctxs: Vec<E> = vec![
            f.clone(),
            E::Local(vec![Bind { name: "v".into(), params: None, body: num(1) }], b(f.clone())),
            E::Array(vec![num(1), f.clone()]),
            E::Object(vec![Member::Field { name: FieldName::Id("a".into()), plus: false, vis: Vis::Default, params: None, body: f.clone() }]),
            E::If(b(E::False), b(f.clone()), Some(b(num(0)))),
            E::Func(vec![Param { name: "p".into(), default: Some(f.clone()) }], b(num(1))),
        ];
        for c in ctxs {
            v.push(syntax::print(&c, syntax::MINIMAL));
            v.push(syntax::print(&c, syntax::NOISY));
        }
    }
    v
}

fn analyze_kind(o: &Outcome) -> Option<String> {
    match o {
        Outcome::Load { phase, kind } if *phase == "analyze" => Some(kind.clone()),
        _ => None,
    }
}

fn err_name(e: &StaticErr) -> &'static str {
    match e {
        StaticErr::UnknownVariable => "UnknownVariable",
        StaticErr::SelfOutsideObject => "SelfOutsideObject",
        StaticErr::SuperOutsideObject => "SuperOutsideObject",
        StaticErr::DollarOutsideObject => "DollarOutsideObject",
        StaticErr::RepeatedLocalName => "RepeatedLocalName",
        StaticErr::RepeatedFieldName => "RepeatedFieldName",
        StaticErr::RepeatedParamName => "RepeatedParamName",
        StaticErr::PositionalArgAfterNamed => "PositionalArgAfterNamed",
        StaticErr::TextBlockAsImportPath => "TextBlockAsImportPath",
        StaticErr::ComputedImportPath => "ComputedImportPath",
    }
}

pub fn judge<'p>(p: &mut Program<'p>, e: &E, label: &str, rep: &mut Report, evaluate: bool) {
    let src = syntax::print(e, syntax::MINIMAL);
    let errs = syntax::static_check(e, true);
    rep.evaluations += 1;
    rep.traces_validated += 1;
    rep.transitions += 1;
    let (_ctx, loaded) = rt::load(p, src.as_bytes());
    let outcome = match &loaded {
        Ok(_) => None,
        Err(e) => Some(rt::load_error_outcome(e)),
    };
    let mut names: Vec<&str> = errs.iter().map(err_name).collect();
    names.sort();
    names.dedup();
    rep.outcome(if names.is_empty() { "model-accepts" } else { names[0] });
    rep.distinct(&(names.clone(), crate::features::feature_set(e)));
    match (&outcome, names.is_empty()) {
        (None, true) => {
            if evaluate {
                let t = loaded.unwrap();
                let mut cb = rt::Cb::default();
                p.set_max_stack(16);
                let r = p.eval_value(&t, &mut cb);
                let r = r.and_then(|v| p.manifest_json(&v, false));
                let _ = r; // a panic (unbound variable at run time) is caught by the caller
            }
        }
        (None, false) => {
            rep.violation(
                format!("C09/accepted-but-spec-rejects/{}", names[0]),
                format!("`{src}` ({label}) is accepted, the specification's static rules reject it: {names:?}"),
                json!({"type":"static","source":src,"expected":names}),
            );
        }
        (Some(o), model_accepts) => match analyze_kind(o) {
            Some(k) => {
                if model_accepts {
                    rep.violation(
                        format!("C09/rejected-but-spec-accepts/{k}"),
                        format!("`{src}` ({label}) is rejected with {k}, the specification's static rules accept it"),
                        json!({"type":"static","source":src,"expected":names}),
                    );
                } else if !names.contains(&k.as_str()) {
                    rep.violation(
                        format!("C09/wrong-kind/{k}"),
                        format!("`{src}` ({label}) is rejected with {k}, expected one of {names:?}"),
                        json!({"type":"static","source":src,"expected":names}),
                    );
                }
            }
            None => {
                rep.violation(
                    format!("C09/not-loadable/{}", o.class()),
                    format!("`{src}` ({label}) printed by the model does not load: {}", o.short()),
                    json!({"type":"static","source":src,"expected":names}),
                );
            }
        },
    }
}

fn sweep(profile: Profile, n: usize, sh: &util::Shard) -> Report {
    let mut rep = Report::new();
    let faults = leaf_faults();
    let mut batch: Vec<(u64, E)> = Vec::new();
    let process = |batch: &mut Vec<(u64, E)>, rep: &mut Report| {
        let arena = Arena::new();
        let mut p = Program::new(&arena);
        for (idx, e) in batch.drain(..) {
            if !sh.begin_case(idx, &|| syntax::print(&e, syntax::MINIMAL)) {
                continue;
            }
            rep.states += 1;
            let r = util::catch(|| {
                let mut local = Report::new();
                judge(&mut p, &e, "fault-free", &mut local, true);
                let size = node_count(&e);
                for k in 0..size {
                    for (label, f) in faults.iter() {
                        let faulty = replace_nth(&e, k, f);
                        judge(&mut p, &faulty, label, &mut local, label.starts_with("ok-"));
                    }
                }
                local
            });
            match r {
                Ok(local) => rep.merge(local),
                Err(m) => {
                    rep.violation(
                        format!("C09/panic/{}", util::panic_site(&m)),
                        format!("panic while loading/evaluating a variant of `{}`: {m}", syntax::print(&e, syntax::MINIMAL)),
                        json!({"type":"static-base","source":syntax::print(&e, syntax::MINIMAL)}),
                    );
                    return;
                }
            }
            if idx % 4001 == 0 {
                rep.sample(json!({"base": syntax::print(&e, syntax::MINIMAL), "positions": node_count(&e), "fault_kinds": faults.len()}));
            }
        }
    };
    corpus::for_each_sharded(profile, n, sh.index, sh.n, &mut |idx, e| {
        batch.push((idx, e));
        if batch.len() >= 200 {
            while !batch.is_empty() {
                process(&mut batch, &mut rep);
            }
        }
    });
    while !batch.is_empty() {
        process(&mut batch, &mut rep);
    }
    rep
}


// ------------------------------------------------------------------ edited programs

/// Scoping-oriented fragments on top of the shared edit alphabet.
const SCOPE_ALPHABET: &[&str] = &[
    "q", "v", "w", "f", "std", "local q = 1 ;", "local q = q ;", "local v = 1 , v = 2 ;", ", q = 1", "for q in [ 1 ]", "for q in [ q ]", "function ( q , q )", "function ( q = w , w = 1 )",
    "( 1 , x = 2 )", "( x = 2 , 1 )", ", a : 9", ", local a = 1", "import \"f\"", "import \"f\" + \"g\"", "importstr ||| \n a \n |||", "[ self ]", "[ super . a ]", "[ $ ]", "{ [ q ] : 1 }",
];

/// Every single edit of the seed programs that the parser accepts: the model's static rules
/// and `load_source` must agree (accept / reject and the admissible kinds).
fn edit_sweep(two: bool, sh: &util::Shard) -> Report {
    let mut rep = Report::new();
    let mut n = 0u64;
    let alphabet: Vec<&str> = crate::c02::SEM_ALPHABET.iter().chain(SCOPE_ALPHABET.iter()).copied().collect();
    let seeds: Vec<&str> = crate::c02::SEM_SEEDS.iter().chain(crate::c01::EDIT_SEEDS.iter()).copied().collect();
    for seed in seeds {
        let cases = crate::c01::edit_cases_with(seed, two, &alphabet);
        let base = n;
        n += cases.len() as u64;
        let mut start = 0usize;
        while start < cases.len() {
            let arena = Arena::new();
            let mut p = Program::new(&arena);
            let mut next = cases.len();
            for (ci, src) in cases.iter().enumerate().skip(start) {
                let id = base + ci as u64 + 1;
                if !sh.mine(id) || !sh.begin_case(id, &|| src.clone()) {
                    continue;
                }
                rep.states += 1;
                let e = match util::catch(|| crate::c15::impl_parse(src.as_bytes())) {
                    Ok(crate::c15::Parsed::Tree(e, _)) => crate::c15::plain_numbers(&syntax::strip_parens(&e)),
                    Ok(_) => {
                        rep.outcome("edit:not-a-program");
                        continue;
                    }
                    Err(m) => {
                        rep.violation(format!("C09/panic/{}", util::panic_site(&m)), format!("panic while parsing `{src}`: {m}"), json!({"type":"static","source":src}));
                        continue;
                    }
                };
                let r = util::catch(|| {
                    let mut local = Report::new();
                    judge(&mut p, &e, "edited program", &mut local, true);
                    local
                });
                match r {
                    Ok(local) => rep.merge(local),
                    Err(m) => {
                        rep.violation(
                            format!("C09/panic/{}", util::panic_site(&m)),
                            format!("panic while loading/evaluating `{src}`: {m}"),
                            json!({"type":"static","source":src}),
                        );
                        next = ci + 1;
                        break;
                    }
                }
            }
            start = next;
        }
    }
    rep
}

pub fn run(ctx: &Ctx) -> i32 {
    let plan: Vec<(Profile, usize)> = if ctx.quick() {
        vec![(corpus::FULL, 3), (corpus::OBJECTS, 3), (corpus::FUNCTIONS, 3), (corpus::COMPS, 3)]
    } else {
        vec![(corpus::FULL, 4), (corpus::OBJECTS, 4), (corpus::FUNCTIONS, 5), (corpus::COMPS, 5), (corpus::LAZY, 4)]
    };
    let mut total = Report::new();
    for (p, nmax) in plan {
        for n in 1..=nmax {
            let cfg = util::ForkCfg {
                threads: ctx.threads,
                mem_bytes: 3 << 30,
                case_timeout_s: 60,
                died_signature: "C09/abort".into(), resource_is_violation: false,
            };
            let nshards = if n >= 4 { 128 } else { 16 };
            corpus::warm(p, n);
            let r = util::par_forked(&cfg, nshards, |sh| sweep(p, n, sh));
            total.extra.insert(format!("base_programs_{}_{}", p.name, n), json!(r.states));
            total.merge(r);
        }
    }
    {
        let cfg = util::ForkCfg { threads: ctx.threads, mem_bytes: 3 << 30, case_timeout_s: 60, died_signature: "C09/abort".into(), resource_is_violation: false };
        let before = total.evaluations;
        let r = util::par_forked(&cfg, 256, |sh| edit_sweep(!ctx.quick(), sh));
        total.extra.insert("edited_programs".into(), json!(r.states));
        total.merge(r);
        total.extra.insert("edited_programs_judged".into(), json!(total.evaluations - before));
    }
    util::finish(
        ctx,
        LevelInfo {
            level: "model_checking",
            rule: "every single edit (token or fragment insertion, deletion, replacement, adjacent swap; thorough: plus a second deletion) of the seed programs that the parser accepts; every corpus program (fault-free) and, for every node position of it, every one of the listed fault / look-alike expressions substituted at that position; model = the specification's static rules; distinct+nontrivial = distinct (set of model errors, syntactic feature set)".into(),
            assumptions: vec!["syntax::static_check implements the specification's static rules".into(), "when several static errors are present any of them may be reported".into()],
        },
        total,
    )
}

pub fn replay(v: &serde_json::Value) -> i32 {
    let c = &v["case"];
    let src = c["source"].as_str().unwrap_or("");
    let r = rt::run_fresh(src.as_bytes(), &RunCfg::default());
    println!("source: {src}\n  implementation: {}\n  model expects static errors: {}", r.outcome.short(), c["expected"]);
    let rejected = matches!(&r.outcome, Outcome::Load { phase, .. } if *phase == "analyze");
    let expected_reject = c["expected"].as_array().map(|a| !a.is_empty()).unwrap_or(false);
    if rejected == expected_reject { 0 } else { 1 }
}
