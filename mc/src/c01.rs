//! C01 — every input is answered with a value or a diagnosed error, never a crash.
//! Exhaustive sweeps of the whole pipeline (load -> evaluate -> manifest) in crash-isolated
//! workers: byte strings, token sequences, corpus programs, every standard-library function on
//! every argument tuple of a boundary pool, source nesting depths; CLI conformance for one
//! representative of every outcome class.
use crate::c14;
use crate::c15;
use crate::cli::{self, Stdout};
use crate::corpus;
use crate::rt::{self, Outcome, RunCfg};
use crate::syntax;
use crate::util::{self, Ctx, LevelInfo, Report};
use rsjsonnet_lang::arena::Arena;
use rsjsonnet_lang::program::Program;
use serde_json::{Value as J, json};

fn classify<'p>(p: &mut Program<'p>, src: &[u8], rep: &mut Report, what: &str) -> Option<Outcome> {
    let r = util::catch(|| rt::run_on(p, src, &RunCfg { max_stack: Some(100), check_spans: true, ..Default::default() }));
    rep.evaluations += 1;
    rep.traces_validated += 1;
    rep.transitions += 1;
    match r {
        Ok(r) => {
            let class = r.outcome.class();
            rep.outcome(&class);
            let key = format!("repr:{class}");
            if !rep.extra.contains_key(&key) && src.len() < 300 {
                rep.extra.insert(key, json!(String::from_utf8_lossy(src)));
            }
            if let Some(i) = r.span_issues.first() {
                rep.violation("C01/error-span-outside-source", format!("{what} {:?}: {i}", String::from_utf8_lossy(src)), json!({"type":"eval","source":String::from_utf8_lossy(src)}));
            }
            Some(r.outcome)
        }
        Err(m) => {
            let site = util::panic_site(&m);
            let sig = if m.contains("char boundary") && site.contains("eval/mod.rs") { "C01/panic/rsjsonnet-lang/src/program/eval/mod.rs/parse_num_radix".to_string() } else { format!("C01/panic/{site}") };
            rep.violation(sig, format!("{what} {:?}: internal failure: {m}", util::truncate(&String::from_utf8_lossy(src), 300)), json!({"type":"eval","bytes":src,"source":String::from_utf8_lossy(src)}));
            None
        }
    }
}

fn byte_sweep(len: usize, sh: &util::Shard) -> Report {
    let mut rep = Report::new();
    let a = c14::BYTE_ALPHABET;
    let mut idx = 0u64;
    let mut n = 0;
    let mut arena = Box::new(Arena::new());
    let mut prog: Option<Program<'_>> = None;
    let _ = (&mut arena, &mut prog);
    // programs are re-created every 5000 cases to bound memory
    let mut cases: Vec<Vec<u8>> = Vec::new();
    util::for_each_seq(a.len(), len, |seq| {
        let mine = sh.mine(idx);
        idx += 1;
        if mine {
            let mut input = Vec::new();
            for &i in seq {
                input.extend_from_slice(a[i]);
            }
            cases.push(input);
        }
    });
    for chunk in cases.chunks(5000) {
        let arena = Arena::new();
        let mut p = Program::new(&arena);
        for c in chunk {
            n += 1;
            if !sh.begin_case(n, &|| format!("{:?}", String::from_utf8_lossy(c))) {
                continue;
            }
            rep.states += 1;
            if classify(&mut p, c, &mut rep, "byte string").is_none() {
                break;
            }
        }
    }
    rep.distinct(&(len, sh.index));
    rep
}

fn token_sweep(len: usize, sh: &util::Shard) -> Report {
    let mut rep = Report::new();
    let toks = c15::TOKENS;
    let mut idx = 0u64;
    let mut cases: Vec<String> = Vec::new();
    util::for_each_seq(toks.len(), len, |seq| {
        let mine = sh.mine(idx);
        idx += 1;
        if mine {
            cases.push(seq.iter().map(|&i| toks[i]).collect::<Vec<_>>().join(" "));
        }
    });
    let mut n = 0u64;
    for chunk in cases.chunks(5000) {
        let arena = Arena::new();
        let mut p = Program::new(&arena);
        for c in chunk {
            n += 1;
            if !sh.begin_case(n, &|| c.clone()) {
                continue;
            }
            rep.states += 1;
            if classify(&mut p, c.as_bytes(), &mut rep, "token sequence").is_none() {
                break;
            }
        }
    }
    rep.distinct(&(len, sh.index, "tok"));
    rep
}

fn corpus_sweep(profile: corpus::Profile, n: usize, sh: &util::Shard) -> Report {
    let mut rep = Report::new();
    let mut batch: Vec<(u64, String)> = Vec::new();
    let process = |batch: &mut Vec<(u64, String)>, rep: &mut Report| {
        let arena = Arena::new();
        let mut p = Program::new(&arena);
        for (idx, src) in batch.drain(..) {
            if !sh.begin_case(idx, &|| src.clone()) {
                continue;
            }
            rep.states += 1;
            if classify(&mut p, src.as_bytes(), rep, "program").is_none() {
                return;
            }
        }
    };
    corpus::for_each_sharded(profile, n, sh.index, sh.n, &mut |idx, e| {
        batch.push((idx, syntax::print(&e, syntax::MINIMAL)));
        if batch.len() >= 1000 {
            while !batch.is_empty() {
                process(&mut batch, &mut rep);
            }
        }
    });
    while !batch.is_empty() {
        process(&mut batch, &mut rep);
    }
    rep
}


// ------------------------------------------------------------------ single edits of well-formed programs

/// Well-formed seed programs, one per syntactic form (tokens separated by blanks).
pub const EDIT_SEEDS: &[&str] = &[
    "{ a : 1 , b :: 2 , c ::: 3 }",
    "{ local v = 1 , a : v , assert self . a == 1 : \"m\" }",
    "{ [ k ] : 1 for k in [ \"a\" , \"b\" ] if k != \"b\" }",
    "{ local v = k , [ k ] +: v for k in [ \"a\" ] for j in [ k ] }",
    "{ a : 1 } + { a +: 2 , f ( x , y = 2 ) : x + y }",
    "{ a : 1 } { a : super . a + 1 , b : \"a\" in super }",
    "[ x + 1 for x in [ 1 , 2 , 3 ] if x > 1 for y in [ x ] ]",
    "local f ( x , y = 1 ) = x + y ; f ( 1 , y = 2 )",
    "local a = 1 , b = a ; function ( p = b ) p",
    "( function ( x ) x * 2 ) ( 3 ) tailstrict",
    "if true then 1 else if false then 2 else 3",
    "[ 0 , 1 , 2 , 3 ] [ 1 : 3 : 1 ]",
    "\"abc\" [ : : 2 ] + \"x\" [ 0 ]",
    "assert 1 < 2 : \"m\" ; error \"e\" + 1",
    "local o = { a : { b : [ 1 ] } } ; o . a . b [ 0 ]",
    "- 1 + ! true || ~ 2 & 3 | 4 ^ 5 << 1 >> 1 % 2",
    "1 == 1 && 2 != 3 && 1 <= 2 && 2 >= 1 && \"a\" in { a : 1 }",
    "std . length ( [ 1 , 2 ] ) + std . length ( \"ab\" )",
    "{ a : $ . b , b : self . c , c : 1 } . a",
    "[ import \"x\" , importstr \"y\" , importbin \"z\" ]",
    "|||\n\ta\n||| + @\"q\" + 'r'",
    "{ a : 1 } { b : 2 } { c : 3 }",
    "local f = function ( a , b ) [ a , b ] ; f ( b = 1 , a = 2 )",
    "{ assert true , a : 1 } . a",
    "{ \"q\" : 1 , 'r' : 2 , [ null ] : 3 }",
];

/// Edit alphabet: single tokens and member-/clause-sized fragments.
pub const EDIT_ALPHABET: &[&str] = &[
    "{", "}", "[", "]", "(", ")", ",", ";", ":", "::", ":::", "+:", ".", "=", "+", "-", "!", "==", "<", "in", "$", "self", "super", "local", "assert", "function",
    "if", "then", "else", "for", "error", "import", "tailstrict", "null", "true", "1", "\"a\"", "k", "x", "|||",
    "assert true ,", ", assert true : \"m\"", "local v = 1 ,", ", local v = 1", "for k in [ \"a\" ]", "if true", "[ k ] : 1 ,", ", [ k ] +: 1", "a : 1 ,", ", b :: 2",
    "f ( x ) : x ,", "x = 1", ", y = 2", "( 1 )", "[ 0 ]", "[ : ]", ". a", "{ }", "{ a : 1 }", "local v = 1 ;", "assert true ;", "function ( x )", "then 1 else",
];

pub fn edit_cases(seed: &str, two: bool) -> Vec<String> {
    edit_cases_with(seed, two, EDIT_ALPHABET)
}

pub fn edit_cases_with(seed: &str, two: bool, alphabet: &[&str]) -> Vec<String> {
    let toks: Vec<&str> = seed.split(' ').collect();
    let mut out: Vec<String> = vec![seed.to_string()];
    let one = |toks: &[&str], out: &mut Vec<String>| {
        for i in 0..=toks.len() {
            for a in alphabet {
                let mut t = toks.to_vec();
                t.insert(i, a);
                out.push(t.join(" "));
            }
            if i < toks.len() {
                let mut t = toks.to_vec();
                t.remove(i);
                out.push(t.join(" "));
                for a in alphabet {
                    if *a != toks[i] {
                        let mut t = toks.to_vec();
                        t[i] = a;
                        out.push(t.join(" "));
                    }
                }
                if i + 1 < toks.len() {
                    let mut t = toks.to_vec();
                    t.swap(i, i + 1);
                    out.push(t.join(" "));
                }
            }
        }
    };
    one(&toks, &mut out);
    if two {
        // second deviation: every deletion after every deletion / fragment insertion
        let first: Vec<String> = out.clone();
        for f in first.iter().skip(1).filter(|f| f.split(' ').count() <= toks.len() + 4) {
            let t: Vec<&str> = f.split(' ').collect();
            for i in 0..t.len() {
                let mut u = t.clone();
                u.remove(i);
                out.push(u.join(" "));
            }
        }
    }
    out
}

fn edit_sweep(two: bool, sh: &util::Shard) -> Report {
    let mut rep = Report::new();
    let mut n = 0u64;
    for (si, seed) in EDIT_SEEDS.iter().enumerate() {
        let cases = edit_cases(seed, two);
        let base = n;
        let mut start = 0usize;
        // a fresh Program after every internal failure, continuing with the next case
        while start < cases.len() {
            let arena = Arena::new();
            let mut p = Program::new(&arena);
            let mut next = cases.len();
            for (ci, c) in cases.iter().enumerate().skip(start) {
                let id = base + ci as u64 + 1;
                if !sh.mine(id) || !sh.begin_case(id, &|| c.clone()) {
                    continue;
                }
                rep.states += 1;
                if classify(&mut p, c.as_bytes(), &mut rep, "edited program").is_none() {
                    next = ci + 1;
                    break;
                }
            }
            start = next;
        }
        n = base + cases.len() as u64;
        rep.distinct(&(si, "edit"));
    }
    rep
}

// ------------------------------------------------------------------ builtins

pub fn arg_pool(quick: bool) -> Vec<&'static str> {
    let mut v = vec![
        "null", "true", "0", "-0", "1", "-1", "0.5", "2", "3", "-2.5", "65535", "65536", "2147483648", "9007199254740993", "1e300", "-1e300", "5e-324", "1.7976931348623157e308",
        "\"\"", "\"a\"", "\"ab,c\"", "\"é😀\"", "\"%s %d\"", "\"%.3s|%5.1f|%c|%(k)s|%*d\"", "\"1234567890123456789012345678901é\"", "\"{\\\"a\\\": [1]}\"", "\" \\t\\n\"",
        "[]", "[1, 2, 3]", "[\"a\", \"b\"]", "[[1], [2, [3]]]", "[1, \"a\", null]", "[error \"lazy element\"]",
        "{}", "{a: 1, b: \"x\"}", "{a: {b: [1]}, h:: 2}", "{assert false, a: 1}",
        "function(x) x", "function(x, y) x", "function() 1", "function(x, y=x) y", "std.length", "std.pow", "std.substr",
    ];
    if quick {
        // every kind stays represented; function values are never dropped (arity mismatches
        // between a builtin and the function handed to it are a panic source of their own)
        v = v.into_iter().enumerate().filter(|(i, x)| i % 2 == 0 || x.contains("function") || x.starts_with("std.") || [4usize, 13, 23, 31, 35].contains(i)).map(|(_, x)| x).collect();
    }
    v
}

fn small_pool() -> Vec<&'static str> {
    vec!["null", "0", "-1", "2", "0.5", "1e300", "\"\"", "\"ab,c\"", "\"é😀\"", "[]", "[1, \"a\", null]", "{a: 1, b: \"x\"}", "function(x) x", "function(x, y) x", "std.length", "std.pow"]
}

pub fn std_functions() -> Vec<(String, usize)> {
    let src = "[[n, if std.isFunction(std[n]) then std.length(std[n]) else -1] for n in std.objectFieldsAll(std)]";
    match rt::run_fresh(src.as_bytes(), &RunCfg::default()).outcome {
        Outcome::Value(s) => {
            let v: J = serde_json::from_str(&s).unwrap();
            v.as_array().unwrap().iter().map(|p| (p[0].as_str().unwrap().to_string(), p[1].as_i64().unwrap())).filter(|(_, a)| *a >= 0).map(|(n, a)| (n, a as usize)).collect()
        }
        o => {
            eprintln!("ENGINE-ERROR: cannot list std members: {}", o.short());
            std::process::exit(3);
        }
    }
}

fn builtin_sweep(funcs: &[(String, usize)], quick: bool, sh: &util::Shard) -> Report {
    let mut rep = Report::new();
    let pool = arg_pool(quick);
    let small = small_pool();
    let tiny: Vec<&str> = small.iter().step_by(2).copied().collect();
    let arena = Arena::new();
    let mut p = Program::new(&arena);
    let mut n = 0u64;
    for (fi, (name, arity)) in funcs.iter().enumerate() {
        if !sh.mine(fi as u64) {
            continue;
        }
        if matches!(name.as_str(), "trace" | "native" | "extVar") && false {
            continue;
        }
        let pools: Vec<&Vec<&str>> = match arity {
            0 | 1 | 2 => vec![&pool; *arity],
            3 => vec![&small; 3],
            _ => vec![&tiny; *arity],
        };
        let mut idx = vec![0usize; *arity];
        loop {
            let args: Vec<&str> = idx.iter().enumerate().map(|(k, &i)| pools[k][i]).collect();
            let src = format!("std.{name}({})", args.join(", "));
            n += 1;
            if sh.begin_case(n, &|| src.clone()) {
                rep.states += 1;
                let o = classify(&mut p, src.as_bytes(), &mut rep, "builtin call");
                if o.is_none() {
                    // the program state may be poisoned after a panic: the caller's loop goes on
                    // with the same Program only for cheap cases; recreate is not possible here
                }
                rep.distinct(&(fi, o.as_ref().map(|o| o.class())));
            }
            // next tuple
            let mut k = *arity;
            loop {
                if k == 0 {
                    break;
                }
                k -= 1;
                idx[k] += 1;
                if idx[k] < pools[k].len() {
                    break;
                }
                idx[k] = 0;
                if k == 0 {
                    k = usize::MAX;
                    break;
                }
            }
            if *arity == 0 || k == usize::MAX {
                break;
            }
        }
        if fi % 13 == 0 {
            rep.sample(json!({"function": name, "arity": arity}));
        }
    }
    rep
}

// ------------------------------------------------------------------ nesting

pub const NEST_FORMS: &[(&str, &str, &str, &str)] = &[
    // (name, opening repeated, innermost, closing repeated)
    ("object", "{a:", "1", "}"),
    ("array", "[", "1", "]"),
    ("parentheses", "(", "1", ")"),
    ("local", "local a = 1; ", "a", ""),
    ("if", "if true then ", "1", ""),
    ("function", "function(x) ", "1", ""),
    ("error", "error ", "\"e\"", ""),
    ("assert", "assert true; ", "1", ""),
    ("call-argument", "std.length([", "1", "])"),
    ("unary-chain", "-", "1", ""),
    ("binary-chain", "1 + ", "1", ""),
    ("index-chain", "", "[[0]]", "[0]"),
    ("field-chain", "", "{a: 1}", ".a"),
    ("slice-chain", "", "[1]", "[0:1]"),
    ("object-extension-chain", "", "{a: 1}", "{a+: 1}"),
    ("comprehension", "[", "1", " for x in [1]]"),
    ("object-comprehension", "{[\"a\"]:", "1", " for x in [1]}"),
    ("import", "", "1", ""),
];

fn nest_src(form: usize, depth: usize) -> String {
    let (_, open, inner, close) = NEST_FORMS[form];
    format!("{}{}{}", open.repeat(depth), inner, close.repeat(depth))
}

pub fn nest_depths(quick: bool) -> Vec<usize> {
    if quick { vec![10, 100, 200, 300, 500, 1000, 10_000] } else { vec![10, 100, 200, 300, 500, 1000, 10_000, 100_000] }
}

pub fn run(ctx: &Ctx) -> i32 {
    let mut total = Report::new();
    let cfg = util::ForkCfg { threads: ctx.threads, mem_bytes: 3 << 30, case_timeout_s: 60, died_signature: "C01/abort".into(), resource_is_violation: false };
    // 1. bytes
    let bl = if ctx.quick() { 3 } else { 4 };
    for len in 0..=bl {
        let r = util::par_forked(&cfg, if len >= 3 { 128 } else { 8 }, |sh| byte_sweep(len, sh));
        total.extra.insert(format!("byte_strings_len{len}"), json!(r.states));
        total.merge(r);
    }
    // 2. tokens
    let tl = if ctx.quick() { 3 } else { 4 };
    for len in 1..=tl {
        let r = util::par_forked(&cfg, if len >= 3 { 128 } else { 8 }, |sh| token_sweep(len, sh));
        total.extra.insert(format!("token_sequences_len{len}"), json!(r.states));
        total.merge(r);
    }
    // 2a. the lexer's literal corpora (every Unicode scalar value in every literal form, all
    // invalid UTF-8 sequences over 19 border bytes, number and operator texts, text blocks)
    // through the whole pipeline
    {
        let mut cases: Vec<Vec<u8>> = Vec::new();
        cases.extend(c14::string_cases(ctx.quick()));
        cases.extend(c14::number_cases(if ctx.quick() { 4 } else { 5 }));
        cases.extend(c14::operator_cases());
        cases.extend(c14::textblock_cases(if ctx.quick() { 2 } else { 3 }));
        let r = util::par_forked(&cfg, 128, |sh| {
            let mut rep = Report::new();
            let mut start = 0usize;
            while start < cases.len() {
                let arena = Arena::new();
                let mut p = Program::new(&arena);
                let mut next = cases.len();
                for (ci, c) in cases.iter().enumerate().skip(start) {
                    if !sh.mine(ci as u64) || !sh.begin_case(ci as u64, &|| String::from_utf8_lossy(c).into_owned()) {
                        continue;
                    }
                    rep.states += 1;
                    if classify(&mut p, c, &mut rep, "literal").is_none() {
                        next = ci + 1;
                        break;
                    }
                }
                start = next;
            }
            rep
        });
        total.extra.insert("literal_texts".into(), json!(r.states));
        total.merge(r);
    }
    // 2a'. every ordered pair of C07's object expressions combined with `+`, manifested, compared
    // and converted (object-layer bookkeeping after objectRemoveKey / mergePatch / comprehensions)
    {
        let pool = crate::c07::pool(false);
        let mut cases: Vec<String> = Vec::new();
        for a in &pool {
            for b in &pool {
                cases.push(format!("local o = ({}) + ({}); [o, std.toString(o) == std.toString(o), o == o, std.objectFieldsAll(o), std.length(o)]", a.src, b.src));
            }
        }
        let r = util::par_forked(&cfg, 64, |sh| {
            let mut rep = Report::new();
            let mut start = 0usize;
            while start < cases.len() {
                let arena = Arena::new();
                let mut p = Program::new(&arena);
                let mut next = cases.len();
                for (ci, c) in cases.iter().enumerate().skip(start) {
                    if !sh.mine(ci as u64) || !sh.begin_case(ci as u64, &|| c.clone()) {
                        continue;
                    }
                    rep.states += 1;
                    if classify(&mut p, c.as_bytes(), &mut rep, "object pair").is_none() {
                        next = ci + 1;
                        break;
                    }
                }
                start = next;
            }
            rep
        });
        total.extra.insert("object_expression_pairs".into(), json!(r.states));
        total.merge(r);
    }
    // 2b. every single edit (token or fragment insertion, deletion, replacement, swap) of the seed programs
    let r = util::par_forked(&cfg, 128, |sh| edit_sweep(!ctx.quick(), sh));
    total.extra.insert("edited_programs".into(), json!(r.states));
    total.extra.insert("edit_seeds".into(), json!(EDIT_SEEDS.len()));
    total.extra.insert("edit_alphabet".into(), json!(EDIT_ALPHABET.len()));
    total.merge(r);
    // 3. programs
    let plan: Vec<(corpus::Profile, usize)> = if ctx.quick() { vec![(corpus::FULL, 3), (corpus::SLICES, 4), (corpus::ARITH, 4)] } else { vec![(corpus::FULL, 4), (corpus::SLICES, 5), (corpus::ARITH, 5), (corpus::COMPARE, 4)] };
    for (p, nmax) in plan {
        for n in 1..=nmax {
            corpus::warm(p, n);
            let r = util::par_forked(&cfg, if n >= 4 { 128 } else { 8 }, |sh| corpus_sweep(p, n, sh));
            total.extra.insert(format!("programs_{}_{n}", p.name), json!(r.states));
            total.merge(r);
        }
    }
    // 4. builtins
    let funcs = std_functions();
    let quick = ctx.quick();
    let r = util::par_forked(&cfg, funcs.len(), |sh| builtin_sweep(&funcs, quick, sh));
    total.extra.insert("std_functions".into(), json!(funcs.len()));
    total.extra.insert("builtin_calls".into(), json!(r.states));
    total.merge(r);
    // 5. nesting: one forked worker per (form, depth)
    let depths = nest_depths(ctx.quick());
    let ncfg = util::ForkCfg { threads: ctx.threads, mem_bytes: 6 << 30, case_timeout_s: 120, died_signature: "C01/native-stack/source-nesting".into(), resource_is_violation: false };
    let mut r = util::par_forked(&ncfg, NEST_FORMS.len() * depths.len(), |sh| {
        let mut rep = Report::new();
        let (form, depth) = (sh.index / depths.len(), depths[sh.index % depths.len()]);
        let src = nest_src(form, depth);
        if !sh.begin_case(0, &|| format!("{} nested {depth} deep", NEST_FORMS[form].0)) {
            return rep;
        }
        // the library's default native stack is the caller's: run on an 8 MiB thread like the CLI
        let h = std::thread::Builder::new().stack_size(8 << 20).spawn(move || {
            let arena = Arena::new();
            let mut p = Program::new(&arena);
            let mut rep = Report::new();
            classify(&mut p, src.as_bytes(), &mut rep, "nested source");
            rep
        });
        if let Ok(h) = h {
            if let Ok(r2) = h.join() {
                rep.merge(r2);
            }
        }
        rep.states += 1;
        rep.distinct(&(form, depth));
        rep
    });
    // name the form in the signature of a process death, so that the known finding is specific
    for v in r.violations.iter_mut() {
        if v.signature.ends_with("/process-died") {
            if let Some(s) = v.case["shard"].as_u64() {
                let form = NEST_FORMS[s as usize / depths.len()].0;
                v.signature = format!("C01/native-stack/source-nesting/{form}");
            }
        }
    }
    total.extra.insert("nesting_forms".into(), json!(NEST_FORMS.len()));
    total.extra.insert("nesting_depths".into(), json!(depths));
    total.merge(r);
    // 6. CLI conformance for one representative per outcome class
    if std::path::Path::new(&cli::binary()).exists() {
        let reprs: Vec<(String, String)> = total.extra.iter().filter(|(k, _)| k.starts_with("repr:")).map(|(k, v)| (k.clone(), v.as_str().unwrap_or("").to_string())).collect();
        for (class, src) in &reprs {
            // (an argument cannot carry a NUL byte: such a source goes through stdin)
            let o = if src.contains('\0') { cli::run(&["-".into()], Some(src.as_bytes()), Stdout::Capture, &[], None) } else { cli::run(&["-e".into(), src.clone()], None, Stdout::Capture, &[], None) };
            total.evaluations += 1;
            let stderr = String::from_utf8_lossy(&o.stderr);
            let ok_status = matches!(o.code, Some(0 | 1 | 2)) && o.signal.is_none();
            let class_ok = if class == "repr:value" { o.code == Some(0) } else { o.code == Some(1) };
            if !ok_status || stderr.contains("panicked at") || stderr.contains("overflowed its stack") {
                total.violation("C01/cli/exit-status-or-crash", format!("rsjsonnet -e {src:?}: exit {:?} signal {:?} stderr {:?}", o.code, o.signal, util::truncate(&stderr, 200)), json!({"type":"cli","args":["-e", src]}));
            } else if !class_ok && !src.starts_with('-') {
                total.violation("C01/cli/status-does-not-match-outcome", format!("rsjsonnet -e {src:?} ({class}): exit {:?}", o.code), json!({"type":"cli","args":["-e", src]}));
            } else if o.code == Some(1) && stderr.trim().is_empty() {
                total.violation("C01/cli/no-diagnostic", format!("rsjsonnet -e {src:?}: exit 1 without a diagnostic"), json!({"type":"cli","args":["-e", src]}));
            }
        }
        total.extra.insert("cli_representatives".into(), json!(reprs.len()));
        // nesting through the CLI (the binary's own stack)
        for (fi, form) in NEST_FORMS.iter().enumerate() {
            for d in [100usize, 1000, 10_000] {
                let src = nest_src(fi, d);
                let o = cli::run(&["-".into()], Some(src.as_bytes()), Stdout::Capture, &[], None);
                total.evaluations += 1;
                if o.signal.is_some() || !matches!(o.code, Some(0 | 1 | 2)) {
                    total.violation(format!("C01/native-stack/source-nesting/{}", form.0), format!("rsjsonnet on {} nested {d} deep: exit {:?} signal {:?} {}", form.0, o.code, o.signal, util::truncate(&String::from_utf8_lossy(&o.stderr), 120)), json!({"type":"cli-nesting","form":form.0,"depth":d}));
                }
            }
        }
    }
    let keys: Vec<String> = total.extra.keys().filter(|k| k.starts_with("repr:")).cloned().collect();
    let mut reprs = serde_json::Map::new();
    for k in keys {
        if let Some(v) = total.extra.remove(&k) {
            reprs.insert(k.trim_start_matches("repr:").to_string(), v);
        }
    }
    total.extra.insert("representative_per_outcome_class".into(), J::Object(reprs));
    util::finish(
        ctx,
        LevelInfo {
            level: "exploration",
            rule: "whole pipeline (load, evaluate, manifest; error spans checked) on: all byte strings up to length 3/4 over a 54-symbol alphabet; all token sequences up to length 3/4 over 60 tokens; the lexer corpora of C14 (every Unicode scalar value in every literal form, all invalid UTF-8 sequences of length <=3/4 over 19 border bytes in strings, verbatim strings, comments and text blocks, number and operator texts, text-block layouts); every ordered pair of C07's object expressions combined, manifested, compared and converted; every single edit (insertion, deletion, replacement by each of 63 tokens and member-/clause-sized fragments, adjacent swap; thorough: plus a second deletion) of 25 well-formed seed programs; corpus programs up to the node bound; every function of std x every argument tuple from a boundary pool (40 values for arity <=2, 14 for arity 3, 7 above; quick halves the pools); 18 recursive syntactic forms at nesting depths 10..10^4(10^5), each in its own process; the real binary on one representative of every outcome class and on the nesting forms. Outcome classifier: value / Lex|Parse|Analyze error / EvalError only - a panic, abort or signal is a violation. distinct+nontrivial = distinct (function, outcome class) / sweep shards".into(),
            assumptions: vec!["memory exhaustion and the per-case time cap are resource outcomes, not verdicts".into(), "values outside the pools are not covered".into()],
        },
        total,
    )
}

pub fn replay(v: &serde_json::Value) -> i32 {
    let c = &v["case"];
    if let Some(b) = c["bytes"].as_array() {
        let bytes: Vec<u8> = b.iter().map(|x| x.as_u64().unwrap() as u8).collect();
        println!("{:?}\n  => {}", String::from_utf8_lossy(&bytes), rt::run_fresh(&bytes, &RunCfg::default()).outcome.short());
        return 1;
    }
    if let Some(src) = c["source"].as_str() {
        println!("{src}\n  => {}", rt::run_fresh(src.as_bytes(), &RunCfg::default()).outcome.short());
        return 1;
    }
    println!("{}", v["what"]);
    1
}
