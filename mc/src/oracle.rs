//! Batch oracles: Python (stdlib) and the C printf helper answer line by line.
use serde_json::Value as J;
use std::io::Write;

fn tmp(name: &str) -> String {
    let d = format!("{}/target/tmp", crate::util::verif_dir());
    std::fs::create_dir_all(&d).ok();
    format!("{d}/{}-{}", std::process::id(), name)
}

/// Sends the requests to `python3 oracles/oracle.py`; returns one answer per request.
pub fn python(reqs: &[J]) -> Vec<J> {
    if reqs.is_empty() {
        return vec![];
    }
    let inp = tmp("oracle.in");
    let outp = tmp("oracle.out");
    {
        let mut f = std::io::BufWriter::new(std::fs::File::create(&inp).expect("oracle input"));
        for r in reqs {
            serde_json::to_writer(&mut f, r).unwrap();
            f.write_all(b"\n").unwrap();
        }
    }
    let script = format!("{}/oracles/oracle.py", crate::util::verif_dir());
    let st = std::process::Command::new("/usr/bin/python3")
        .arg(&script)
        .stdin(std::fs::File::open(&inp).unwrap())
        .stdout(std::fs::File::create(&outp).unwrap())
        .status();
    match st {
        Ok(s) if s.success() => {}
        other => {
            eprintln!("ENGINE-ERROR: python oracle failed: {other:?}");
            std::process::exit(3);
        }
    }
    let text = std::fs::read_to_string(&outp).expect("oracle output");
    let v: Vec<J> = text.lines().map(|l| serde_json::from_str(l).unwrap_or(J::Null)).collect();
    let _ = std::fs::remove_file(&inp);
    let _ = std::fs::remove_file(&outp);
    if v.len() != reqs.len() {
        eprintln!("ENGINE-ERROR: python oracle answered {} of {} requests", v.len(), reqs.len());
        std::process::exit(3);
    }
    v
}

/// C snprintf helper: each request line is `fmt<TAB>kind<TAB>value` ; answer is the rendered text
/// (JSON string) or null when C's grammar rejects it.
pub fn cprintf(lines: &[String]) -> Vec<Option<String>> {
    if lines.is_empty() {
        return vec![];
    }
    let inp = tmp("cprintf.in");
    let outp = tmp("cprintf.out");
    std::fs::write(&inp, lines.join("\n") + "\n").unwrap();
    let exe = format!("{}/target/cprintf", crate::util::verif_dir());
    let st = std::process::Command::new(&exe).stdin(std::fs::File::open(&inp).unwrap()).stdout(std::fs::File::create(&outp).unwrap()).status();
    match st {
        Ok(s) if s.success() => {}
        other => {
            eprintln!("ENGINE-ERROR: cprintf oracle failed: {other:?}");
            std::process::exit(3);
        }
    }
    let text = std::fs::read_to_string(&outp).expect("oracle output");
    let v: Vec<Option<String>> = text.lines().map(|l| serde_json::from_str::<Option<String>>(l).unwrap_or(None)).collect();
    let _ = std::fs::remove_file(&inp);
    let _ = std::fs::remove_file(&outp);
    if v.len() != lines.len() {
        eprintln!("ENGINE-ERROR: cprintf oracle answered {} of {} requests", v.len(), lines.len());
        std::process::exit(3);
    }
    v
}
