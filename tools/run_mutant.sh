#!/bin/bash
# usage: tools/run_mutant.sh <patch.diff> <check id> [<check id> ...]
# Applies the patch to /repo's working tree, runs the given checks (quick tier), prints the
# verdict lines, and ALWAYS restores /repo afterwards.
set -u
PATCH="$(readlink -f "$1")"; shift
cd "$(dirname "$0")/.."
if ! git -C /repo diff --quiet; then echo "refusing: /repo has uncommitted changes"; exit 3; fi
if ! git -C /repo apply --check "$PATCH" 2>/dev/null; then echo "patch does not apply: $PATCH"; exit 3; fi
git -C /repo apply "$PATCH"
trap 'git -C /repo checkout -- . ; git -C /repo clean -fdq -- rsjsonnet rsjsonnet-lang rsjsonnet-front >/dev/null 2>&1' EXIT
for id in "$@"; do
  out=$(./check "$id" "${TIER:-quick}" 2>&1); code=$?
  echo "== $id exit $code"
  echo "$out" | grep -E "^VIOLATION|^  signature|^  what|ENGINE-ERROR|^$id " | cut -c1-400
done
