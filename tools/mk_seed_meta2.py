#!/usr/bin/env python3
"""Round 2: builds seeded/<name>/meta.json from the evaluation logs
(target/seedlogs3/<ID>.txt, overridden by target/seedlogs4/<ID>.txt)."""
import json, os, re, shutil
ROOT = "/verif"
# id -> (directory name, what it needs to manifest, what was strengthened in response (or None))
NAMES = {
 "C01": ("R2-C01-assert-member-allowed-before-comprehension-spec",
         "an object literal with an `assert` member, exactly one computed default-visibility field and a `for` spec (`{ assert true, [k]: 1 for k in [\"a\"] }`): the parser reaches unreachable!() instead of a syntax error",
         "first version: C01 and C15 both passed (no ill-formed object-inside member mixes). Added C15 object-inside forms (every member mix x comprehension spec, parse must not panic) and C01 edit sweep (every single token/fragment edit of 25 seed programs)"),
 "C02": ("R2-C02-comprehension-field-env-from-search-start-layer",
         "an object comprehension that is a non-rightmost operand of `+` and whose field is reached through super / `+:` from a layer to its right: the field body sees self/super of the wrong layer",
         "first version: not seen by C02/C04 (needs >= 8 nodes), and C07 aborted with a harness panic outside a guarded case (pair_laws); that is now guarded with util::catch (reported as C07/panic, and the model comparison C07/model/... runs to the end). C02 then gained the edit sweep (every single edit of feature-interaction seed programs, tree taken from the implementation's parser, compared with the reference interpreter), which reports it as a wrong value"),
 "C03": ("R2-C03-count-phase-does-not-advance-after-swap",
         "a collection in which >=2 view-held objects sit behind other objects: the count phase re-examines a processed slot, reference counts are wrong and reachable objects are reclaimed",
         None),
 "C04": ("R2-C04-deep-evaluation-skips-checked-objects",
         "a value reached twice where the first use forced an object only to weak-head form (field access / comprehension-built object): deep evaluation skips it, errors inside are lost and the trace differs",
         "predicted miss on reading the change (the run against it used the strengthened check): DEEP_TRACE seeds added (std.trace inside fields of an object that was touched before being manifested)"),
 "C05": ("R2-C05-negative-float-negative-exponent-plain-yaml-key",
         "manifestYamlDoc/Stream with quote_keys=false and a key such as `-1.5e-3` (two minus signs): emitted bare, a YAML parser resolves it to a float",
         "first version: folded into the known finding F13 because the signature did not name the key class; signatures are now per key class (float-with-dot is not a listed finding) and the key generator enumerates sign/exponent-sign combinations"),
 "C06": ("R2-C06-finite-gate-checks-only-upper-bound",
         "any operator or builtin whose result is below -f64::MAX (`-1e308 * 10`, std.log(0)): -inf becomes a value",
         None),
 "C07": ("R2-C07-combined-object-inherits-checked-flag",
         "`A + B` where both operands were already used (fields read / manifested) and an inherited assertion mentions self: the assertion is not re-run for the combined object",
         None),
 "C08": ("R2-C08-number-equality-with-epsilon-tolerance",
         "`==`/`!=`/std.equals on numbers closer than 2.2e-16 in absolute terms (0.1+0.2 vs 0.3, 1e-300 vs 0, neighbours)",
         None),
 "C09": ("R2-C09-for-binder-in-scope-of-its-own-iterable",
         "`[v for v in v]` / `{[k]: 1 for k in f(k)}` with no outer binding of the loop variable: accepted statically, panics `variable not found` when evaluated",
         None),
 "C10": ("R2-C10-yaml-object-nesting-costs-no-frame",
         "std.manifestYamlDoc/Stream on deeply nested objects: nesting costs no frames, a self-containing object is walked forever",
         "predicted miss on reading the change (finite nesting had no threshold oracle; only the self-containing walk would have hung): per-level frame oracle added (C10/limit-not-enforced/<shape>: every builtin walk must cost at least one frame per nesting level)"),
 "C11": ("R2-C11-call-thunk-left-in-progress-after-arity-error",
         "a lazily mapped container (std.map/mapWithKey/makeArray element) whose deferred call fails its argument check: the thunk stays InProgress, every later request on the same state reports infinite recursion",
         "predicted miss on reading the change: request alphabet extended with lazily mapped containers whose element call has a wrong arity"),
 "C12": ("R2-C12-string-output-ensures-newline-instead-of-appending",
         "-S with a string value that already ends in a newline: no final newline is appended, so -S and -S --no-trailing-newline print the same bytes",
         None),
 "C13": ("R2-C13-import-cache-keyed-by-lexical-absolute-path",
         "one file imported through spellings that differ by a `dir/..` detour or a symlink: loaded and evaluated once per spelling",
         None),
 "C14": ("R2-C14-crlf-empty-line-in-text-block-loses-cr",
         "a text block with CRLF line ends containing a fully empty line: the token value has \\n where the grammar says \\r\\n",
         None),
 "C15": ("R2-C15-slice-start-end-bare-second-colon-rejected",
         "`a[b:c:]` (start and end present, bare second colon): the printed tree does not re-parse",
         "predicted miss on reading the change: the first version printed slices in 3 layouts only; all 12 colon layouts are now enumerated for every slice tree"),
 "C16": ("R2-C16-text-block-termination-span-past-eof",
         "an unterminated text block whose offending line is empty because the file ends there: span [len, len+1], the span manager asserts",
         "predicted miss on reading the change: extra text-block error sources at end of file added (C16) and the C14 byte sweep reports the panic as well"),
 "C17": ("R2-C17-partition-drains-bottom-of-comparison-stack",
         "std.sort/std.set whose keys are arrays with lazily computed elements that themselves sort (forced for the first time during the 2nd or later comparison of an outer partition): wrong order, duplicates in sets",
         "predicted miss on reading the change: the first version had only literal keys; KeyKind::Nested (array keys whose elements are unforced inner sorts/sets) added to the short sweep, the long sweep and the set algebra"),
 "C18": ("R2-C18-join-drops-leading-empty-pieces",
         "std.join with a string separator where the first non-null pieces are empty (s starts with the separator): join(c, split(s, c)) != s",
         None),
 "C19": ("R2-C19-host-precision-limit-768-for-fixed-notation",
         "%f/%F with precision > 768 and |x| < ~1e-215: digits beyond the 768th fractional position print as 0",
         "predicted miss on reading the change: the first version checked large precisions for length only; deep precisions (25..2000) x tiny values are now compared digit for digit with C and Python"),
 "C20": ("R2-C20-json-minus-leading-zero-accepted",
         "std.parseJson on a number with `-0` followed by another digit (`-01`, `[-012]`): accepted",
         None),
}
def read_log(pid):
    results = {}
    for d in ("seedlogs3", "seedlogs4"):
        log = f"{ROOT}/target/{d}/{pid}.txt"
        cur = None
        if os.path.exists(log):
            for line in open(log, errors="replace"):
                m = re.match(r"== (C\d\d) exit (\d+)", line)
                if m:
                    cur = m.group(1); results[cur] = {"exit": int(m.group(2)), "signatures": []}
                m = re.match(r"\s+signature: (.*)", line)
                if m and cur:
                    sig = re.sub(r"/tmp/mut\.[A-Za-z0-9]+/repo/", "", m.group(1).strip())
                    results[cur]["signatures"].append(sig)
    return results
def main():
    rows = []
    for pid, (name, needs, strengthened) in sorted(NAMES.items()):
        src = f"{ROOT}/seeded2/tmp-{pid}"
        dst = f"{ROOT}/seeded/{name}"
        if os.path.isdir(src):
            if os.path.isdir(dst): shutil.rmtree(dst)
            shutil.move(src, dst)
        if not os.path.isdir(dst):
            continue
        results = read_log(pid)
        caught_by = [c for c, r in results.items() if r["exit"] == 1]
        meta = {
            "round": 2,
            "breaks_property": pid,
            "what_it_needs_to_manifest": needs,
            "written_by": "independent sub-agent given only the property text, a note on what the round-1 change for the same property was (to avoid repeating it) and a scratch worktree",
            "confirmed": "patch applies to /repo HEAD 8b41e21; the repository's own suite passes with it (sub-agent run, 754 tests incl. doc-tests); demonstration fails with the change and passes without it (sub-agent run)",
            "how_checked": "tools/run_mutant_isolated.sh seeded/%s/patch.diff %s  (scratch worktree of /repo with the patch + a copy of /verif pointed at it; quick tier; both removed afterwards)" % (name, " ".join(results) or pid),
            "results": results,
            "caught_by": caught_by,
        }
        if strengthened:
            meta["strengthened_in_response"] = strengthened
        json.dump(meta, open(f"{dst}/meta.json", "w"), indent=1)
        rows.append((pid, name, caught_by, results, strengthened))
    for pid, name, caught, res, st in rows:
        print(pid, name, ("CAUGHT by " + ",".join(caught)) if caught else "MISSED", {c: r["signatures"][:3] for c, r in res.items()})
    with open(f"{ROOT}/target/round2_table.md", "w") as f:
        f.write("| property | change (needs …) | reported by | strengthening |\n|---|---|---|---|\n")
        for pid, name, caught, res, st in rows:
            sigs = "; ".join("`%s`" % s for c in caught for s in res[c]["signatures"][:2])
            f.write("| %s | `%s` — %s | %s (%s) | %s |\n" % (pid, name, NAMES[pid][1].replace("|", "\\|"), ", ".join(caught) or "MISSED", sigs, (st or "caught by the check as it stood").replace("|", "\\|")))
if __name__ == "__main__":
    main()
