#!/usr/bin/env python3
"""Round 5: builds seeded/<name>/meta.json from the evaluation logs
(target/seedlogs5/<ID>.txt isolated runs, then seedlogs6, seedlogs7 in-place runs override)."""
import json, os, re, shutil
ROOT = "/verif"
NAMES = {
 "C01": ("R5-C01-computed-field-name-analysed-in-object-scope",
         "an ordinary object literal whose computed field name mentions a local of the same object, or self / $ / super when the literal is not nested in another object: accepted statically, the evaluator panics (`variable not found`, unwrap of None)", None),
 "C02": ("R5-C02-negative-string-slice-bounds-against-byte-length",
         "a string slice with a negative start or end on a string with a non-ASCII character (the mechanism of R3-C18, found again from the C02 side)", None),
 "C03": ("R5-C03-comprehension-field-environment-not-traced",
         "an object comprehension with at least one field: its iteration environments become false roots; bound to a local (a cycle through its own environment) the heap never returns to baseline", None),
 "C04": ("R5-C04-object-assertions-get-an-uncached-environment",
         "an object-level local used by an `assert` and by a field or a second assert, where the first accessed field is a literal constant or lives in another layer: the local is evaluated twice", None),
 "C05": ("R5-C05-yaml-all-hidden-object-emitted-as-nothing",
         "std.manifestYamlDoc/Stream of a value containing an object whose fields are all hidden: emitted as nothing, decodes to null", None),
 "C06": ("R5-C06-parsehex-scale-factor-unchecked-product",
         "std.parseHex with 257..287 significant digits (parseOctal 343..383): returns inf", None),
 "C07": ("R5-C07-extension-keeps-cached-values-of-plain-fields",
         "an object value read on its own (a self/super-dependent plain field forced) and then used as an operand of `+` whose other operand changes what that field depends on: the combined object keeps the operand's value", None),
 "C08": ("R5-C08-strings-ordered-by-utf16-code-unit",
         "an ordering comparison whose first differing position has a BMP character in U+E000..U+FFFF on one side and an astral character on the other", None),
 "C09": ("R5-C09-in-super-outside-an-object-accepted",
         "`e in super` where no object encloses it lexically: accepted; evaluated it yields false or panics depending on the interner", None),
 "C10": ("R5-C10-flattendeeparray-frame-released-before-the-descent",
         "std.flattenDeepArray on arrays nested deeper than the limit, or on an array that contains itself (re-creates the repaired defect F22 by moving one line)", None),
}
def read_log(pid):
    results = {}
    for d in ("seedlogs11", "seedlogs12", "seedlogs13"):
        log = f"{ROOT}/target/{d}/{pid}.txt"
        cur = None
        if os.path.exists(log):
            for line in open(log, errors="replace"):
                m = re.match(r"== (C\d\d) exit (\d+)", line)
                if m:
                    cur = m.group(1); results[cur] = {"exit": int(m.group(2)), "signatures": []}
                m = re.match(r"\s+signature: (.*)", line)
                if m and cur:
                    sig = re.sub(r"/tmp/mut\.[A-Za-z0-9]+/repo/", "", m.group(1).strip()).replace("/repo/", "")
                    results[cur]["signatures"].append(sig)
    return results
def main():
    rows = []
    for pid, (name, needs, strengthened) in sorted(NAMES.items()):
        src = f"{ROOT}/seeded5/tmp-{pid}"
        dst = f"{ROOT}/seeded/{name}"
        if os.path.isdir(src):
            if os.path.isdir(dst): shutil.rmtree(dst)
            shutil.move(src, dst)
        if not os.path.isdir(dst):
            continue
        results = read_log(pid)
        caught_by = [c for c, r in results.items() if r["exit"] == 1]
        meta = {
            "round": 5,
            "breaks_property": pid,
            "what_it_needs_to_manifest": needs,
            "written_by": "independent sub-agent given only the property text, a note on what the changes of rounds 1-4 for the same property were (to avoid repeating them) and a scratch worktree",
            "confirmed": "patch applies to /repo HEAD; the repository's own suite passes with it (sub-agent run, 754 tests incl. doc-tests); demonstration fails with the change and passes without it (sub-agent run)",
            "how_checked": "tools/run_mutant.sh seeded/%s/patch.diff %s  (applies the patch in /repo, runs the quick tier, restores /repo; the first C01..C07 runs used tools/run_mutant_isolated.sh)" % (name, " ".join(results) or pid),
            "results": results,
            "caught_by": caught_by,
        }
        if strengthened:
            meta["strengthened_in_response"] = strengthened
        json.dump(meta, open(f"{dst}/meta.json", "w"), indent=1)
        rows.append((pid, name, caught_by, results, strengthened))
    for pid, name, caught, res, st in rows:
        print(pid, name, ("CAUGHT by " + ",".join(caught)) if caught else "MISSED", {c: r["signatures"][:3] for c, r in res.items()})
    with open(f"{ROOT}/target/round5_table.md", "w") as f:
        f.write("| property | change (needs …) | reported by | strengthening |\n|---|---|---|---|\n")
        for pid, name, caught, res, st in rows:
            sigs = "; ".join("`%s`" % s for c in caught for s in res[c]["signatures"][:2])
            f.write("| %s | `%s` — %s | %s (%s) | %s |\n" % (pid, name, NAMES[pid][1].replace("|", "\\|"), ", ".join(caught) or "MISSED", sigs, (st or "caught by the check as it stood").replace("|", "\\|")))
if __name__ == "__main__":
    main()
