#!/usr/bin/env python3
"""Round 5: builds seeded/<name>/meta.json from the evaluation logs
(target/seedlogs5/<ID>.txt isolated runs, then seedlogs6, seedlogs7 in-place runs override)."""
import json, os, re, shutil
ROOT = "/verif"
NAMES = {
 "C01": ("R5-C01-computed-field-name-analysed-in-object-scope",
         "an ordinary object literal whose computed field name mentions a local of the same object, or self / $ / super when the literal is not nested in another object: accepted statically, the evaluator panics (`variable not found`, unwrap of None)", None),
 "C02": ("R5-C02-negative-string-slice-bounds-against-byte-length",
         "a string slice with a negative start or end on a string with a non-ASCII character (the mechanism of R3-C18, found again from the C02 side)",
         "C18 reports it (C18/slarr, C18/slr); C02 itself passes: its reference interpreter treats negative slice bounds as outside the model, so the slices profile compares non-negative bounds only (left as is: the clause is C18's)"),
 "C03": ("R5-C03-comprehension-field-environment-not-traced",
         "an object comprehension with at least one field: its iteration environments become false roots; bound to a local (a cycle through its own environment) the heap never returns to baseline", None),
 "C04": ("R5-C04-object-assertions-get-an-uncached-environment",
         "an object-level local used by an `assert` and by a field or a second assert, where the first accessed field is a literal constant or lives in another layer: the local is evaluated twice", None),
 "C05": ("R5-C05-yaml-all-hidden-object-emitted-as-nothing",
         "std.manifestYamlDoc/Stream of a value containing an object whose fields are all hidden: emitted as nothing, decodes to null", None),
 "C06": ("R5-C06-parsehex-scale-factor-unchecked-product",
         "std.parseHex with 257..287 significant digits (parseOctal 343..383): returns inf",
         "first version: C20 reported it (C20/parseHex/accepted-overflow), C06 itself passed (no producer fed long digit strings to the radix parsers). Added to C06's producers: parseInt / parseHex / parseOctal / parseJson on digit strings of every length around the overflow threshold of each radix (300..320, 250..300, 335..395 digits)"),
 "C07": ("R5-C07-extension-keeps-cached-values-of-plain-fields",
         "an object value read on its own (a self/super-dependent plain field forced) and then used as an operand of `+` whose other operand changes what that field depends on: the combined object keeps the operand's value", None),
 "C08": ("R5-C08-strings-ordered-by-utf16-code-unit",
         "an ordering comparison whose first differing position has a BMP character in U+E000..U+FFFF on one side and an astral character on the other", None),
 "C09": ("R5-C09-in-super-outside-an-object-accepted",
         "`e in super` where no object encloses it lexically: accepted; evaluated it yields false or panics depending on the interner", None),
 "C10": ("R5-C10-flattendeeparray-frame-released-before-the-descent",
         "std.flattenDeepArray on arrays nested deeper than the limit, or on an array that contains itself (re-creates the repaired defect F22 by moving one line)", None),
 "C11": ("R5-C11-removekey-result-inherits-the-checked-flag",
         "a shared object with an assertion that depends on a field, used by an earlier successful request, then std.objectRemoveKey of that field: the assertion is not re-run for the new object",
         "first version: MISSED by C11 and C07 (no request / no law removed a key from an object that had already been used). C11 gained a shared object with a field-dependent assertion and five requests that use it, remove or override the field; C07's used-operand law now also covers std.objectRemoveKey on an operand that was manifested before"),
 "C12": ("R5-C12-eval-call-deep-evaluates-the-function-not-the-result",
         "a program whose root is a function (called with TLAs / defaults) run with -y or -m, with an element or visible field that is not a constant: panic (exit 101)", None),
 "C13": ("R5-C13-import-resolution-cached-by-the-literal-string",
         "two importers in different directories using the same relative import string that resolves to different files for them: the second gets the first one's file (patch.diff rebased after fix 65f599f; the original is kept next to it)", None),
 "C14": ("R5-C14-effective-exponent-sum-overflows",
         "one number literal with a negative exponent within a few units of i64::MAX (or beyond u64) and at least two fractional digits: `attempt to add with overflow` (debug) / wrong value (release)",
         "first version: C06 reported it (its literal list has such exponents), C14 itself passed (number texts of at most 7 characters). C14 gained 540 number texts with exponents around and beyond 64 bits x integer / one-digit / many-digit fractions, and its model saturates astronomical exponents like the grammar's value does"),
 "C15": ("R5-C15-comprehension-locals-on-the-wrong-side-of-the-field",
         "an object comprehension with object locals before and after the field: the two lists are swapped in the tree, the printed tree does not re-parse to an equal one", None),
 "C16": ("R5-C16-crop-split-underflows-at-max-trace-0",
         "--max-trace 0 (or set_max_trace(0)) on any diagnostic with a non-empty trace: `0 - 1` underflows, panic", None),
 "C17": ("R5-C17-quicksort-partition-orders-minus-zero-before-zero",
         "number keys containing both 0 and -0 in one quick-sorted slice with a 0 earlier than a -0: not stable; std.set keeps the wrong representative",
         "first version: MISSED (no two keys were equal without being identical). New key kind: the smallest number key is written 0 at even and -0 at odd positions, through all sweeps; the set algebra writes it -0 on the left and 0 on the right"),
 "C18": ("R5-C18-splitlimitr-takes-the-left-split-when-the-limit-covers-all",
         "std.splitLimitR with a separator that overlaps itself, overlapping occurrences in the subject and a limit >= the number of matches", None),
 "C19": ("R5-C19-hex-prefix-not-counted-in-the-zero-padding",
         "%x / %X with the # flag, the 0 flag and a width larger than sign + digits: two characters too wide", None),
 "C20": ("R5-C20-last-high-surrogate-does-not-start-a-pair",
         "std.parseJson of a string with an escaped surrogate pair whose high unit is exactly \\uDBFF: rejected",
         "first version: MISSED (one surrogate pair in the token alphabet). Added every sequence of <= 3 \\u escapes over 18 units at the borders of the surrogate ranges (d7ff d800 d801 dafe db7f db80 dbfe dbff dc00 dc01 dffe dfff e000 ...), as string, key and array element"),
}
def read_log(pid):
    results = {}
    for d in ("seedlogs11", "seedlogs12", "seedlogs13"):
        log = f"{ROOT}/target/{d}/{pid}.txt"
        cur = None
        if os.path.exists(log):
            for line in open(log, errors="replace"):
                m = re.match(r"== (C\d\d) exit (\d+)", line)
                if m:
                    cur = m.group(1); results[cur] = {"exit": int(m.group(2)), "signatures": []}
                m = re.match(r"\s+signature: (.*)", line)
                if m and cur:
                    sig = re.sub(r"/tmp/mut\.[A-Za-z0-9]+/repo/", "", m.group(1).strip()).replace("/repo/", "")
                    results[cur]["signatures"].append(sig)
    return results
def main():
    rows = []
    for pid, (name, needs, strengthened) in sorted(NAMES.items()):
        src = f"{ROOT}/seeded5/tmp-{pid}"
        dst = f"{ROOT}/seeded/{name}"
        if os.path.isdir(src):
            if os.path.isdir(dst): shutil.rmtree(dst)
            shutil.move(src, dst)
        if not os.path.isdir(dst):
            continue
        results = read_log(pid)
        caught_by = [c for c, r in results.items() if r["exit"] == 1]
        meta = {
            "round": 5,
            "breaks_property": pid,
            "what_it_needs_to_manifest": needs,
            "written_by": "independent sub-agent given only the property text, a note on what the changes of rounds 1-4 for the same property were (to avoid repeating them) and a scratch worktree",
            "confirmed": "patch applies to /repo HEAD; the repository's own suite passes with it (sub-agent run, 754 tests incl. doc-tests); demonstration fails with the change and passes without it (sub-agent run)",
            "how_checked": "tools/run_mutant.sh seeded/%s/patch.diff %s  (applies the patch in /repo, runs the quick tier, restores /repo; the first C01..C07 runs used tools/run_mutant_isolated.sh)" % (name, " ".join(results) or pid),
            "results": results,
            "caught_by": caught_by,
        }
        if strengthened:
            meta["strengthened_in_response"] = strengthened
        json.dump(meta, open(f"{dst}/meta.json", "w"), indent=1)
        rows.append((pid, name, caught_by, results, strengthened))
    for pid, name, caught, res, st in rows:
        print(pid, name, ("CAUGHT by " + ",".join(caught)) if caught else "MISSED", {c: r["signatures"][:3] for c, r in res.items()})
    with open(f"{ROOT}/target/round5_table.md", "w") as f:
        f.write("| property | change (needs …) | reported by | strengthening |\n|---|---|---|---|\n")
        for pid, name, caught, res, st in rows:
            sigs = "; ".join("`%s`" % s for c in caught for s in res[c]["signatures"][:2])
            f.write("| %s | `%s` — %s | %s (%s) | %s |\n" % (pid, name, NAMES[pid][1].replace("|", "\\|"), ", ".join(caught) or "MISSED", sigs, (st or "caught by the check as it stood").replace("|", "\\|")))
if __name__ == "__main__":
    main()
