#!/usr/bin/env python3
"""Builds seeded/<name>/meta.json from the evaluation logs (target/seedlogs2/<ID>.txt)."""
import json, os, re, shutil, sys
ROOT = "/verif"
NAMES = {
 "C01": ("C01-format-precision-on-s-pops-missing-operand", "`%s`/`%c`/`%%` with a precision and an array operand (\"%.3s\" % [\"abc\"]): pops a value that was never pushed -> panic / wrong operand"),
 "C02": ("C02-asserts-checked-carried-over-extension", "an object whose self-dependent assertion already ran is extended by another already-used object: the assertions are not re-run for the combined object"),
 "C03": ("C03-fieldplus-thunk-env-not-traced", "a `+:` field thunk that is created but never forced (failed evaluation, mapWithKey) keeps its environment alive: cyclic garbage is never reclaimed"),
 "C04": ("C04-computed-field-gets-private-object-env", "object literal with an object-level local used by a computed-name field and by another member: the local is evaluated once per user"),
 "C05": ("C05-u001f-not-escaped", "a string or key containing exactly U+001F is emitted raw (exclusive range end)"),
 "C06": ("C06-non-finite-literal-constant-fast-path", "a literal that rounds to infinity (1e400) standing alone as a local initialiser, array element, field value or argument becomes the value inf"),
 "C07": ("C07-removal-marker-hides-all-lower-layers", "chain of >=3 operands with a non-left-most std.objectRemoveKey result, the key re-defined to its right and hidden to its left: observers disagree on visibility"),
 "C08": ("C08-object-equality-matches-hidden-fields", "two objects with equally many visible fields where every left name exists hidden on the right with an equal value: == is true for different JSON values"),
 "C09": ("C09-objcomp-field-name-analysed-in-object-scope", "scoping fault (object local, self, $, super) in the field-name expression of an object comprehension is accepted statically"),
 "C10": ("C10-tailstrict-in-if-condition-treated-as-tail-call", "a `tailstrict` call in the condition of a tail-position `if` costs no frame: recursion through it is never stopped by the limit"),
 "C11": ("C11-inherited-assert-failure-leaves-checked-flag", "object with an inherited assertion and none in its own layer: a request failing inside the assertion leaves asserts_checked set, later requests on the same state succeed"),
 "C12": ("C12-no-flush-after-write", "--no-trailing-newline output whose last line stays in the stdout buffer plus a write fault (/dev/full): exit 0 with the output lost"),
 "C13": ("C13-directory-skipped-in-import-search", "a directory named like the import in a higher-priority location and a file of that name in a lower one: the directory is skipped instead of being an error"),
 "C14": ("C14-overlong-four-byte-utf8-accepted", "bytes F0 80..8F xx xx inside a string/text block are decoded as one character instead of being replaced"),
 "C15": ("C15-in-super-ends-the-comparison-level", "`x in super` immediately followed by another operator of the same level (`<`, `in`, ...) is a syntax error although the parenthesised form parses"),
 "C16": ("C16-span-inline-decision-uses-file-relative-start", "a span in a context that starts beyond 2^38 bytes of earlier contexts is encoded inline and decodes to another file"),
 "C17": ("C17-merge-takes-right-run-on-equal-keys", "std.sort on >30 elements with a projecting keyF and equal keys in different merge halves is not stable"),
 "C18": ("C18-mapping-format-width-counts-bytes", "`%(key)Ns` with an object argument and non-ASCII text: the width is measured in bytes"),
 "C19": ("C19-mapping-format-width-counts-bytes", "`%(key)Ns` / `%(key)Nc` with an object argument, explicit width and a multi-byte character: field shorter than its width"),
 "C20": ("C20-leading-zeros-consume-128-bit-budget", "parseHex/parseOctal of a string longer than 32/42 digits with many leading zeros gives a wrong value or an overflow error"),
}
def main():
    table = []
    for pid, (name, needs) in sorted(NAMES.items()):
        src = f"{ROOT}/seeded/tmp-{pid}"
        dst = f"{ROOT}/seeded/{name}"
        if os.path.isdir(src):
            if os.path.isdir(dst): shutil.rmtree(dst)
            shutil.move(src, dst)
        if not os.path.isdir(dst):
            continue
        log = f"{ROOT}/target/seedlogs2/{pid}.txt"
        results = {}
        cur = None
        if os.path.exists(log):
            for line in open(log, errors="replace"):
                m = re.match(r"== (C\d\d) exit (\d+)", line)
                if m:
                    cur = m.group(1); results[cur] = {"exit": int(m.group(2)), "signatures": []}
                m = re.match(r"\s+signature: (.*)", line)
                if m and cur: results[cur]["signatures"].append(m.group(1).strip())
        caught_by = [c for c, r in results.items() if r["exit"] == 1]
        meta = {
            "breaks_property": pid,
            "what_it_needs_to_manifest": needs,
            "written_by": "independent sub-agent given only the property text and a scratch worktree",
            "confirmed": "patch applies to /repo HEAD; the repository's own suite passes with it (sub-agent run, 754 tests incl. doc-tests); demonstration fails with the change and passes without it (sub-agent run)",
            "how_checked": "tools/run_mutant.sh seeded/%s/patch.diff %s  (applies the patch in /repo, runs the quick tier, restores /repo)" % (name, " ".join(results) or pid),
            "results": results,
            "caught_by": caught_by,
        }
        json.dump(meta, open(f"{dst}/meta.json", "w"), indent=1)
        table.append((pid, name, caught_by, results))
    for pid, name, caught, res in table:
        print(pid, name, "CAUGHT by " + ",".join(caught) if caught else "MISSED", {c: r["signatures"][:2] for c, r in res.items()})
main()
