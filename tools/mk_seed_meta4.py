#!/usr/bin/env python3
"""Round 4: builds seeded/<name>/meta.json from the evaluation logs
(target/seedlogs5/<ID>.txt isolated runs, then seedlogs6, seedlogs7 in-place runs override)."""
import json, os, re, shutil
ROOT = "/verif"
NAMES = {
 "C01": ("R4-C01-second-removal-marker-keeps-wrong-layer",
         "two std.objectRemoveKey results for the same key combined with `+` (the left one's bottom layer defining the key) and then manifested, converted or compared: the field is listed but not findable, `.unwrap()` panics",
         "first version: C07 reported the panic (C07/panic), C01 itself passed (no program of its corpora combines two removal results). C07's pool of object expressions now runs through C01 as well: every ordered pair combined, manifested, compared and converted"),
 "C02": ("R4-C02-later-for-does-not-shadow-earlier-loop-variable",
         "one comprehension with >= 2 `for` clauses where a later clause re-binds the variable of an earlier one", None),
 "C03": ("R4-C03-object-environment-traces-self-twice-and-dollar-never",
         "an object literal nested in another object literal, with an environment created and held only from outside the heap while a collection runs: reclaimed while reachable; nested objects are retained after their results are dropped", None),
 "C04": ("R4-C04-overflowing-literal-stored-as-constant",
         "a literal that overflows a double (1e400) standing alone in a delayed position (local, argument, default, element, field) and consumed by something that does not re-check finiteness: the rewrites of C04 change an error into a value (the mechanism of R1-C06, found again from the C04 side)",
         "first version: C06 reported it (C06/literal/accepted-overflow), C04 itself passed (no corpus literal overflows). 20 programs whose failing part is not an `error` expression (overflowing literal, division by zero, index out of range, missing field, type error, unknown ext var) now get C04's full per-node treatment"),
 "C05": ("R4-C05-yaml-array-item-inherits-parent-is-object",
         "indent_array_in_object=false (the default), an array that is the value of an object field, and a non-empty array as a direct element of it: the inner dashes move to the outer column, the document decodes to a different value", None),
 "C06": ("R4-C06-fast-path-for-16-digit-literals",
         "a literal with exactly 16 digits whose integer reading is above 2^53 and a non-zero exponent within +-22: rounded twice, one ulp off", None),
 "C07": ("R4-C07-removekey-ignores-hidden-fields",
         "std.objectRemoveKey naming a field that is hidden at the moment of the call: nothing is removed (patch.diff rebased after fix bc82164 touched the same lines; the agent's original is kept next to it)", None),
 "C08": ("R4-C08-object-equality-compares-visibility-tags",
         "`==` on two objects with the same visible fields where a shared field is `:` on one side and `:::` on the other", None),
 "C09": ("R4-C09-comprehension-field-env-from-lookup-start-layer",
         "an object comprehension with an object local used by the field body, extended on its right, the field forced through the extended object: panic `variable not found` (the mechanism of R2-C02 / R3-C07, found a third time, here through object locals)", None),
 "C10": ("R4-C10-toml-inline-table-value-outside-its-frame",
         "std.manifestToml(Ex) of an object in inline context (inside an array that is not all objects) whose nesting or cycle goes object -> field -> object: no frame per level, a self-containing one loops forever",
         "first version: MISSED (TOML shapes nested sub-tables and inline arrays, never inline tables). Added: inline-table nesting shape under the per-level frame oracle, and inline-table / array-of-tables / in-array / in-object variants of the self-containing walk for TOML, YAML, JSON and Python"),
 "C11": ("R4-C11-eval-value-returns-memoised-weak-head-value",
         "eval_value on a thunk that is already Done without a completed deep walk (an earlier eval_value failed below the root, or it was forced only at the top through an import / ext var): returns Ok, the failure moves to manifestation",
         "first version: MISSED (a request was evaluation + manifestation with one outcome string, so a failure that moved from one phase to the other looked the same). The phase is now part of the answer"),
 "C12": ("R4-C12-output-file-not-truncated",
         "-o FILE where FILE already exists with longer content: the new output is followed by the stale tail, exit 0",
         "predicted miss on reading the change (every run started from an empty scratch directory): every other configuration now finds its -o file and its -m files already present with longer stale content; on failure the stale content must still be there untouched"),
 "C13": ("R4-C13-absolute-import-needs-a-base-directory",
         "an absolute import path from an importer that is not a file (-e, stdin, --ext-code, --tla-code) with no -J at all: not found",
         "first version: MISSED (every importer was a file). Added the fileless importers: 4 forms x absolute / relative / missing paths x 5 -J lists x import/importstr, against the model (no importer directory: relative paths resolve through -J only, absolute ones always)"),
 "C14": ("R4-C14-span-length-limit-one-bit-too-wide",
         "one token, error span or expression span of 2^25 .. 2^26-1 bytes that is later decoded: read back as a side-table index, panic",
         "first version: C16 reported it (span round-trip around 2^25), C14 itself passed (its inputs are short). C14 now lexes single tokens of 2^25-1, 2^25, 2^25+1 (thorough: up to 2^26+1) bytes - string, verbatim string, comment, whitespace, unterminated comment - and checks tiling and token text"),
 "C15": ("R4-C15-sign-operator-takes-a-product-as-operand",
         "a unary + or - whose operand is followed by * / %: parsed as -(a * b)", None),
 "C16": ("R4-C16-span-of-exactly-2-to-25-bytes-encoded-inline",
         "a span of exactly 33 554 432 bytes that is later decoded", None),
 "C17": ("R4-C17-set-queues-key-calls-without-delaying-their-frames",
         "std.set(arr, keyF) where call depth + len(arr) exceeds the frame limit (499 elements at top level): stack overflow where std.uniq(std.sort(..)) succeeds", None),
 "C18": ("R4-C18-findsubstr-skips-overlaps-of-long-borders",
         "std.findSubstr with a pattern of >= 4 code points that overlaps itself through a border of length >= 2 (abab in ababab): overlapping matches are dropped",
         "first version: MISSED (patterns had at most 2 characters, plus aa and aba). Added every subject of length <= 8 over {a, b} x every pattern of length <= 5 over {a, b} (all border structures), and the same over {é, 😀}, through findSubstr / split / splitLimit(R) / strReplace / join-of-split"),
 "C19": ("R4-C19-percent-c-accepts-the-empty-string",
         "%c (array, single-value or (key) form) with an empty-string argument: accepted",
         "first version: MISSED (the %c values were one character or a code point). %c with empty, two-character, array, null, out-of-range and surrogate arguments added (C and Python reject all of them)"),
 "C20": ("R4-C20-base64-padding-group-ignores-fourth-character",
         "base64Decode(Bytes) of a string whose last group is `xx=y` with y != '=': decoded as if it were `xx==`", None),
}
def read_log(pid):
    results = {}
    for d in ("seedlogs8", "seedlogs9", "seedlogs10"):
        log = f"{ROOT}/target/{d}/{pid}.txt"
        cur = None
        if os.path.exists(log):
            for line in open(log, errors="replace"):
                m = re.match(r"== (C\d\d) exit (\d+)", line)
                if m:
                    cur = m.group(1); results[cur] = {"exit": int(m.group(2)), "signatures": []}
                m = re.match(r"\s+signature: (.*)", line)
                if m and cur:
                    sig = re.sub(r"/tmp/mut\.[A-Za-z0-9]+/repo/", "", m.group(1).strip()).replace("/repo/", "")
                    results[cur]["signatures"].append(sig)
    return results
def main():
    rows = []
    for pid, (name, needs, strengthened) in sorted(NAMES.items()):
        src = f"{ROOT}/seeded4/tmp-{pid}"
        dst = f"{ROOT}/seeded/{name}"
        if os.path.isdir(src):
            if os.path.isdir(dst): shutil.rmtree(dst)
            shutil.move(src, dst)
        if not os.path.isdir(dst):
            continue
        results = read_log(pid)
        caught_by = [c for c, r in results.items() if r["exit"] == 1]
        meta = {
            "round": 4,
            "breaks_property": pid,
            "what_it_needs_to_manifest": needs,
            "written_by": "independent sub-agent given only the property text, a note on what the changes of rounds 1-3 for the same property were (to avoid repeating them) and a scratch worktree",
            "confirmed": "patch applies to /repo HEAD; the repository's own suite passes with it (sub-agent run, 754 tests incl. doc-tests); demonstration fails with the change and passes without it (sub-agent run)",
            "how_checked": "tools/run_mutant.sh seeded/%s/patch.diff %s  (applies the patch in /repo, runs the quick tier, restores /repo; the first C01..C07 runs used tools/run_mutant_isolated.sh)" % (name, " ".join(results) or pid),
            "results": results,
            "caught_by": caught_by,
        }
        if strengthened:
            meta["strengthened_in_response"] = strengthened
        json.dump(meta, open(f"{dst}/meta.json", "w"), indent=1)
        rows.append((pid, name, caught_by, results, strengthened))
    for pid, name, caught, res, st in rows:
        print(pid, name, ("CAUGHT by " + ",".join(caught)) if caught else "MISSED", {c: r["signatures"][:3] for c, r in res.items()})
    with open(f"{ROOT}/target/round4_table.md", "w") as f:
        f.write("| property | change (needs …) | reported by | strengthening |\n|---|---|---|---|\n")
        for pid, name, caught, res, st in rows:
            sigs = "; ".join("`%s`" % s for c in caught for s in res[c]["signatures"][:2])
            f.write("| %s | `%s` — %s | %s (%s) | %s |\n" % (pid, name, NAMES[pid][1].replace("|", "\\|"), ", ".join(caught) or "MISSED", sigs, (st or "caught by the check as it stood").replace("|", "\\|")))
if __name__ == "__main__":
    main()
