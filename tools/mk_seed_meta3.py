#!/usr/bin/env python3
"""Round 3: builds seeded/<name>/meta.json from the evaluation logs
(target/seedlogs5/<ID>.txt isolated runs, then seedlogs6, seedlogs7 in-place runs override)."""
import json, os, re, shutil
ROOT = "/verif"
NAMES = {
 "C01": ("R3-C01-utf8-f4-second-byte-range-widened",
         "the bytes F4 90..BF xx xx at a token start or inside a string, verbatim string or text block: decoded to a code point >= 0x110000, char::from_u32(..).unwrap() panics",
         "first version: C14 (quick) saw a wrong value on the 3-byte prefix F4 90 80, but C01 passed: its byte alphabet has neither F4 nor 90 and invalid sequences of 4 bytes were thorough-only. The lexer corpora of C14 now run through C01's whole pipeline, and structured 2/3/4-byte forms (every class of lead byte x border values of every continuation position, in 6 contexts) were added to both"),
 "C02": ("R3-C02-in-super-always-starts-at-layer-1",
         "`e in super` in an object that is extended on its right, asking for a field that exists in that layer or between it and the right-most one but not to its left: true instead of false",
         None),
 "C03": ("R3-C03-visits-reset-at-marking-not-at-sweep",
         "a collection with a view-held object V reaching X and a later, view-less, live referrer U of X: X keeps a stale visit count; after a second collection with X held only by weak handles X is reclaimed while held",
         None),
 "C04": ("R3-C04-fold-init-forced-before-first-step",
         "std.foldl/std.foldr on a non-empty array with a function that ignores its accumulator in the first step and an init that fails or traces",
         "first version: MISSED (no seed passed a dead argument through foldl/foldr). 29 templates for builtins that pass an argument or element through without looking at it were added (fold init and elements, filter, flatMap, filterMap, flattenArrays, objectRemoveKey, removeAt, sort/uniq/set of one element, makeArray, map, mapWithKey, mapWithIndex, set operations, comprehensions ...), each checked on the clean tree first"),
 "C05": ("R3-C05-toml-table-header-ancestors-not-escaped",
         "manifestToml(Ex) of an object-valued field nested at depth >= 2 below a key that is not bare-safe (space, quote, dot, empty, non-ASCII): the `[a.b.c]` header repeats the ancestor key raw",
         "predicted miss on reading the change (special keys were enumerated at the top level and one level down only): key-placement trees added (18 special keys at every level of nested tables, arrays of tables and mixed siblings, 252 trees through every emitter)"),
 "C06": ("R3-C06-sum-last-addition-unchecked",
         "std.sum whose running total leaves the finite range exactly on the last addition", None),
 "C07": ("R3-C07-comprehension-field-env-built-with-lookup-start-layer",
         "an object-comprehension operand whose field uses super / `+:` / in super and which is not the layer where the lookup starts (same mechanism as R2-C02, found independently)", None),
 "C08": ("R3-C08-nonempty-versus-empty-array-orders-less",
         "an ordering comparison that reaches (non-empty array, empty array) at the top level or at the deciding nested position", None),
 "C09": ("R3-C09-objcomp-locals-analysed-before-later-locals-are-in-scope",
         "an object comprehension with >= 2 object locals where an earlier local's body refers to a later one: rejected as unknown identifier",
         "first version: MISSED (the corpus and the look-alikes had forward references only among parameter defaults). Forward/mutual references were added for every binder group (local, local functions, object locals across and next to fields, method defaults seeing later object locals, object-comprehension locals across the field / adjacent / mutually recursive functions, later `for` seeing earlier variables) as must-accept look-alikes injected at every node, and as seeds of the edit sweeps"),
 "C10": ("R3-C10-plus-colon-super-part-costs-no-frame",
         "an object with >= limit stacked layers that all define the same field with `+:`, the field being read: evaluates instead of overflowing", None),
 "C11": ("R3-C11-extension-clones-field-order-cache-of-left-operand",
         "a shared object L whose fields were enumerated by an earlier request, later `L + R` with a multi-layer R whose top layer has no fields, then enumerated: R's fields are missing",
         "first version: MISSED (no request extended a shared object after another request had enumerated it). Two shared ext vars (`base`, `mixin`) and 8 requests that enumerate / extend them in both orders were added"),
 "C12": ("R3-C12-multi-mode-drops-force-visible-fields",
         "-m with a top-level field whose resolved visibility is `:::`: no file written and no path listed for it, exit 0",
         "first version: MISSED (every program had `:` and `::` fields only). Three programs were added: every way a field ends up visible or hidden through three layers (`:::` over `::`, `:` over `:::`, `::` over `:`, computed `:::` names), as numbers and as strings, and inherited/computed/builtin-built fields"),
 "C13": ("R3-C13-repeated-jpath-takes-leftmost-priority",
         "the same directory in >= 2 -J options with another directory between them (-J a -J b -J a) and the file in both",
         "first version: MISSED (only lists of distinct directories). Every -J list of length <= 3 with a repetition, and the two-directory lists of length 4, were added (plain spelling, import)"),
 "C14": ("R3-C14-underscore-before-dot-or-exponent-accepted",
         "a number literal with `_` directly before `.` or `e`/`E` (this re-creates the repaired defect F17)", None),
 "C15": ("R3-C15-tailstrict-flag-leaks-to-later-calls-of-the-chain",
         "`f(x) tailstrict (y)`: a postfix chain with a tailstrict call followed by an unmarked call parses with both marked", None),
 "C16": ("R3-C16-labels-sorted-header-names-the-earliest-span",
         "a diagnostic with two labels in one file where the secondary label comes first in the source (repeated local / parameter / field name): the header names the `-` label's position",
         "first version: MISSED (for two-label errors the header only had to name *a* span of the error: an earlier false alarm had been corrected too generously). New oracle inside the rendering: the `-->` header must name line and column of the `^` annotation"),
 "C17": ("R3-C17-empty-array-compare-operands-swapped",
         "std.sort/set/setUnion/.../minArray with array keys of which at least one is empty and one is not",
         "predicted miss on reading the change (array keys were [1], [1,0], [2]): the array key pool is now [], [1], [1,0] and the set algebra has an array universe with []"),
 "C18": ("R3-C18-negative-slice-bounds-resolved-against-byte-length",
         "a string slice with a negative start or end on a string with a non-ASCII character",
         "first version: MISSED (slice bounds were 0..9 only). Negative starts and ends (-9..-1, both forms, std.slice with nulls) were added with a code-point model, plus the differential law s[a:b:c] == join of stringChars(s)[a:b:c]"),
 "C19": ("R3-C19-zero-flag-not-overridden-by-minus",
         "a numeric directive with both `-` and `0` and a width larger than the rendered number", None),
 "C20": ("R3-C20-parseyaml-uppercase-exponent-after-fraction",
         "std.parseYaml on a number with a fractional part followed directly by `E` (1.5E3): a string instead of the number parseJson gives",
         "predicted miss on reading the change (the JSON token alphabet had 1.5e1 and 1E-2 only): the number grammar is now swept exhaustively - every text of length <= 5 (7 thorough) over `- 0 1 9 . e E +`, alone, as an array element and as an object member, through parseJson (against the RFC 8259 model) and parseYaml (agreement)"),
}
def read_log(pid):
    results = {}
    for d in ("seedlogs5", "seedlogs6", "seedlogs7"):
        log = f"{ROOT}/target/{d}/{pid}.txt"
        cur = None
        if os.path.exists(log):
            for line in open(log, errors="replace"):
                m = re.match(r"== (C\d\d) exit (\d+)", line)
                if m:
                    cur = m.group(1); results[cur] = {"exit": int(m.group(2)), "signatures": []}
                m = re.match(r"\s+signature: (.*)", line)
                if m and cur:
                    sig = re.sub(r"/tmp/mut\.[A-Za-z0-9]+/repo/", "", m.group(1).strip()).replace("/repo/", "")
                    results[cur]["signatures"].append(sig)
    return results
def main():
    rows = []
    for pid, (name, needs, strengthened) in sorted(NAMES.items()):
        src = f"{ROOT}/seeded3/tmp-{pid}"
        dst = f"{ROOT}/seeded/{name}"
        if os.path.isdir(src):
            if os.path.isdir(dst): shutil.rmtree(dst)
            shutil.move(src, dst)
        if not os.path.isdir(dst):
            continue
        results = read_log(pid)
        caught_by = [c for c, r in results.items() if r["exit"] == 1]
        meta = {
            "round": 3,
            "breaks_property": pid,
            "what_it_needs_to_manifest": needs,
            "written_by": "independent sub-agent given only the property text, a note on what the round-1 and round-2 changes for the same property were (to avoid repeating them) and a scratch worktree",
            "confirmed": "patch applies to /repo HEAD; the repository's own suite passes with it (sub-agent run, 754 tests incl. doc-tests); demonstration fails with the change and passes without it (sub-agent run)",
            "how_checked": "tools/run_mutant.sh seeded/%s/patch.diff %s  (applies the patch in /repo, runs the quick tier, restores /repo; the first C01..C07 runs used tools/run_mutant_isolated.sh)" % (name, " ".join(results) or pid),
            "results": results,
            "caught_by": caught_by,
        }
        if strengthened:
            meta["strengthened_in_response"] = strengthened
        json.dump(meta, open(f"{dst}/meta.json", "w"), indent=1)
        rows.append((pid, name, caught_by, results, strengthened))
    for pid, name, caught, res, st in rows:
        print(pid, name, ("CAUGHT by " + ",".join(caught)) if caught else "MISSED", {c: r["signatures"][:3] for c, r in res.items()})
    with open(f"{ROOT}/target/round3_table.md", "w") as f:
        f.write("| property | change (needs …) | reported by | strengthening |\n|---|---|---|---|\n")
        for pid, name, caught, res, st in rows:
            sigs = "; ".join("`%s`" % s for c in caught for s in res[c]["signatures"][:2])
            f.write("| %s | `%s` — %s | %s (%s) | %s |\n" % (pid, name, NAMES[pid][1].replace("|", "\\|"), ", ".join(caught) or "MISSED", sigs, (st or "caught by the check as it stood").replace("|", "\\|")))
if __name__ == "__main__":
    main()
