#!/bin/bash
# usage: tools/run_mutant_isolated.sh <patch.diff> <check id> [...]
# Evaluates a patch WITHOUT touching /repo: a scratch git worktree of /repo gets the patch, a
# scratch copy of /verif (sources only) is pointed at it, the checks run there (quick tier),
# everything is removed afterwards. Used while long background runs use /repo itself.
set -u
PATCH="$(readlink -f "$1")"; shift
SRC="$(cd "$(dirname "$0")/.." && pwd)"
W=$(mktemp -d /tmp/mut.XXXXXX)
trap 'git -C /repo worktree remove --force "$W/repo" >/dev/null 2>&1; rm -rf "$W"' EXIT
git -C /repo worktree add -q --detach "$W/repo" HEAD || exit 3
if ! git -C "$W/repo" apply "$PATCH"; then echo "patch does not apply"; exit 3; fi
mkdir -p "$W/verif"
rsync -a --exclude target --exclude .git --exclude replays --exclude evidence "$SRC/" "$W/verif/"
sed -i "s|/repo/|$W/repo/|g" "$W/verif/mc/Cargo.toml"
cp "$W/repo/Cargo.lock" "$W/verif/mc/Cargo.lock"
for id in "$@"; do
  out=$(cd "$W/verif" && REPO="$W/repo" ./check "$id" "${TIER:-quick}" 2>&1); code=$?
  echo "== $id exit $code"
  echo "$out" | grep -E "^VIOLATION|^  signature|^  what|ENGINE-ERROR|^$id " | cut -c1-400
done
