#!/usr/bin/env python3
"""Regenerates /verif/MANIFEST.json from the table below (keeps it schema-valid)."""
import json, subprocess
ALL = ["C%02d" % i for i in range(1, 21)]
# id -> (category, technique, level text, level note, design ref)
CHECKS = {
 "C02": ("model_checking",
         "bounded exhaustive enumeration of programs against a reference interpreter (model), every model run replayed on the implementation",
         "Every closed program up to the node bound over the stated production alphabets is evaluated by a reference interpreter written from the specification and by the implementation, in two concrete syntaxes; outcomes must agree. Exhaustive within the bound, which is where feature-interaction bugs of the evaluator live.",
         "Trusted: refeval.rs as the specification's semantics on the modelled subset; programs beyond the node bound or outside the alphabet are not covered.",
         "DESIGN.md §4 C02"),
 "C03": ("model_checking",
         "explicit-state exploration of the real collector (all heap shapes and operation sequences within bounds) against a reachability model; exhaustive placement of collections between evaluator steps",
         "The real collector is driven through hook H1 over every heap shape (<=4 nodes) and every operation sequence (27 operations, depth 8/10) and compared with a reachability model after every transition; collections are placed after every evaluator step / at every single step / at every pair of steps of every corpus program (hook H2) and outcomes, traces and step counts must equal the collection-free run; after dropping results one collection must return to the exact baseline object count.",
         "Trusted: the test node type of hook H1 and the schedule hook H2 add no logic to the collector; heaps above the node bound are covered only through evaluator runs.",
         "DESIGN.md §4 C03"),
 "C09": ("model_checking",
         "exhaustive single-fault injection at every node of every corpus program; the specification's static rules (model) against load_source",
         "For every corpus program and every node position each of 24 fault / look-alike expressions is substituted; the static checker written from the specification predicts accept/reject and the admissible error kinds, the implementation must agree in both directions; accepted programs are evaluated and must not panic on an unbound name.",
         "Trusted: syntax::static_check as the specification's static semantics; programs above the node bound are not covered.",
         "DESIGN.md §4 C09"),
 "C14": ("model_checking",
         "exhaustive enumeration of byte strings and literal forms against a reference lexer (model); tiling and trivia-filter invariants on every input",
         "Every byte string up to length 4/5 over a 54-symbol alphabet, every operator cluster, every short number text, every Unicode scalar value in every literal form, every \\uXXXX, all invalid UTF-8 sequences over 19 border bytes and all small text blocks are lexed by a reference lexer written from the grammar and by the implementation; kinds, values and spans must agree, spans must tile the input, and lex_to_eof(false) must equal lex_to_eof(true) minus trivia.",
         "Trusted: ref_lex as the lexical grammar; only rejection (not the error kind) is compared for invalid inputs.",
         "DESIGN.md §4 C14"),
 "C15": ("model_checking",
         "exhaustive enumeration of syntax trees printed by a precedence-table printer (model) and re-parsed; exhaustive token sequences for error location",
         "All operator trees with <=3 binary operators over the 19 operators (with unary/postfix decorations), every syntactic form in every context and every corpus tree up to the node bound are printed with minimal, full and noisy syntax and parsed by the implementation: trees must be equal modulo parentheses and every node span must equal the byte range of its first..last token as recorded by the printer; for every token sequence up to the bound a syntax error must carry the span of a token of the input and describe that token.",
         "Trusted: the printer's precedence table/associativity are the specification's.",
         "DESIGN.md §4 C15"),
 "C16": ("model_checking",
         "exhaustive enumeration of span-manager layouts; every failing case of the bounded corpora rendered through the real report code; every max_trace value per trace length",
         "Span ids: all sequences of <=3 contexts over boundary lengths x boundary spans round-trip. Diagnostics: every failing program/token sequence/byte string of the bounded corpora and a grid of error kinds x position classes is checked for spans inside the source and rendered through Session (hook H3) plain and coloured; locations must equal span starts, trace items must be complete, and --max-trace cropping is checked for every value 0..T+1.",
         "Trusted: hook H3 captures what would be printed; columns compared exactly only on printable-ASCII line prefixes.",
         "DESIGN.md §4 C16"),
 "C07": ("model_checking",
         "exhaustive enumeration of ordered triples of an object pool in both bracketings against each other, against a reference interpreter (model) and against the observer-consistency invariants",
         "Every ordered triple of the object pool is evaluated as (A+B)+C and A+(B+C) and compared on an observation vector (objectFields(All), length, in, objectHas(All), manifestation, each field value incl. hidden ones); {} is checked as left and right identity; all observers must agree on which fields exist; for literal members the reference interpreter predicts the vector (late binding of self, super = layers to the left, visibility table); std.objectRemoveKey laws are checked for every member x key, also after extension on either side.",
         "Trusted: refeval.rs for the prediction; objects outside the pool are not covered; equivalent bracketings that both fail are compared as failing (messages only when both carry one).",
         "DESIGN.md §4 C07"),
 "C08": ("model_checking",
         "exhaustive enumeration of all ordered pairs (and, on the result tables, all ordered triples) of a value pool under every comparison form against a model on JSON trees",
         "All ordered pairs of the value pool are evaluated under ==, !=, std.equals, <, <=, >, >=, std.__compare(_array); equality must coincide with equality of the manifested JSON trees (numeric ==), the order with code-point / lexicographic order, unordered kinds must fail; reflexivity, symmetry, transitivity and congruence are checked over the complete tables (all ordered triples); laziness and border cases are pinned.",
         "Trusted: the JSON-tree model of equality and order; values outside the pool are not covered.",
         "DESIGN.md §4 C08"),
 "C04": ("model_checking",
         "exhaustive metamorphic exploration: every node of every corpus program wrapped in std.trace (run count vs the reference interpreter), replaced by a failing expression when never run, and rewritten in 7-9 meaning-preserving ways",
         "For every program of the lazy/functions/objects/comprehensions corpora and every node: the number of times the node runs must equal the reference interpreter's count (0 = never, 1 = once however often it is used); a node that never runs can be replaced by `error` without changing the outcome; naming it with a local, passing it through an identity function, wrapping it in a one-element array or one-field object, adding dead locals/fields/parameters leaves value, message and std.trace output unchanged. Builtins taking functions are covered by templates with marked dead and shared positions.",
         "Trusted: refeval.rs memoisation semantics (per object value and layer); run counts compared only for programs yielding a value.",
         "DESIGN.md §4 C04"),
 "C10": ("model_checking",
         "exhaustive grid exploration (recursion shape x frame limit x depth) of the real evaluator on a 1 MiB native stack, with monotonicity and threshold invariants",
         "36 recursion shapes (calls, thunk chains, comparison, string conversion, every manifester, self-dependent values, non-terminating programs) are run for every frame limit and depth of the grid: each run must end in a value, StackOverflow or InfiniteRecursion (never a panic or a dead process; depths up to 3*10^5 under a 1 MiB native stack), success is monotone in the limit with an identical value, cycles are reported as infinite recursion once the limit exceeds the cycle, non-terminating shapes never yield a value.",
         "Trusted: nothing beyond the harness; recursion shapes outside the list and source-text nesting (parser) are not covered here.",
         "DESIGN.md §4 C10"),
 "C11": ("model_checking",
         "explicit-state exploration of all request histories up to a length bound on one Program, differential against a fresh state",
         "All histories of length <=3 (quick) / <=4 (thorough) over a 31-request alphabet (evaluations of sources sharing ext-var values incl. failing assertions, failing fields, stack overflows; re-evaluation of persistent thunks; eval_call with shared argument thunks; explicit gc; manifestations) are executed on one long-lived Program; each request must answer exactly as it does when issued first on a fresh state.",
         "Trusted: nothing beyond the harness (no hand-written expectations); histories above the bound and requests outside the alphabet are not covered.",
         "DESIGN.md §4 C11"),
 "C17": ("model_checking",
         "exhaustive enumeration of short arrays and deviation-bounded enumeration (0, 1, 2 deviations) of long arrays and of all set pairs against a stable-sort / set-algebra model",
         "Elements are [key, id] pairs. All arrays of length <=6/8 over 3 keys x 3 key kinds; every length in the list x 7 base patterns with every single deviation and, at the merge thresholds, every pair of deviations; all 64x64 set pairs over a 6-key universe with and without keyF; setMember on every set size 1..64; long arrays up to 5000 elements under the default frame limit. std.sort must be the stable sort, uniq/set/minArray/maxArray/setUnion/Inter/Diff/setMember must equal the model (ties taken from the left operand).",
         "Trusted: Vec::sort_by_key (stable) as the sorting model; key values outside the small universes are not covered.",
         "DESIGN.md §4 C17"),
 "C18": ("model_checking",
         "exhaustive enumeration of strings x patterns over a mixed-width alphabet and of every Unicode scalar value against a Vec<char> reference model",
         "All strings of length <=3/4 over {a, b, é, €, 😀, U+0301, ','} (plus overlap-prone extras) and all non-empty patterns of length <=2 are run through every code-point-sensitive builtin (length, index, slices, substr, findSubstr, stringChars, codepoint/char, reverse, map/flatMap/mapWithIndex, split/splitLimit/splitLimitR, join, strip*, strReplace, trim, startsWith/endsWith, case functions, member, repeat, %Ns/%-Ns/%*s widths) and compared with ref_strings; every Unicode scalar value goes through 17 observations; parseHex/parseOctal/parseInt get a multi-byte character at every byte position 0..45.",
         "Trusted: ref_strings (definitions over code points); strings longer than the bound are not covered.",
         "DESIGN.md §4 C18"),
 "C20": ("model_checking",
         "exhaustive enumeration of token sequences / byte arrays / scalar values against reference decoders (ref_json model, Python int/base64/hashlib/ast oracles, lossy UTF-8 decoding)",
         "parseInt/Octal/Hex on digit patterns of every listed length with a non-digit at every position (Python int()+float(), correct rounding); parseJson on all token sequences up to the bound over 31 JSON tokens against a strict RFC 8259 + duplicate-key model (cross-checked with serde_json), parseYaml equal to parseJson on every valid JSON document among them and total on all sequences over 39 YAML tokens plus anchor / multi-document / nesting probes; base64 on all byte arrays of length <=2 and decoder inputs up to length 4/5; encodeUTF8/decodeUTF8 on every scalar value and all border byte sequences; md5/sha1/sha256/sha512/sha3 for every message length 0..300; every escapeString* function round-trips through its target language's reader on every scalar value.",
         "Trusted: ref_json, Python's int/base64/hashlib/ast, String::from_utf8_lossy; lone-surrogate JSON documents are don't-care; inputs outside the alphabets are not covered.",
         "DESIGN.md §4 C20"),
 "C06": ("model_checking",
         "exhaustive enumeration over boundary doubles, every binade and a literal-text grid against Python float()/repr oracles and a finiteness invariant",
         "Every arithmetic/bitwise operator and numeric builtin over all pairs of 96 boundary doubles, every unary numeric builtin over every binade, sum/avg/min/max/foldl over all arrays of length <=3 over 12 boundary doubles must give an error or a finite number (checked on the manifested text and inside the language); a grid of literal texts (long integers, long fractions, border exponents, underscores at every position) must denote Python's correctly rounded double or be rejected on overflow; every binade x mantissa patterns printed through 4 number-to-text paths must read back to the same bits with the shortest number of digits.",
         "Trusted: Python float()/repr; doubles outside the grids are not covered.",
         "DESIGN.md §4 C06"),
}
def main():
    hooks = subprocess.run(["git","-C","/repo","log","--format=%H %s"],capture_output=True,text=True).stdout.splitlines()
    hook_commits=[l.split()[0] for l in hooks if "verif hook" in l]
    checks=[]
    for pid in ALL:
        if pid not in CHECKS: continue
        cat,tech,text,note,ref=CHECKS[pid]
        checks.append({
            "property_id": pid,
            "quick_cmd": f"./check {pid} quick",
            "thorough_cmd": f"./check {pid} thorough",
            "evidence_file": f"/verif/evidence/{pid}.json",
            "replay_cmd_template": "./check replay {path}",
            "engine": "rsj-mc",
            "level_claimed": {"category": cat, "text": text, "design_ref": ref},
            "level_note": note,
            "technique": tech,
        })
    na=[{"property_id":p,"reason":"check not built yet in this revision of /verif (work in progress; see DESIGN.md §4 for the planned procedure)"} for p in ALL if p not in CHECKS]
    m={
      "version":1,
      "setup_cmd":"./check setup",
      "hooks":{
        "guard":"cargo feature `verif` (rsjsonnet-lang/verif, forwarded by rsjsonnet-front/verif)",
        "enable":"the harness crate /verif/mc depends on /repo/rsjsonnet-lang and /repo/rsjsonnet-front by path with features=[\"verif\"]; the CLI binary is built without it",
        "baseline_off_cmd":"cd /repo && cargo nextest run --workspace --no-fail-fast --tool-config-file pb:/w/lib/nextest.toml --profile pb --test-threads 8 --offline || cargo test --workspace --no-fail-fast --offline",
        "source_commits":hook_commits,
        "add_only":True,
      },
      "engines":[{"name":"rsj-mc","path":"/verif/mc","serves_properties":sorted(CHECKS),"kind_free_text":"Rust harness linked against /repo's crates: deterministic size-ordered enumerators, reference models, explicit-state search, fault enumeration; Python/C batch oracles under /verif/oracles"}],
      "checks":checks,
      "not_applicable":na,
      "notes":"All checks are bounded exhaustive explorations (model checking family). known_findings.json lists genuine defects recorded or fixed.",
    }
    json.dump(m,open("/verif/MANIFEST.json","w"),indent=1)
    print("checks:",len(checks),"not_applicable:",len(na))
main()
